import ImathVerif.Lemmas.FixedArrayWrite
import ImathVerif.Lemmas.FixedArrayComp
import ImathVerif.Lemmas.FixedArrayInv
import ImathVerif.Lemmas.FixedArrayInplace
import ImathVerif.Lemmas.StringTableLemmas
import ImathVerif.Lemmas.FixedArray2DLemmas
import ImathVerif.Lemmas.FixedArray2DWrite
import ImathVerif.Lemmas.FixedArray2DSliceWrite
import ImathVerif.Lemmas.FixedMatrixWrite
import ImathVerif.Lemmas.FixedVArrayWrite
import ImathVerif.Lemmas.FixedVArrayLemmas
import ImathVerif.Model.FixedArrayWitness
import ImathVerif.Lemmas.BufferProtocolLemmas
/-!
# C19 — PyImath arrays index like Python sequences and honour read-only protection

Theorems about the hand model `Model/FixedArray.lean` (+ `FixedArray2D`, `StringTable`,
`BufferProtocol`), which is tied to `/repo` by the correspondence run of `tools/props/c19.py`.

The model is parametrised by `Cfg` / `BufCfg`; WHICH variant the current tree is, is decided on every
run by replaying the witness programs of `Model/FixedArrayWitness.lean` on the real module and then
confirmed line by line on the exhaustive streams.  The current tree is `Cfg.current` / `BufCfg.repaired`
(the model's defaults), and the PRIMARY theorems below are the full-strength statements about it:
`readonly_invariant_current`, `slice_any_sign`, `getslice_total`, `ifelse_refines`, `convert_refines`,
`buffer_len_is_shape_times_itemsize`, `from_buffer_exact`, ...

The last section, "Former defects", keeps — as documentation and as regression witnesses — the kernel-checked
refutations of the same statements for `Cfg.asWritten` / `BufCfg.asWritten` (the tree as first examined:
missing `throw` in `WritableMaskedAccess`, converting constructor, `s < 0` slice test, non-const read in
`ifelse`, `numBytes`, unchecked `...FromBuffer`).  One deviation from list semantics is still present in the
current code and is a recorded known finding: `setitem_scalar_mask` on a masked reference ignores the mask
(`setitem_scalar_mask_on_masked_ignores_mask`).
-/
namespace ImathVerif.C19
open ImathVerif.FixedArray

deriving instance DecidableEq for Except

/-! ## Read-only protection -/

/-- buffer `b` is protected: every Python object viewing it is read-only -/
def Protected (s : State) (b : Nat) : Prop := ∀ v ∈ s.env, v.buf = b → v.writable = false

instance (s : State) (b : Nat) : Decidable (Protected s b) := by unfold Protected; infer_instance

/-- the array a statement writes through -/
def Op.target : Op → Option Nat
  | .setScalar v _ _ | .setScalarMask v _ _ | .setVector v _ _ | .setVectorMask v _ _
  | .iaddScalar v _ | .iaddVector v _ => some v
  | _ => none

theorem getElem?_append_lt {α : Type} {l : List α} {x : α} {b : Nat} (hb : b < l.length) :
    (l ++ [x])[b]? = l[b]? := by
  simp [List.getElem?_append_left hb]

theorem push_protected {s : State} {b : Nat} {h' : Heap} {f : View}
    (hp : Protected s b) (hf : f.buf = b → f.writable = false) :
    Protected (s.push h' f).1 b := by
  intro v hv hvb
  simp only [State.push, List.mem_append, List.mem_singleton] at hv
  cases hv with
  | inl h => exact hp v h hvb
  | inr h => subst h; exact hf hvb

theorem withNew_protected {s : State} {b : Nat} (hb : b < s.heap.length) (hp : Protected s b)
    {r : Except Err (Heap × View)} (hfresh : ∀ x, r = .ok x → Fresh s.heap x) :
    (s.withNew r).1.heap[b]? = s.heap[b]? ∧ Protected (s.withNew r).1 b ∧
      s.heap.length ≤ (s.withNew r).1.heap.length := by
  cases r with
  | error e => exact ⟨rfl, hp, Nat.le_refl _⟩
  | ok x =>
    obtain ⟨h', f⟩ := x
    obtain ⟨vals, h1, h2⟩ := hfresh _ rfl
    simp only at h1 h2
    subst h1
    refine ⟨?_, ?_, ?_⟩
    · simp [State.withNew, State.push, getElem?_append_lt hb]
    · exact push_protected hp (fun hfb => by omega)
    · simp [State.withNew, State.push]

theorem withHeap_protected {s : State} {b : Nat} (hp : Protected s b) {a : View} (ha : a ∈ s.env)
    {r : Except Err Heap}
    (hm : ∀ h', r = .ok h' → a.writable = true ∧ Frame a.buf s.heap h') :
    (s.withHeap r).1.heap[b]? = s.heap[b]? ∧ Protected (s.withHeap r).1 b ∧
      s.heap.length ≤ (s.withHeap r).1.heap.length := by
  cases r with
  | error e => exact ⟨rfl, hp, Nat.le_refl _⟩
  | ok h' =>
    obtain ⟨hw, hf⟩ := hm h' rfl
    have hne : b ≠ a.buf := by
      intro hEq
      have := hp a ha hEq.symm
      simp [hw] at this
    exact ⟨hf.2 b hne, hp, by simp [State.withHeap, hf.1]⟩

theorem view_mem {s : State} {v : Nat} {a : View} (h : s.view v = .ok a) : a ∈ s.env := by
  unfold State.view at h
  split at h
  · rename_i x hx
    simp at h; subst h
    exact List.mem_of_getElem? hx
  · simp at h

/-- One statement, any statement: a protected buffer keeps its contents and stays protected
    (model variant in which `WritableMaskedAccess` throws). -/
theorem step_protected (cfg : Cfg) (hc : cfg.maskedAccessThrows = true) (s : State) (b : Nat)
    (hb : b < s.heap.length) (hp : Protected s b) (op : Op) :
    (step cfg s op).1.heap[b]? = s.heap[b]? ∧ Protected (step cfg s op).1 b ∧
      s.heap.length ≤ (step cfg s op).1.heap.length := by
  cases op with
  | alloc vals =>
    simp only [step]
    exact withNew_protected hb hp (r := .ok (alloc s.heap vals)) (fun x hx => by
      simp at hx; subst hx; exact alloc_fresh _ _)
  | len v =>
    simp only [step]; split <;> exact ⟨rfl, hp, Nat.le_refl _⟩
  | getitem v i =>
    simp only [step]
    split
    · split <;> exact ⟨rfl, hp, Nat.le_refl _⟩
    · exact ⟨rfl, hp, Nat.le_refl _⟩
  | getslice v idx =>
    simp only [step]
    split
    · exact withNew_protected hb hp (fun x hx => getslice_fresh hx)
    · exact ⟨rfl, hp, Nat.le_refl _⟩
  | getmask v m =>
    simp only [step]
    split
    · rename_i a mk ha hm
      split
      · rename_i f hf
        have hi := getsliceMask_inherits hf
        refine ⟨rfl, push_protected hp (fun hfb => ?_), Nat.le_refl _⟩
        rw [hi.2.1]; exact hp a (view_mem ha) (hi.1 ▸ hfb)
      · exact ⟨rfl, hp, Nat.le_refl _⟩
    · exact ⟨rfl, hp, Nat.le_refl _⟩
    · exact ⟨rfl, hp, Nat.le_refl _⟩
  | copy v =>
    simp only [step]
    split
    · rename_i a ha
      exact ⟨rfl, push_protected hp (fun hfb => hp a (view_mem ha) hfb), Nat.le_refl _⟩
    · exact ⟨rfl, hp, Nat.le_refl _⟩
  | convert v =>
    simp only [step]
    split
    · exact withNew_protected hb hp (fun x hx => convert_fresh hx)
    · exact ⟨rfl, hp, Nat.le_refl _⟩
  | setScalar v idx x =>
    simp only [step]
    split
    · rename_i a ha
      exact withHeap_protected hp (view_mem ha) (fun h' hr =>
        let m := setitemScalar_mutates hr; ⟨m.writable, m.frame⟩)
    · exact ⟨rfl, hp, Nat.le_refl _⟩
  | setScalarMask v m x =>
    simp only [step]
    split
    · rename_i a mk ha hm
      exact withHeap_protected hp (view_mem ha) (fun h' hr =>
        let m := setitemScalarMask_mutates hr; ⟨m.writable, m.frame⟩)
    · exact ⟨rfl, hp, Nat.le_refl _⟩
    · exact ⟨rfl, hp, Nat.le_refl _⟩
  | setVector v idx d =>
    simp only [step]
    split
    · rename_i a da ha hd
      exact withHeap_protected hp (view_mem ha) (fun h' hr =>
        let m := setitemVector_mutates hr; ⟨m.writable, m.frame⟩)
    · exact ⟨rfl, hp, Nat.le_refl _⟩
    · exact ⟨rfl, hp, Nat.le_refl _⟩
  | setVectorMask v m d =>
    simp only [step]
    split
    · rename_i a mk da ha hm hd
      exact withHeap_protected hp (view_mem ha) (fun h' hr =>
        let m := setitemVectorMask_mutates hr; ⟨m.writable, m.frame⟩)
    · exact ⟨rfl, hp, Nat.le_refl _⟩
    · exact ⟨rfl, hp, Nat.le_refl _⟩
    · exact ⟨rfl, hp, Nat.le_refl _⟩
  | ifelseScalar v c x =>
    simp only [step]
    split
    · exact withNew_protected hb hp (fun x hx => ifelseScalar_fresh hx)
    · exact ⟨rfl, hp, Nat.le_refl _⟩
    · exact ⟨rfl, hp, Nat.le_refl _⟩
  | ifelseVector v c o =>
    simp only [step]
    split
    · exact withNew_protected hb hp (fun x hx => ifelseVector_fresh hx)
    · exact ⟨rfl, hp, Nat.le_refl _⟩
    · exact ⟨rfl, hp, Nat.le_refl _⟩
    · exact ⟨rfl, hp, Nat.le_refl _⟩
  | makeReadOnly v =>
    simp only [step]
    split
    · rename_i a ha
      refine ⟨rfl, ?_, Nat.le_refl _⟩
      intro w hw hwb
      simp only at hw
      rcases List.mem_or_eq_of_mem_set hw with h | h
      · exact hp w h hwb
      · subst h; rfl
    · exact ⟨rfl, hp, Nat.le_refl _⟩
  | iaddScalar v x =>
    simp only [step]
    split
    · rename_i a ha
      exact withHeap_protected hp (view_mem ha) (fun h' hr =>
        let m := iaddScalar_mutates hr; ⟨m.1 hc, m.2.1⟩)
    · exact ⟨rfl, hp, Nat.le_refl _⟩
  | iaddVector v d =>
    simp only [step]
    split
    · rename_i a da ha hd
      exact withHeap_protected hp (view_mem ha) (fun h' hr =>
        let m := iaddVector_mutates hr; ⟨m.1 hc, m.2.1⟩)
    · exact ⟨rfl, hp, Nat.le_refl _⟩
    · exact ⟨rfl, hp, Nat.le_refl _⟩
  | allocWide w cells =>
    simp only [step]
    exact withNew_protected hb hp (r := .ok (allocWide s.heap w cells)) (fun x hx => by
      simp at hx; subst hx; exact ⟨cells, rfl, rfl⟩)
  | comp v k =>
    simp only [step]
    split
    · rename_i a ha
      split
      · rename_i c hcv
        have hi := compView_inherits hcv
        refine ⟨rfl, push_protected hp (fun hcb => ?_), Nat.le_refl _⟩
        rw [hi.2.1]; exact hp a (view_mem ha) (hi.1 ▸ hcb)
      · exact ⟨rfl, hp, Nat.le_refl _⟩
    · exact ⟨rfl, hp, Nat.le_refl _⟩

/-- **Read-only invariant over arbitrary programs** (repaired accessor).  If every Python object
    viewing buffer `b` is read-only, then after ANY sequence of statements of ANY length the buffer
    holds exactly the same data and is still protected: views derived later (masked references, handle
    copies) are read-only too, slices are copies in fresh buffers, and no operation writes through a
    read-only view. -/
theorem readonly_invariant (cfg : Cfg) (hc : cfg.maskedAccessThrows = true) :
    ∀ (ops : List Op) (s : State) (b : Nat), b < s.heap.length → Protected s b →
      (exec cfg s ops).heap[b]? = s.heap[b]? ∧ Protected (exec cfg s ops) b := by
  intro ops
  induction ops with
  | nil => intro s b _ hp; exact ⟨rfl, hp⟩
  | cons op ops ih =>
    intro s b hb hp
    obtain ⟨h1, h2, h3⟩ := step_protected cfg hc s b hb hp op
    obtain ⟨h4, h5⟩ := ih (step cfg s op).1 b (by omega) h2
    exact ⟨by simp only [exec]; rw [h4, h1], by simpa only [exec] using h5⟩

/-- **Read-only invariant of the code as it is now** — no hypothesis left: for every program of every length,
    a buffer all of whose views are read-only keeps its contents and stays protected. -/
theorem readonly_invariant_current (ops : List Op) (s : State) (b : Nat) (hb : b < s.heap.length)
    (hp : Protected s b) :
    (exec Cfg.current s ops).heap[b]? = s.heap[b]? ∧ Protected (exec Cfg.current s ops) b :=
  readonly_invariant Cfg.current rfl ops s b hb hp

/-- non-vacuity: the witness set-up state has buffer 0 protected, and `v += 5` through the masked reference of
    the read-only array raises and leaves it alone -/
example : Protected (exec Cfg.current State.empty witnessSetup) 0 ∧
    0 < (exec Cfg.current State.empty witnessSetup).heap.length ∧
    (run Cfg.current State.empty (witnessSetup ++ witnessMaskedInplaceScalar)).2.getLast? = some (.error .readOnly) ∧
    (exec Cfg.current State.empty (witnessSetup ++ witnessMaskedInplaceScalar)).heap[0]? = some [10, 11, 12] := by decide

/-- Statement level: a mutating statement whose target is read-only raises and changes nothing
    (neither the heap nor any object), in the repaired variant. -/
theorem readonly_step_raises (cfg : Cfg) (hc : cfg.maskedAccessThrows = true) (s : State) (op : Op) (v : Nat)
    (a : View) (ht : Op.target op = some v) (ha : s.env[v]? = some a) (hw : a.writable = false) :
    (step cfg s op).1 = s ∧ ∃ e, (step cfg s op).2 = .error e := by
  have hview : s.view v = .ok a := by simp [State.view, ha]
  have key : ∀ r : Except Err Heap, (∀ h', r = .ok h' → a.writable = true) →
      (s.withHeap r).1 = s ∧ ∃ e, (s.withHeap r).2 = .error e := by
    intro r hr
    cases r with
    | error e => exact ⟨rfl, e, rfl⟩
    | ok h' => have := hr h' rfl; simp [hw] at this
  cases op with
  | setScalar v' idx x =>
    simp only [Op.target, Option.some.injEq] at ht; subst ht
    simp only [step, hview]
    exact key _ (fun h' hr => (setitemScalar_mutates hr).writable)
  | setScalarMask v' m x =>
    simp only [Op.target, Option.some.injEq] at ht; subst ht
    simp only [step, hview]
    split
    · rename_i a' mk ha' _
      simp at ha'; subst ha'
      exact key _ (fun h' hr => (setitemScalarMask_mutates hr).writable)
    · exact ⟨rfl, _, rfl⟩
    · exact ⟨rfl, _, rfl⟩
  | setVector v' idx d =>
    simp only [Op.target, Option.some.injEq] at ht; subst ht
    simp only [step, hview]
    split
    · rename_i a' da ha' _
      simp at ha'; subst ha'
      exact key _ (fun h' hr => (setitemVector_mutates hr).writable)
    · exact ⟨rfl, _, rfl⟩
    · exact ⟨rfl, _, rfl⟩
  | setVectorMask v' m d =>
    simp only [Op.target, Option.some.injEq] at ht; subst ht
    simp only [step, hview]
    split
    · rename_i a' mk da ha' _ _
      simp at ha'; subst ha'
      exact key _ (fun h' hr => (setitemVectorMask_mutates hr).writable)
    · exact ⟨rfl, _, rfl⟩
    · exact ⟨rfl, _, rfl⟩
    · exact ⟨rfl, _, rfl⟩
  | iaddScalar v' x =>
    simp only [Op.target, Option.some.injEq] at ht; subst ht
    simp only [step, hview]
    exact key _ (fun h' hr => (iaddScalar_mutates hr).1 hc)
  | iaddVector v' d =>
    simp only [Op.target, Option.some.injEq] at ht; subst ht
    simp only [step, hview]
    split
    · rename_i a' da ha' _
      simp at ha'; subst ha'
      exact key _ (fun h' hr => (iaddVector_mutates hr).1 hc)
    · exact ⟨rfl, _, rfl⟩
    · exact ⟨rfl, _, rfl⟩
  | _ => simp [Op.target] at ht

/-- current code: any mutating statement through a read-only array or view raises and changes nothing -/
theorem readonly_step_raises_current (s : State) (op : Op) (v : Nat) (a : View)
    (ht : Op.target op = some v) (ha : s.env[v]? = some a) (hw : a.writable = false) :
    (step Cfg.current s op).1 = s ∧ ∃ e, (step Cfg.current s op).2 = .error e :=
  readonly_step_raises Cfg.current rfl s op v a ht ha hw

/-- the error raised by the element / slice / mask assignments is the read-only one -/
theorem setitem_readonly_error (h : Heap) (v m d : View) (idx : PyIdx) (x : Int) (hw : v.writable = false) :
    setitemScalar h v idx x = .error .readOnly ∧ setitemScalarMask h v m x = .error .readOnly ∧
    setitemVector h v idx d = .error .readOnly ∧ setitemVectorMask h v m d = .error .readOnly := by
  simp [setitemScalar, setitemScalarMask, setitemVector, setitemVectorMask, hw]

/-- `a += x` on a read-only array raises the read-only error through either accessor class (repaired) -/
theorem iaddScalar_readonly_error (cfg : Cfg) (hc : cfg.maskedAccessThrows = true) (h : Heap) (a : View) (x : Int)
    (hw : a.writable = false) : iaddScalar cfg h a x = .error .readOnly := by
  unfold iaddScalar selfAccess WritableMaskedAccess.mk' WritableDirectAccess.mk' ReadOnlyMaskedAccess.mk'
    ReadOnlyDirectAccess.mk'
  cases hi : a.indices with
  | none => simp [View.isMasked, hi, hw]
  | some idx => simp [View.isMasked, hi, hw, hc]

/-- a view never becomes writable again, and never moves to another buffer -/
theorem writable_monotone (cfg : Cfg) (s : State) (op : Op) (i : Nat) (a : View) (ha : s.env[i]? = some a) :
    ∃ a', (step cfg s op).1.env[i]? = some a' ∧ a'.buf = a.buf ∧ (a.writable = false → a'.writable = false) := by
  have hi : i < s.env.length := (List.getElem?_eq_some_iff.1 ha).1
  have keep : ∀ (h : Heap) (f : View), ∃ a', (s.push h f).1.env[i]? = some a' ∧ a'.buf = a.buf ∧
      (a.writable = false → a'.writable = false) :=
    fun h f => ⟨a, by simp [State.push, List.getElem?_append_left hi, ha], rfl, id⟩
  have same : ∃ a', s.env[i]? = some a' ∧ a'.buf = a.buf ∧ (a.writable = false → a'.writable = false) :=
    ⟨a, ha, rfl, id⟩
  have wh : ∀ r : Except Err Heap, ∃ a', (s.withHeap r).1.env[i]? = some a' ∧ a'.buf = a.buf ∧
      (a.writable = false → a'.writable = false) := by
    intro r; cases r <;> exact same
  have wn : ∀ r : Except Err (Heap × View), ∃ a', (s.withNew r).1.env[i]? = some a' ∧ a'.buf = a.buf ∧
      (a.writable = false → a'.writable = false) := by
    intro r
    cases r with
    | error e => exact same
    | ok x => exact keep x.1 x.2
  cases op <;> simp only [step]
  case alloc vals => exact keep _ _
  case len v => split <;> exact same
  case getitem v j => split <;> first | exact same | (split <;> exact same)
  case getslice v idx => split <;> first | exact same | exact wn _
  case getmask v m => split <;> first | exact same | (split <;> first | exact same | exact keep _ _)
  case copy v => split <;> first | exact same | exact keep _ _
  case convert v => split <;> first | exact same | exact wn _
  case setScalar v idx x => split <;> first | exact same | exact wh _
  case setScalarMask v m x => split <;> first | exact same | exact wh _
  case setVector v idx d => split <;> first | exact same | exact wh _
  case setVectorMask v m d => split <;> first | exact same | exact wh _
  case ifelseScalar v c x => split <;> first | exact same | exact wn _
  case ifelseVector v c o => split <;> first | exact same | exact wn _
  case makeReadOnly v =>
    split
    · rename_i b hb
      by_cases hvi : v = i
      · subst hvi
        have : b = a := by
          simp [State.view, ha] at hb; exact hb.symm
        subst this
        exact ⟨{ b with writable := false }, by simp [hi], rfl, fun _ => rfl⟩
      · exact ⟨a, by simp [hvi, ha], rfl, id⟩
    · exact same
  case iaddScalar v x => split <;> first | exact same | exact wh _
  case iaddVector v d => split <;> first | exact same | exact wh _
  case allocWide w cells => exact keep _ _
  case comp v k => split <;> first | exact same | (split <;> first | exact same | exact keep _ _)

/-- the object a creating statement derives its result from -/
def Op.source : Op → Option Nat
  | .getslice v _ | .getmask v _ | .copy v | .convert v | .ifelseScalar v _ _ | .ifelseVector v _ _ | .comp v _ => some v
  | _ => none

/-- **A view derived from a read-only object cannot be used to modify it** (the property's wording, without the
    `Protected` hypothesis on the OTHER objects): a masked reference, handle copy or COMPONENT ARRAY (`.x` …) of a read-only object is read-only;
    a slice / converted / `ifelse` result is a copy in a fresh buffer (so writable, but on other data). -/
theorem derived_view_readonly (cfg : Cfg) (s : State) (op : Op) (v : Nat) (a : View) (hsrc : Op.source op = some v)
    (ha : s.env[v]? = some a) (hw : a.writable = false) (hb : a.buf < s.heap.length) (id : Nat)
    (hr : (step cfg s op).2 = .ok (.newView id)) :
    ∃ f, (step cfg s op).1.env[id]? = some f ∧ (f.buf = a.buf → f.writable = false) := by
  have hview : s.view v = .ok a := by simp [State.view, ha]
  have wn : ∀ r : Except Err (Heap × View), (∀ x, r = .ok x → Fresh s.heap x) →
      (s.withNew r).2 = .ok (.newView id) →
      ∃ f, (s.withNew r).1.env[id]? = some f ∧ (f.buf = a.buf → f.writable = false) := by
    intro r hf hres
    cases r with
    | error e => simp [State.withNew] at hres
    | ok x =>
      obtain ⟨h', f⟩ := x
      obtain ⟨vals, _, h2⟩ := hf _ rfl
      simp only at h2
      simp only [State.withNew, State.push, Except.ok.injEq, Out.newView.injEq] at hres
      subst hres
      exact ⟨f, by simp [State.withNew, State.push], fun hfb => by omega⟩
  have ps : ∀ f : View, f.buf = a.buf → f.writable = a.writable →
      (s.push s.heap f).2 = .ok (.newView id) →
      ∃ f', (s.push s.heap f).1.env[id]? = some f' ∧ (f'.buf = a.buf → f'.writable = false) := by
    intro f _ h2 hres
    simp only [State.push, Except.ok.injEq, Out.newView.injEq] at hres
    subst hres
    exact ⟨f, by simp [State.push], fun _ => by rw [h2, hw]⟩
  cases op with
  | getslice v' idx =>
    simp only [Op.source, Option.some.injEq] at hsrc; subst hsrc
    simp only [step, hview] at hr ⊢
    exact wn _ (fun x hx => getslice_fresh hx) hr
  | getmask v' m =>
    simp only [Op.source, Option.some.injEq] at hsrc; subst hsrc
    simp only [step, hview] at hr ⊢
    cases hm : s.view m with
    | error e => simp [hm] at hr
    | ok mk =>
      simp only [hm] at hr ⊢
      cases hg : getsliceMask s.heap a mk with
      | error e => simp [hg] at hr
      | ok f =>
        simp only [hg] at hr ⊢
        have hi := getsliceMask_inherits hg
        exact ps f hi.1 hi.2.1 hr
  | copy v' =>
    simp only [Op.source, Option.some.injEq] at hsrc; subst hsrc
    simp only [step, hview] at hr ⊢
    exact ps a rfl rfl hr
  | comp v' k =>
    simp only [Op.source, Option.some.injEq] at hsrc; subst hsrc
    simp only [step, hview] at hr ⊢
    cases hg : compView cfg.componentKeepsMask a k with
    | error e => simp [hg] at hr
    | ok c =>
      simp only [hg] at hr ⊢
      have hi := compView_inherits hg
      exact ps c hi.1 hi.2.1 hr
  | convert v' =>
    simp only [Op.source, Option.some.injEq] at hsrc; subst hsrc
    simp only [step, hview] at hr ⊢
    exact wn _ (fun x hx => convert_fresh hx) hr
  | ifelseScalar v' c x =>
    simp only [Op.source, Option.some.injEq] at hsrc; subst hsrc
    simp only [step, hview] at hr ⊢
    cases hc : s.view c with
    | error e => simp [hc] at hr
    | ok ch =>
      simp only [hc] at hr ⊢
      exact wn _ (fun x hx => ifelseScalar_fresh hx) hr
  | ifelseVector v' c o =>
    simp only [Op.source, Option.some.injEq] at hsrc; subst hsrc
    simp only [step, hview] at hr ⊢
    cases hc : s.view c with
    | error e => simp [hc] at hr
    | ok ch =>
      cases ho : s.view o with
      | error e => simp [hc, ho] at hr
      | ok ot =>
        simp only [hc, ho] at hr ⊢
        exact wn _ (fun x hx => ifelseVector_fresh hx) hr
  | _ => simp [Op.source] at hsrc

/-- the limitation, stated and kernel-checked: an alias taken BEFORE `makeReadOnly()` (here a handle copy) stays
    writable — `_writable` is a per-object flag — so the data of a read-only OBJECT can still change through it.
    `readonly_invariant` therefore protects a BUFFER all of whose views are read-only, and `derived_view_readonly`
    covers every view derived AFTERWARDS. -/
theorem readonly_is_per_object :
    (exec Cfg.current State.empty [.alloc [1, 2], .copy 0, .makeReadOnly 0, .setScalar 1 (.int 0) 9]).heap[0]? = some [9, 2] ∧
    ((exec Cfg.current State.empty [.alloc [1, 2], .copy 0, .makeReadOnly 0]).env[0]?).map (·.writable) = some false ∧
    (run Cfg.current State.empty [.alloc [1, 2], .copy 0, .makeReadOnly 0, .setScalar 0 (.int 0) 9]).2.getLast?
      = some (.error .readOnly) := by decide

/-! ## The global invariant: no statement ever accesses memory outside a buffer

`StateOK s`: every Python object is a well-formed DENSE array (`off = 0`, `stride = 1`) or a masked reference of one.
Density is needed, not only well-formedness: the packed branch of `a[mask] = data` re-reads `mask` while it writes `a`,
and a SHIFTED alias of `a` used as the mask could grow the number of selected elements under the loop — such views cannot
be built by the 16 statements (slices are copies), which is what the invariant records. -/

/-- **One statement, any statement (current code)** — the 16 statements on arrays AND the two on vector arrays
    (`V3iArray(...)`, `.x`/`.y`/…): the invariant is preserved and the result is not the model's out-of-buffer outcome.
    `OpOK s op`: an allocation request fits `Py_ssize_t`, a vector array is filled with whole elements, and a component is
    taken of a vector array (`off = 0`, `k < stride`) — what Python's classes enforce. -/
theorem step_preserves_WF (s : State) (hs : StateOK s) (op : Op) (hop : OpOK s op) :
    StateOK (step Cfg.current s op).1 ∧ (step Cfg.current s op).2 ≠ .error .oob := step_inv s hs op hop

/-- **No program, of any length, touches a cell outside a buffer** — programs over dense arrays, vector arrays, their
    component arrays and masked references of all of these: starting from the empty interpreter state every reachable
    state satisfies the invariant and no statement's outcome is `Err.oob` (clause 11). -/
theorem no_oob_current (ops : List Op) (hops : OpsOK State.empty ops) :
    StateOK (exec Cfg.current State.empty ops) ∧ ∀ r ∈ (run Cfg.current State.empty ops).2, r ≠ .error .oob :=
  run_inv ops State.empty StateOK.empty hops

/-- non-vacuity / discrimination: the converting-constructor witness satisfies the side conditions, and the SAME statement
    is false for the code as first examined (`convert_masked_oob_asWritten`) -/
example : OpsOK State.empty witnessConvert ∧
    (run Cfg.asWritten State.empty witnessConvert).2.getLast? = some (.error .oob) ∧
    (∀ r ∈ (run Cfg.current State.empty witnessConvert).2, r ≠ .error .oob) := by
  have hok : OpsOK State.empty witnessConvert := by
    simp only [witnessConvert, OpsOK, OpOK, and_true]
    decide
  exact ⟨hok, by decide, (no_oob_current witnessConvert hok).2⟩

/-- **a program that takes `.x` of a masked reference of a vector array and writes through it** is inside the theorem:
    `a = V3iArray(4 elements); v = a[IntArray([0,1,0,1])]; c = v.x; c[1] = 99; c += …` -/
example : OpsOK State.empty (witnessComponentOps ++ [.alloc [5, 6], .setVectorMask 3 1 4, .iaddVector 3 4]) := by
  simp only [witnessComponentOps, List.cons_append, List.nil_append, OpsOK, OpOK, and_true, true_and]
  decide

/-- `a.ifelse(choice, x)` with a scalar alternative: `[a[i] if choice[i] else x]` in a fresh array -/
theorem ifelse_scalar_refines {h : Heap} {v choice : View} (w : v.WF (shape h)) (wc : choice.WF (shape h))
    (hl1 : choice.length = v.length) (x : Int) :
    ∃ h' f, ifelseScalar h v choice x = .ok (h', f) ∧
      f.toList h' = PyList.ifelse (choice.toList h) (v.toList h) (List.replicate v.length x) ∧
      f.WF (shape h') ∧ f.buf = h.length ∧ (∃ vals, h' = h ++ [vals]) := ifelseScalar_refines w wc hl1 x

/-! ## Refinement to Python list semantics (statements; proofs in `Lemmas/FixedArrayWF.lean`, `FixedArrayWrite.lean`)

`View.toList h v` is what Python sees: element `i` is `_ptr[(masked ? _indices[i] : i) * _stride]`.
`View.WF (shape h) v` says the view's addressable cells lie inside its allocation (it is established
by every constructor, see `alloc_WF`, `getslice_refines`, `getsliceMask_refines`, and preserved by
every write, which never changes `shape`).  Each theorem returns `.ok`, so in particular the
operation performs NO access outside the buffer (`Err.oob` is the model's only out-of-buffer outcome). -/

/-- `canonical_index` = Python's index normalisation, any sign -/
theorem canonical_index_refines {α : Type} (l : List α) (i : Int) :
    (match canonicalIndex l.length i with
      | .ok k => l[k]?
      | .error _ => none) = PyList.getitem l i := canonicalIndex_pylist l i

/-- the position `canonical_index` returns is inside the array -/
theorem canonical_index_in_bounds {len : Nat} {i : Int} {k : Nat} (h : canonicalIndex len i = .ok k) : k < len :=
  canonicalIndex_lt h

/-- slice normalisation (CPython's algorithm + closed-form length + `size_t` arithmetic) selects exactly the
    indices of the language reference's walk, for all signs of start/stop/step -/
theorem slice_indices_refine {n : Nat} (hn : (n : Int) ≤ PY_SSIZE_T_MAX) {a b c : Option Int}
    (hc : ∀ v, c = some v → -PY_SSIZE_T_MAX ≤ v) {s : SliceIdx}
    (h : extractSliceIndices n (.slice a b c) = .ok s) :
    PyList.sliceIndices n a b c = some ((List.range s.slicelength).map s.at) :=
  extract_slice_spec hn hc h

/-- every index computed from any subscript is inside the array -/
theorem slice_indices_in_bounds {n : Nat} (hn : (n : Int) ≤ PY_SSIZE_T_MAX) {idx : PyIdx} {s : SliceIdx}
    (h : extractSliceIndices n idx = .ok s) (i : Nat) (hi : i < s.slicelength) : s.at i < n :=
  slice_at_lt' hn h i hi

/-- **Every slice with a non-zero step — all signs of start/stop/step, every length — is accepted by the
    current `extract_slice_indices`, selects exactly the indices of the language reference, and every index
    is inside the array.** -/
theorem slice_any_sign {n : Nat} (hn : (n : Int) ≤ PY_SSIZE_T_MAX) {a b c : Option Int}
    (hc0 : c ≠ some 0) (hc : ∀ v, c = some v → -PY_SSIZE_T_MAX ≤ v) :
    ∃ s, extractSliceIndices n (.slice a b c) = .ok s ∧
      PyList.sliceIndices n a b c = some ((List.range s.slicelength).map s.at) ∧
      ∀ i, i < s.slicelength → s.at i < n := by
  obtain ⟨s, hs⟩ := extract_slice_total_repaired hn hc0 hc
  exact ⟨s, hs, extract_slice_spec hn hc hs, fun i hi => slice_at_lt' hn hs i hi⟩

/-- the start test written in the current code, `(sl > 0 && s < 0)`, and the model's `s < -1` never fire -/
theorem current_start_test {n : Nat} (hn : (n : Int) ≤ PY_SSIZE_T_MAX) {a b c : Option Int}
    (hc : ∀ v, c = some v → -PY_SSIZE_T_MAX ≤ v) {sa so st : Int} (hu : sliceUnpack a b c = .ok (sa, so, st)) :
    ¬ ((sliceAdjust n sa so st).1 < -1) ∧
    ¬ (0 < (sliceAdjust n sa so st).2.2 ∧ (sliceAdjust n sa so st).1 < 0) := current_start_test_equiv hn hc hu

/-- **`a[start:stop:step]` never fails for a non-zero step** and is the list's slice -/
theorem getslice_total {h : Heap} {v : View} (w : v.WF (shape h)) {a b c : Option Int}
    (hc0 : c ≠ some 0) (hc : ∀ x, c = some x → -PY_SSIZE_T_MAX ≤ x) :
    ∃ h' f, getslice h v (.slice a b c) = .ok (h', f) ∧
      PyList.getslice (v.toList h) a b c = some (f.toList h') ∧ f.WF (shape h') ∧ f.writable = true := by
  obtain ⟨s, hs, _⟩ := slice_any_sign w.lenOk (a := a) (b := b) hc0 hc
  obtain ⟨⟨h', f⟩, hr⟩ := getslice_ok w hs
  have := FixedArray.getslice_refines w hc hr
  exact ⟨h', f, hr, this.1, this.2.1, this.2.2.1⟩

theorem getitem_refines {h : Heap} {v : View} (w : v.WF (shape h)) (i : Int) :
    getitem h v i = (match PyList.getitem (v.toList h) i with
      | some x => .ok x
      | none => .error .indexError) := FixedArray.getitem_refines w i

theorem getslice_refines {h : Heap} {v : View} (w : v.WF (shape h)) {a b c : Option Int}
    (hc : ∀ x, c = some x → -PY_SSIZE_T_MAX ≤ x) {h' : Heap} {f : View}
    (hr : getslice h v (.slice a b c) = .ok (h', f)) :
    PyList.getslice (v.toList h) a b c = some (f.toList h') ∧
    f.WF (shape h') ∧ f.writable = true ∧ f.indices = none ∧ f.buf = h.length ∧
    (∃ vals, h' = h ++ [vals]) := FixedArray.getslice_refines w hc hr

theorem getmask_refines {h : Heap} {f mask : View} (wf : f.WF (shape h)) (wm : mask.WF (shape h))
    (hun : f.indices = none) (hlen : f.length = mask.length) :
    ∃ m, getsliceMask h f mask = .ok m ∧
      m.toList h = PyList.select (f.toList h) (mask.toList h) ∧
      m.WF (shape h) ∧ m.buf = f.buf ∧ m.writable = f.writable ∧
      m.indices = some (PyList.maskPositions (mask.toList h)) := getsliceMask_refines wf wm hun hlen

theorem setitem_scalar_slice_refines {h : Heap} {v : View} (w : v.WF (shape h)) (hw : v.writable = true)
    {a b c : Option Int} (hc : ∀ y, c = some y → -PY_SSIZE_T_MAX ≤ y) {s : SliceIdx}
    (hs : extractSliceIndices v.length (.slice a b c) = .ok s) (x : Int) :
    ∃ h', setitemScalar h v (.slice a b c) x = .ok h' ∧ shape h' = shape h ∧ Frame v.buf h h' ∧
      PyList.setsliceScalar (v.toList h) a b c x = some (v.toList h') ∧
      (∀ p, (∀ i, i < s.slicelength → v.cellPos (s.at i) ≠ p) → cellAt h' v.buf p = cellAt h v.buf p) :=
  setitemScalar_slice_refines w hw hc hs x

theorem setitem_scalar_int_refines {h : Heap} {v : View} (w : v.WF (shape h)) (hw : v.writable = true)
    (i : Int) (x : Int) :
    (∀ k, canonicalIndex v.length i = .ok k →
      ∃ h', setitemScalar h v (.int i) x = .ok h' ∧ shape h' = shape h ∧ Frame v.buf h h' ∧
        v.toList h' = (v.toList h).set k x) ∧
    (∀ e, canonicalIndex v.length i = .error e → setitemScalar h v (.int i) x = .error .indexError) :=
  setitemScalar_int_refines w hw i x

theorem setitem_vector_slice_refines {h : Heap} {v data : View} (w : v.WF (shape h)) (wd : data.WF (shape h))
    (hw : v.writable = true) (hne : data.buf ≠ v.buf)
    {a b c : Option Int} (hc : ∀ y, c = some y → -PY_SSIZE_T_MAX ≤ y) {s : SliceIdx}
    (hs : extractSliceIndices v.length (.slice a b c) = .ok s) (hlen : data.length = s.slicelength) :
    ∃ h', setitemVector h v (.slice a b c) data = .ok h' ∧ shape h' = shape h ∧ Frame v.buf h h' ∧
      PyList.setsliceVector (v.toList h) a b c (data.toList h) = some (v.toList h') ∧
      (∀ p, (∀ i, i < s.slicelength → v.cellPos (s.at i) ≠ p) → cellAt h' v.buf p = cellAt h v.buf p) :=
  setitemVector_slice_refines w wd hw hne hc hs hlen

theorem setitem_vector_length_mismatch {h : Heap} {v data : View} (hw : v.writable = true) {idx : PyIdx}
    {s : SliceIdx} (hs : extractSliceIndices v.length idx = .ok s) (hlen : data.length ≠ s.slicelength) :
    setitemVector h v idx data = .error .srcDimMismatch := setitemVector_length_error hw hs hlen

theorem setitem_scalar_mask_refines {h : Heap} {v mask : View} (w : v.WF (shape h)) (wm : mask.WF (shape h))
    (hw : v.writable = true) (hun : v.indices = none) (hne : mask.buf ≠ v.buf) (hlen : mask.length = v.length)
    (x : Int) :
    ∃ h', setitemScalarMask h v mask x = .ok h' ∧ shape h' = shape h ∧ Frame v.buf h h' ∧
      v.toList h' = PyList.setMaskScalar (v.toList h) (mask.toList h) x :=
  setitemScalarMask_refines w wm hw hun hne hlen x

theorem setitem_vector_mask_refines {h : Heap} {v mask data : View} (w : v.WF (shape h))
    (wm : mask.WF (shape h)) (wd : data.WF (shape h)) (hw : v.writable = true) (hun : v.indices = none)
    (hnm : mask.buf ≠ v.buf) (hnd : data.buf ≠ v.buf) (hlen : mask.length = v.length)
    (hdl : data.length = v.length) :
    ∃ h', setitemVectorMask h v mask data = .ok h' ∧ shape h' = shape h ∧ Frame v.buf h h' ∧
      v.toList h' = PyList.setMaskSame (v.toList h) (mask.toList h) (data.toList h) :=
  setitemVectorMask_same_refines w wm wd hw hun hnm hnd hlen hdl

theorem ifelse_refines {h : Heap} {v choice other : View} (w : v.WF (shape h)) (wc : choice.WF (shape h))
    (wo : other.WF (shape h)) (hl1 : choice.length = v.length) (hl2 : other.length = v.length) :
    ∃ h' f, ifelseVector h v choice other = .ok (h', f) ∧
      f.toList h' = PyList.ifelse (choice.toList h) (v.toList h) (other.toList h) ∧
      f.WF (shape h') ∧ f.buf = h.length ∧ (∃ vals, h' = h ++ [vals]) :=
  ifelseVector_refines w wc wo (Or.inl rfl) hl1 hl2

/-- `a[mask] = b` with `len(b) == count(mask)` (the packed branch): the selected positions receive `b[0], b[1], …` -/
theorem setitem_vector_mask_packed_refines {h : Heap} {v mask data : View} (w : v.WF (shape h))
    (wm : mask.WF (shape h)) (wd : data.WF (shape h)) (hw : v.writable = true) (hun : v.indices = none)
    (hnm : mask.buf ≠ v.buf) (hnd : data.buf ≠ v.buf) (hlen : mask.length = v.length)
    (hdl : data.length ≠ v.length) (hcnt : data.length = (PyList.maskPositions (mask.toList h)).length) :
    ∃ h', setitemVectorMask h v mask data = .ok h' ∧ shape h' = shape h ∧ Frame v.buf h h' ∧
      v.toList h' = PyList.setMaskPacked (v.toList h) (mask.toList h) (data.toList h) :=
  setitemVectorMask_packed_refines w wm wd hw hun hnm hnd hlen hdl hcnt

/-- **`a += x`** through either accessor class (dense, strided or masked `a`; current code): exactly the elements of
    `a` are increased by `x`, no other cell of the buffer changes -/
theorem iadd_scalar_refines {h : Heap} {a : View} (w : a.WF (shape h)) (hw : a.writable = true) (x : Int) :
    ∃ h', iaddScalar Cfg.current h a x = .ok h' ∧ shape h' = shape h ∧ Frame a.buf h h' ∧
      a.toList h' = (a.toList h).map (· + x) ∧
      (∀ p, (∀ j, j < a.length → a.cellPos j ≠ p) → cellAt h' a.buf p = cellAt h a.buf p) := iaddScalar_refines w hw x

/-- **`a += b`**, `len(b) == len(a)` (`b` in another allocation, either array may be a masked reference):
    `a[i] += b[i]` -/
theorem iaddVector_refines {h : Heap} {a b : View} (w : a.WF (shape h)) (wb : b.WF (shape h)) (hw : a.writable = true)
    (hne : b.buf ≠ a.buf) (hlen : b.length = a.length) (hk : ¬ (a.isMasked = true ∧ b.length = a.unmaskedLength)) :
    ∃ h', iaddVector Cfg.current h a b = .ok h' ∧ shape h' = shape h ∧ Frame a.buf h h' ∧
      a.toList h' = List.zipWith (· + ·) (a.toList h) (b.toList h) := FixedArray.iaddVector_refines w wb hw hne hlen hk

/-- **`m += b`** for a masked reference `m` and `b` of the UNMASKED length: `m[i] += b[raw index of i]` -/
theorem iaddVector_masked_refines {h : Heap} {a b : View} {idx : List Nat} (w : a.WF (shape h)) (wb : b.WF (shape h))
    (hw : a.writable = true) (hne : b.buf ≠ a.buf) (hidx : a.indices = some idx) (hlen : b.length = a.unmaskedLength) :
    ∃ h', iaddVector Cfg.current h a b = .ok h' ∧ shape h' = shape h ∧ Frame a.buf h h' ∧
      a.toList h' = List.zipWith (· + ·) (a.toList h) (PyList.pick (b.toList h) idx) :=
  FixedArray.iaddVector_masked_refines w wb hw hne hidx hlen

/-- what `m[mask] = x` DOES on a masked reference, for every input (recorded finding: the mask is not looked at) -/
theorem setitem_scalar_mask_on_masked_refines {h : Heap} {v mask : View} {idx : List Nat} (w : v.WF (shape h))
    (hw : v.writable = true) (hidx : v.indices = some idx)
    (hlen : mask.length = v.length ∨ mask.length = v.unmaskedLength) (x : Int) :
    ∃ h', setitemScalarMask h v mask x false = .ok h' ∧ shape h' = shape h ∧ Frame v.buf h h' ∧
      v.toList h' = PyList.setEach (v.toList h) (List.range v.length) x :=
  setitemScalarMask_on_masked_refines w hw hidx hlen x

/-- non-vacuity of the in-place theorems: the masked reference of the witness set-up (made writable) is well formed -/
example : ∃ s : State, s = exec Cfg.current State.empty [.alloc [10, 11, 12], .alloc [1, 0, 1], .getmask 0 1] ∧
    StateOK s ∧ (s.env[2]?).map (·.indices) = some (some [0, 2]) :=
  ⟨_, rfl, (no_oob_current _ (by simp only [OpsOK, OpOK, and_true]; decide)).1, by decide⟩

/-! ### the mask specification, characterised independently of its definition -/

/-- `i` is selected iff it is a position of the mask holding a non-zero value -/
theorem maskPositions_spec (m : List Int) (i : Nat) :
    i ∈ PyList.maskPositions m ↔ i < m.length ∧ m[i]! ≠ 0 := by
  simp [PyList.maskPositions]

/-- the selected positions are listed once each, in increasing order -/
theorem maskPositions_sorted (m : List Int) : (PyList.maskPositions m).Pairwise (· < ·) :=
  List.Pairwise.filter _ List.pairwise_lt_range

/-- `select` is Python's `[x for x, b in zip(l, mask) if b]` when the lengths agree -/
theorem select_eq_zip_filter {α : Type} (l : List α) (m : List Int) (hl : l.length = m.length) :
    PyList.select l m = (l.zip m).filterMap (fun p => if p.2 != 0 then some p.1 else none) := by
  induction l generalizing m with
  | nil =>
    cases m with
    | nil => rfl
    | cons b t => simp at hl
  | cons a t ih =>
    cases m with
    | nil => simp at hl
    | cons b u =>
      have hl' : t.length = u.length := by simpa using hl
      have hshift : PyList.maskPositions (b :: u)
          = (if b != 0 then [0] else []) ++ (PyList.maskPositions u).map (· + 1) := by
        unfold PyList.maskPositions
        rw [List.length_cons, List.range_succ_eq_map, List.filter_cons]
        simp only [List.filter_map]
        have : (List.filter ((fun i => (b :: u)[i]! != 0) ∘ Nat.succ) (List.range u.length))
            = List.filter (fun i => u[i]! != 0) (List.range u.length) := by
          apply List.filter_congr
          intro i _
          simp [getElem!_def]
        rw [this]
        by_cases hb : (b != 0) = true
        · simp [hb, getElem!_def]
        · simp [hb, getElem!_def]
      have hpick : PyList.pick (a :: t) ((PyList.maskPositions u).map (· + 1)) = PyList.pick t (PyList.maskPositions u) := by
        unfold PyList.pick
        rw [List.filterMap_map]
        rfl
      unfold PyList.select at ih ⊢
      rw [hshift]
      unfold PyList.pick
      rw [List.filterMap_append]
      have := ih u hl'
      unfold PyList.pick at this hpick
      rw [hpick, this]
      by_cases hb : (b != 0) = true
      · have hb0 : b ≠ 0 := by simpa using hb
        simp [hb, hb0]
      · have hb0 : b = 0 := by simpa using hb
        simp [hb0]

/-- the mismatched-length masks and right-hand sides raise -/
theorem mask_length_mismatch (h : Heap) (f mask : View) (hun : f.indices = none) (hl : f.length ≠ mask.length) :
    getsliceMask h f mask = .error .dimMismatch := by
  simp [getsliceMask, View.isMasked, hun, matchDimension, hl]

/-- every error leaves the whole state (heap and objects) exactly as it was -/
theorem error_leaves_state (cfg : Cfg) (s : State) (op : Op) (e : Err) (h : (step cfg s op).2 = .error e) :
    (step cfg s op).1 = s := by
  have wh : ∀ r : Except Err Heap, (s.withHeap r).2 = .error e → (s.withHeap r).1 = s := by
    intro r; cases r <;> simp [State.withHeap]
  have wn : ∀ r : Except Err (Heap × View), (s.withNew r).2 = .error e → (s.withNew r).1 = s := by
    intro r; cases r <;> simp [State.withNew, State.push]
  cases op <;> simp only [step] at h ⊢
  case alloc vals => simp [State.push] at h
  case len v => cases hv : s.view v <;> simp [hv] at h ⊢
  case getitem v j =>
    cases hv : s.view v with
    | error e' => simp
    | ok a => simp only; cases getitem s.heap a j <;> simp
  case getslice v idx =>
    cases hv : s.view v with
    | error e' => simp
    | ok a => simp only [hv] at h ⊢; exact wn _ h
  case getmask v m =>
    cases hv : s.view v with
    | error e' => simp
    | ok a =>
      cases hm : s.view m with
      | error e' => simp
      | ok mk =>
        simp only [hv, hm] at h ⊢
        cases hg : getsliceMask s.heap a mk with
        | error e' => simp
        | ok f => simp [hg, State.push] at h
  case copy v =>
    cases hv : s.view v with
    | error e' => simp
    | ok a => simp [hv, State.push] at h
  case convert v =>
    cases hv : s.view v with
    | error e' => simp
    | ok a => simp only [hv] at h ⊢; exact wn _ h
  case setScalar v idx x =>
    cases hv : s.view v with
    | error e' => simp
    | ok a => simp only [hv] at h ⊢; exact wh _ h
  case setScalarMask v m x =>
    cases hv : s.view v with
    | error e' => simp
    | ok a =>
      cases hm : s.view m with
      | error e' => simp
      | ok mk => simp only [hv, hm] at h ⊢; exact wh _ h
  case setVector v idx d =>
    cases hv : s.view v with
    | error e' => simp
    | ok a =>
      cases hm : s.view d with
      | error e' => simp
      | ok mk => simp only [hv, hm] at h ⊢; exact wh _ h
  case setVectorMask v m d =>
    cases hv : s.view v with
    | error e' => simp
    | ok a =>
      cases hm : s.view m with
      | error e' => simp
      | ok mk =>
        cases hd : s.view d with
        | error e' => simp
        | ok da => simp only [hv, hm, hd] at h ⊢; exact wh _ h
  case ifelseScalar v c x =>
    cases hv : s.view v with
    | error e' => simp
    | ok a =>
      cases hm : s.view c with
      | error e' => simp
      | ok mk => simp only [hv, hm] at h ⊢; exact wn _ h
  case ifelseVector v c o =>
    cases hv : s.view v with
    | error e' => simp
    | ok a =>
      cases hm : s.view c with
      | error e' => simp
      | ok mk =>
        cases hd : s.view o with
        | error e' => simp
        | ok da => simp only [hv, hm, hd] at h ⊢; exact wn _ h
  case makeReadOnly v =>
    cases hv : s.view v with
    | error e' => simp
    | ok a => simp [hv] at h
  case iaddScalar v x =>
    cases hv : s.view v with
    | error e' => simp
    | ok a => simp only [hv] at h ⊢; exact wh _ h
  case iaddVector v d =>
    cases hv : s.view v with
    | error e' => simp
    | ok a =>
      cases hm : s.view d with
      | error e' => simp
      | ok mk => simp only [hv, hm] at h ⊢; exact wh _ h
  case allocWide w cells => simp [State.push] at h
  case comp v k =>
    cases hv : s.view v with
    | error e' => simp
    | ok a =>
      simp only [hv] at h ⊢
      cases hc : compView cfg.componentKeepsMask a k with
      | error e' => simp
      | ok c => simp [hc, State.push] at h

/-! ## Converting constructor -/

/-- `FloatArray(a)` / `V3dArray(a)` ...: a well-formed DENSE copy of exactly the source's elements, also when the
    source is a masked reference -/
theorem convert_refines {h : Heap} {v : View} (w : v.WF (shape h)) :
    ∃ h' f, convert Cfg.current h v = .ok (h', f) ∧ f.toList h' = v.toList h ∧ f.WF (shape h') ∧ f.buf = h.length := by
  have hA := alloc_WF h (v.toList h) (by rw [View.toList_length]; exact w.lenOk)
  refine ⟨_, _, ?_, hA.2, hA.1, rfl⟩
  unfold convert
  simp [w.readAll, Cfg.current]

/-! ## Component arrays `.x .y .z .w` / `.r .g .b .a` / `.min .max`  (`Vec3Array_get` and its six copies)

`compView true` is the intended behaviour (and the current code once the component getters keep `_indices`);
`compView false` is the code as first examined: the mask of a masked reference is dropped.  Which one the current
tree is, is decided on every run by replaying `witnessComponentLines` on the real module. -/

/-- **clause 10 for component arrays**: the component array of a dense vector array OR of a masked reference reads
    and writes exactly component `k` of the selected elements (it is a well-formed view with the same mask on the
    same storage, so every get/set theorem above applies to it) -/
theorem component_refines {h : Heap} {va : View} {w k : Nat} (hk : k < w) (W : va.WideWF (shape h) w) :
    ∃ c, compView true va k = .ok c ∧ c.WF (shape h) ∧ c.buf = va.buf ∧ c.writable = va.writable ∧
      c.indices = va.indices ∧ c.length = va.length ∧
      c.toList h = (List.range va.length).map (fun i => cellAt h va.buf (va.cellPos i + k)) :=
  compView_refines hk W

/-- **clause 12 for component arrays** (either variant): the component array shares storage and writability with its
    source, so adding it to the Python objects keeps a protected buffer protected -/
theorem component_protected {km : Bool} {s : State} {b v k : Nat} {a c : View} (hp : Protected s b)
    (ha : s.env[v]? = some a) (hc : compView km a k = .ok c) : Protected (s.push s.heap c).1 b := by
  have hi := compView_inherits hc
  exact push_protected hp (fun hcb => by rw [hi.2.1]; exact hp a (List.mem_of_getElem? ha) (hi.1 ▸ hcb))

/-- the same through the state machine: with the getters as first examined the program `v = a[[0,1,0,1]]; c = v.x; c[1]`
    reads element 2 (value 2), with the current ones element 3 -/
theorem component_witness_run :
    (run Cfg.asWritten State.empty witnessComponentOps).2[4]? = some (.ok (.int 2)) ∧
    (run Cfg.current State.empty witnessComponentOps).2[4]? = some (.ok (.int 3)) := by decide

/-- **as first examined the mask is dropped**: `a[[0,1,0,1]].x` of the 4-element witness reads elements 1,2 (not 1,3)
    and `.x[1] = 99` lands in `a[2]`; intended: reads 1,3 and writes `a[3]` -/
theorem component_asWritten_drops_mask :
    witnessComponent false = .ok ([1, 2], [0, 10, 20, 1, 11, 21, 99, 12, 22, 3, 13, 23]) ∧
    witnessComponent true = .ok ([1, 3], [0, 10, 20, 1, 11, 21, 2, 12, 22, 99, 13, 23]) := by decide

/-- as first examined the component array of an EMPTY masked reference reads `_indices[0]` of a zero-length
    allocation -/
theorem component_asWritten_empty_mask_reads_out_of_bounds (va : View) (k : Nat) (h : va.indices = some []) :
    compView false va k = .error .oob ∧ ∃ c, compView true va k = .ok c := by
  simp [compView, h]

/-! ## Known deviation still present in the current code (recorded finding) -/

/-- `m[mask2] = x` on a masked reference `m` ignores `mask2` altogether (every referenced element is set);
    honouring the mask (`Cfg.repaired`) would give list semantics -/
theorem setitem_scalar_mask_on_masked_ignores_mask :
    (exec Cfg.current State.empty witnessMaskOnMasked).heap[0]? = some [7, 7, 12] ∧
    (exec Cfg.repaired State.empty witnessMaskOnMasked).heap[0]? = some [7, 11, 12] := by decide

/-! ## FixedArray2D / FixedMatrix against nested lists -/
open ImathVerif.FixedArray2D

/-- `a.item(i, j)`, ints of any sign: `nested[j][i]`, `IndexError` in exactly the same cases -/
theorem array2d_item_refines {h : Heap} {v : View2D} (w : v.WF (shape h)) (i j : Int) :
    item h v i j = (match (PyList.getitem (v.toNested h) j).bind (fun row => PyList.getitem row i) with
      | some x => .ok x
      | none => .error .indexError) := item_refines w i j

/-- `a[sx, sy]`: a fresh array equal to `[[row[i] for i in range(lenX)[sx]] for row in nested[sy]]`,
    whenever the subscripts are accepted — which every forward slice is (`array2d_forward_slices_accepted`) -/
theorem array2d_getslice_forward_refines {h : Heap} {v : View2D} (w : v.WF (shape h))
    {ax bx cx ay by' cy : Option Int}
    (hcx : ∀ x, cx = some x → -PY_SSIZE_T_MAX ≤ x) (hcy : ∀ x, cy = some x → -PY_SSIZE_T_MAX ≤ x)
    {h' : Heap} {f : View2D}
    (hr : getslice2D h v (.slice ax bx cx) (.slice ay by' cy) = .ok (h', f)) :
    ∃ xs ys, PyList.sliceIndices v.lenX ax bx cx = some xs ∧ PyList.sliceIndices v.lenY ay by' cy = some ys ∧
      f.toNested h' = (PyList.pick (v.toNested h) ys).map (fun row => PyList.pick row xs) ∧
      f.lenX = xs.length ∧ f.lenY = ys.length ∧ f.buf = h.length := getslice2D_refines w hcx hcy hr

theorem array2d_forward_slices_accepted {n : Nat} (hn : (n : Int) ≤ PY_SSIZE_T_MAX) {a b c : Option Int}
    (hpos : 0 < c.getD 1) : ∃ s, extract2D n (.slice a b c) = .ok s := extract2D_forward_ok hn hpos

/-- `a[i, j] = x`, ints of any sign: exactly `nested[j][i] = x`; no other cell changes.
    `Injective`: distinct `(i,j)` are distinct cells — true for every array made from Python (`alloc2D_Injective`) -/
theorem array2d_setitem_int_refines {h : Heap} {v : View2D} (w : v.WF (shape h)) (hinj : v.Injective) {i j : Int}
    {ci cj : Nat} (hi : canonicalIndex v.lenX i = .ok ci) (hj : canonicalIndex v.lenY j = .ok cj) (x : Int) :
    ∃ h', setitemScalar2D h v (.int i) (.int j) x = .ok h' ∧ shape h' = shape h ∧ Frame v.buf h h' ∧
      v.toNested h' = (v.toNested h).set cj (((v.toNested h).getD cj []).set ci x) :=
  setitemScalar2D_int_refines w hinj hi hj x

example : (alloc2D [] 3 2 [1, 2, 3, 4, 5, 6]).2.Injective := alloc2D_Injective _ _ _ _

/-! ### FixedArray2D slice / mask WRITES refine nested-list assignment
`sx.positions` / `sy.positions` are the indices the subscripts select (`array2d_positions_are_the_slice`: for slice objects
exactly `PyList.sliceIndices`); `PyList.assign2D L ys xs val` is `for b, j in enumerate(ys): for a, i in enumerate(xs):
L[j][i] = val b a`.  Right-hand sides and masks live in other allocations (as for the 1-D theorems). -/

/-- the positions of an accepted slice subscript are the language reference's -/
theorem array2d_positions_are_the_slice {n : Nat} (hn : (n : Int) ≤ PY_SSIZE_T_MAX) {a b c : Option Int}
    (hc : ∀ v, c = some v → -PY_SSIZE_T_MAX ≤ v) {s : SliceIdx} (h : extract2D n (.slice a b c) = .ok s) :
    PyList.sliceIndices n a b c = some s.positions := extract_slice_spec hn hc h

/-- `a[sx, sy] = x` -/
theorem array2d_setitem_scalar_refines {h : Heap} {v : View2D} (w : v.WF (shape h)) (hinj : v.Injective) {ix iy : PyIdx}
    {sx sy : SliceIdx} (hsx : extract2D v.lenX ix = .ok sx) (hsy : extract2D v.lenY iy = .ok sy) (x : Int) :
    ∃ h', setitemScalar2D h v ix iy x = .ok h' ∧ shape h' = shape h ∧ Frame v.buf h h' ∧
      v.toNested h' = PyList.assign2D (v.toNested h) sy.positions sx.positions (fun _ _ => x) :=
  setitemScalar2D_refines w hinj hsx hsy x

/-- `a[sx, sy] = b` (2-D right-hand side of the selected shape): `nested[ys[b]][xs[a]] = rhs[b][a]` -/
theorem array2d_setitem_vector_refines {h : Heap} {v data : View2D} (w : v.WF (shape h)) (hinj : v.Injective)
    (wd : data.WF (shape h)) (hne : data.buf ≠ v.buf) {ix iy : PyIdx} {sx sy : SliceIdx}
    (hsx : extract2D v.lenX ix = .ok sx) (hsy : extract2D v.lenY iy = .ok sy)
    (hdx : data.lenX = sx.slicelength) (hdy : data.lenY = sy.slicelength) :
    ∃ h', setitemVector2D h v ix iy data = .ok h' ∧ shape h' = shape h ∧ Frame v.buf h h' ∧
      v.toNested h' = PyList.assign2DInnerFirst (v.toNested h) sy.positions sx.positions
        (fun b a => ((data.toNested h).getD b []).getD a 0) :=
  setitemVector2D_refines w hinj wd hne hsx hsy hdx hdy

/-- `a[sx, sy] = d` (1-D right-hand side; each axis keeps its own step): `nested[ys[b]][xs[a]] = d[b*len(xs) + a]` -/
theorem array2d_setitem_array1d_refines {h : Heap} {v : View2D} {data : View} (w : v.WF (shape h)) (hinj : v.Injective)
    (wd : data.WF (shape h)) (hne : data.buf ≠ v.buf) {ix iy : PyIdx} {sx sy : SliceIdx}
    (hsx : extract2D v.lenX ix = .ok sx) (hsy : extract2D v.lenY iy = .ok sy)
    (hdl : data.length = sx.slicelength * sy.slicelength) :
    ∃ h', setitemArray1D h v ix iy data = .ok h' ∧ shape h' = shape h ∧ Frame v.buf h h' ∧
      v.toNested h' = PyList.assign2D (v.toNested h) sy.positions sx.positions
        (fun b a => (data.toList h).getD (b * sx.slicelength + a) 0) :=
  setitemArray1D_refines w hinj wd hne hsx hsy hdl

/-- `a[mask] = x` -/
theorem array2d_setitem_scalar_mask_refines {h : Heap} {v mask : View2D} (w : v.WF (shape h)) (hinj : v.Injective)
    (wm : mask.WF (shape h)) (hnm : mask.buf ≠ v.buf) (hmx : mask.lenX = v.lenX) (hmy : mask.lenY = v.lenY) (x : Int) :
    ∃ h', setitemScalarMask2D h v mask x = .ok h' ∧ shape h' = shape h ∧ Frame v.buf h h' ∧
      v.toNested h' = PyList.assignMask2D (v.toNested h) (mask.toNested h) v.lenY v.lenX (fun _ _ => x) :=
  setitemScalarMask2D_refines w hinj wm hnm hmx hmy x

/-- `a[mask] = b` (2-D right-hand side of the array's shape) -/
theorem array2d_setitem_vector_mask_refines {h : Heap} {v mask data : View2D} (w : v.WF (shape h)) (hinj : v.Injective)
    (wm : mask.WF (shape h)) (wd : data.WF (shape h)) (hnm : mask.buf ≠ v.buf) (hnd : data.buf ≠ v.buf)
    (hmx : mask.lenX = v.lenX) (hmy : mask.lenY = v.lenY) (hdx : data.lenX = v.lenX) (hdy : data.lenY = v.lenY) :
    ∃ h', setitemVectorMask2D h v mask data = .ok h' ∧ shape h' = shape h ∧ Frame v.buf h h' ∧
      v.toNested h' = PyList.assignMask2D (v.toNested h) (mask.toNested h) v.lenY v.lenX
        (fun j i => ((data.toNested h).getD j []).getD i 0) :=
  setitemVectorMask2D_refines w hinj wm wd hnm hnd hmx hmy hdx hdy

/-- `a[mask] = d` (1-D right-hand side of `lenX*lenY` elements; the packed branch, `len(d) == count(mask)`, is tied by
    correspondence only) -/
theorem array2d_setitem_array1d_mask_refines {h : Heap} {v mask : View2D} {data : View} (w : v.WF (shape h))
    (hinj : v.Injective) (wm : mask.WF (shape h)) (wd : data.WF (shape h)) (hnm : mask.buf ≠ v.buf)
    (hnd : data.buf ≠ v.buf) (hmx : mask.lenX = v.lenX) (hmy : mask.lenY = v.lenY) (hdl : data.length = v.lenX * v.lenY) :
    ∃ h', setitemArray1DMask h v mask data = .ok h' ∧ shape h' = shape h ∧ Frame v.buf h h' ∧
      v.toNested h' = PyList.assignMask2D (v.toNested h) (mask.toNested h) v.lenY v.lenX
        (fun j i => (data.toList h).getD (j * v.lenX + i) 0) :=
  setitemArray1DMask_full_refines w hinj wm wd hnm hnd hmx hmy hdl

/-- non-vacuity + a worked instance: on the 3x2 array `[[1,2,3],[4,5,6]]`, `a[0:3:2, 1] = 9` gives `[[1,2,3],[9,5,9]]` -/
example : (match setitemScalar2D (alloc2D [] 3 2 [1, 2, 3, 4, 5, 6]).1 (alloc2D [] 3 2 [1, 2, 3, 4, 5, 6]).2
      (.slice (some 0) (some 3) (some 2)) (.int 1) 9 with
    | .ok h' => (alloc2D [] 3 2 [1, 2, 3, 4, 5, 6]).2.toNested h'
    | .error _ => []) = [[1, 2, 3], [9, 5, 9]] ∧
    PyList.assign2D [[1, 2, 3], [4, 5, 6]] [1] [0, 2] (fun _ _ => (9 : Int)) = [[1, 2, 3], [9, 5, 9]] := by decide

/-! ### FixedMatrix row / slice writes  (`RowSel m ms n rowOf`: the subscript selects rows `rowOf 0 … rowOf (n-1)`) -/

/-- an int subscript of any sign selects one row; a slice (any signs) selects exactly the rows of the language reference -/
theorem matrix_rows_int {m : MatView} {i : Int} {k : Nat} (hk : canonicalIndex m.rows i = .ok k) :
    ∃ ms, extractMat m.rows (.int i) = .ok ms ∧ RowSel m ms 1 (fun _ => k) := rowSel_int hk

theorem matrix_rows_slice {m : MatView} (hn : (m.rows : Int) ≤ PY_SSIZE_T_MAX) {a b c : Option Int}
    (hc : ∀ v, c = some v → -PY_SSIZE_T_MAX ≤ v) {ms : MatSlice} (hm : extractMat m.rows (.slice a b c) = .ok ms) :
    ∃ s : SliceIdx, RowSel m ms s.slicelength s.at ∧ PyList.sliceIndices m.rows a b c = some s.positions := by
  obtain ⟨s, hs, hsel⟩ := rowSel_slice hn hc hm
  exact ⟨s, hsel, extract_slice_spec hn hc hs⟩

/-- `m[idx] = x` -/
theorem matrix_setitem_scalar_refines {h : Heap} {m : MatView} (w : m.WF (shape h)) (hinj : m.Injective) {idx : PyIdx}
    {ms : MatSlice} (hm : extractMat m.rows idx = .ok ms) {n : Nat} {rowOf : Nat → Nat} (hsel : RowSel m ms n rowOf)
    (x : Int) :
    ∃ h', setitemScalarMat h m idx x = .ok h' ∧ shape h' = shape h ∧ Frame m.buf h h' ∧
      m.toNested h' = PyList.assign2D (m.toNested h) ((List.range n).map rowOf) (List.range m.cols) (fun _ _ => x) :=
  setitemScalarMat_refines w hinj hm hsel x

/-- `m[idx] = row` (1-D right-hand side of `cols` elements) -/
theorem matrix_setitem_vector_refines {h : Heap} {m : MatView} {data : View} (w : m.WF (shape h)) (hinj : m.Injective)
    (wd : data.WF (shape h)) (hne : data.buf ≠ m.buf) {idx : PyIdx} {ms : MatSlice}
    (hm : extractMat m.rows idx = .ok ms) {n : Nat} {rowOf : Nat → Nat} (hsel : RowSel m ms n rowOf)
    (hdl : data.length = m.cols) :
    ∃ h', setitemVectorMat h m idx data = .ok h' ∧ shape h' = shape h ∧ Frame m.buf h h' ∧
      m.toNested h' = PyList.assign2D (m.toNested h) ((List.range n).map rowOf) (List.range m.cols)
        (fun _ j => (data.toList h).getD j 0) := setitemVectorMat_refines w hinj wd hne hm hsel hdl

/-- `m[idx] = other` (matrix right-hand side) -/
theorem matrix_setitem_matrix_refines {h : Heap} {m data : MatView} (w : m.WF (shape h)) (hinj : m.Injective)
    (wd : data.WF (shape h)) (hne : data.buf ≠ m.buf) {idx : PyIdx} {ms : MatSlice}
    (hm : extractMat m.rows idx = .ok ms) {n : Nat} {rowOf : Nat → Nat} (hsel : RowSel m ms n rowOf)
    (hdr : data.rows = n) (hdc : data.cols = m.cols) :
    ∃ h', setitemMatrixMat h m idx data = .ok h' ∧ shape h' = shape h ∧ Frame m.buf h h' ∧
      m.toNested h' = PyList.assign2D (m.toNested h) ((List.range n).map rowOf) (List.range m.cols)
        (fun b j => ((data.toNested h).getD b []).getD j 0) := setitemMatrixMat_refines w hinj wd hne hm hsel hdr hdc

/-- non-vacuity: the 3x2 matrix is injective; `m[::-2] = 7` on it sets rows 2 and 0 -/
example : (allocMat [] 3 2 [1, 2, 3, 4, 5, 6]).2.Injective ∧
    (match setitemScalarMat (allocMat [] 3 2 [1, 2, 3, 4, 5, 6]).1 (allocMat [] 3 2 [1, 2, 3, 4, 5, 6]).2
        (.slice none none (some (-2))) 7 with
      | .ok h' => (allocMat [] 3 2 [1, 2, 3, 4, 5, 6]).2.toNested h'
      | .error _ => []) = [[7, 7], [3, 4], [7, 7]] :=
  ⟨allocMat_Injective _ _ _ _, by decide⟩

/-- `m[i]`: a writable view on row `i` (same allocation), reading `nested[i]`; `IndexError` as for a list -/
theorem matrix_row_refines {h : Heap} {m : MatView} (w : m.WF (shape h)) (i : Int) :
    (match PyList.getitem (m.toNested h) i with
      | some rowList => ∃ row, matRow m i = .ok row ∧ row.toList h = rowList ∧ row.WF (shape h) ∧
          row.buf = m.buf ∧ row.writable = true
      | none => matRow m i = .error .indexError) := matRow_refines w i

/-- non-vacuity: the 3x2 array allocated by `d2 alloc 3 2 ...` is well formed -/
example : (alloc2D [] 3 2 [1, 2, 3, 4, 5, 6]).2.WF (shape (alloc2D [] 3 2 [1, 2, 3, 4, 5, 6]).1) := by
  refine ⟨by decide, by decide, 6, by decide, ?_⟩
  intro i j hi hj
  simp only [alloc2D, View2D.pos] at hi hj ⊢
  have : i < 3 := hi
  have : j < 2 := hj
  omega

/-! ## FixedVArray against nested lists  (`Model/FixedVArray.lean`; tied to VIntArray / VFloatArray / VV2iArray / VV2fArray) -/
section VArray
open ImathVerif.FixedVArray

/-- `va[i]`, ints of any sign: the row `nested[i]`; `IndexError` in exactly the same cases -/
theorem varray_getitem_refines {h : VHeap} {v : VView} (w : v.WF (vshape h)) (i : Int) :
    getRow h v i = (match PyList.getitem (v.toNested h) i with
      | some r => .ok r
      | none => .error .indexError) := getRow_refines w i

/-- `va.size[i]` (the overload meant for an int key): `len(nested[i])` -/
theorem varray_size_refines {h : VHeap} {v : VView} (w : v.WF (vshape h)) (i : Int) :
    sizeGet h v i = (match PyList.getitem (v.toNested h) i with
      | some r => .ok r.length
      | none => .error .indexError) := sizeGet_refines w i

/-- `va[start:stop:step]`, whenever accepted: a fresh variable array equal to `nested[start:stop:step]` -/
theorem varray_getslice_refines {h : VHeap} {v : VView} (w : v.WF (vshape h)) {a b c : Option Int}
    (hc : ∀ x, c = some x → -PY_SSIZE_T_MAX ≤ x) {h' : VHeap} {f : VView}
    (hr : getsliceV h v (.slice a b c) = .ok (h', f)) :
    PyList.getslice (v.toNested h) a b c = some (f.toNested h') ∧ f.WF (vshape h') ∧ f.writable = true ∧
      f.indices = none ∧ f.buf = h.length ∧ (∃ rows, h' = h ++ [rows]) := getsliceV_refines w hc hr

/-- every FORWARD slice is accepted by FixedVArray's own `extract_slice_indices` (which still tests `s < 0`) -/
theorem varray_forward_slices_accepted {n : Nat} (hn : (n : Int) ≤ PY_SSIZE_T_MAX) {a b c : Option Int}
    (hpos : 0 < c.getD 1) : ∃ s, extractV n (.slice a b c) = .ok s := extract_slice_forward_ok hn hpos

/-- `va[mask]`: a reference (same allocation, same writability) to exactly the selected rows -/
theorem varray_getmask_refines {h : VHeap} {v : VView} (w : v.WF (vshape h)) (hun : v.indices = none) (bits : List Int)
    (hlen : v.length = bits.length) :
    ∃ m, getmaskV v bits = .ok m ∧ m.toNested h = PyList.select (v.toNested h) bits ∧ m.WF (vshape h) ∧
      m.buf = v.buf ∧ m.writable = v.writable := getmaskV_refines w hun bits hlen

/-- every write (rows, elements through a row reference, sizes) through a read-only variable array raises and leaves
    all rows as they were; masked references and handle copies inherit `_writable` (`varray_getmask_refines`) -/
theorem varray_readonly_raises (h : VHeap) (v d : VView) (idx : PyIdx) (bits data sizes : List Int) (k : Nat)
    (hw : v.writable = false) :
    setRow h v idx data = (h, some .readOnly) ∧ setRowMask h v bits data = (h, some .readOnly) ∧
    setVec h v idx d = (h, some .readOnly) ∧ setVecMask h v bits d = (h, some .readOnly) ∧
    setSize h v idx k = (h, some .readOnly) ∧ setSizeMask h v bits k = (h, some .readOnly) ∧
    setSizeVec h v idx sizes = (h, some .readOnly) ∧ setSizeVecMask h v bits sizes = (h, some .readOnly) ∧
    (∀ i j x r, getRow h v i = .ok r → setElem h v i j x = .error .readOnly) :=
  varray_readonly h v d idx bits data sizes k hw

/-! ### FixedVArray WRITES refine nested-list updates (success path; a row-length mismatch raises in the middle of the
loop and leaves the rows before it assigned — modelled, outside the nested-list specification) -/

/-- `va[i][j] = x` -/
theorem varray_setelem_refines {h : VHeap} {v : VView} (w : v.WF (vshape h)) (hw : v.writable = true) {i j : Int}
    {ci cj : Nat} (hi : canonicalIndex v.length i = .ok ci)
    (hj : canonicalIndex ((v.toNested h).getD ci []).length j = .ok cj) (x : Int) :
    ∃ h', setElem h v i j x = .ok h' ∧ vshape h' = vshape h ∧
      v.toNested h' = (v.toNested h).set ci (((v.toNested h).getD ci []).set cj x) := setElem_refines w hw hi hj x

/-- `va[idx] = row` (int or slice; dense or masked `va`) -/
theorem varray_setrow_refines {h : VHeap} {v : VView} (w : v.WF (vshape h)) (hw : v.writable = true) {idx : PyIdx}
    {s : SliceIdx} (hs : extractV v.length idx = .ok s) (data : List Int)
    (hlen : ∀ a, a < s.slicelength → ((v.toNested h).getD (s.at a) []).length = data.length) :
    ∃ h', setRow h v idx data = (h', none) ∧ vshape h' = vshape h ∧
      v.toNested h' = PyList.setEach (v.toNested h) s.positions data := setRow_refines w hw hs data hlen

/-- `va[mask] = row` -/
theorem varray_setrow_mask_refines {h : VHeap} {v : VView} (w : v.WF (vshape h)) (hw : v.writable = true)
    (hun : v.indices = none) (bits : List Int) (hbl : bits.length = v.length) (data : List Int)
    (hlen : ∀ i ∈ PyList.maskPositions bits, ((v.toNested h).getD i []).length = data.length) :
    ∃ h', setRowMask h v bits data = (h', none) ∧ vshape h' = vshape h ∧
      v.toNested h' = PyList.setEach (v.toNested h) (PyList.maskPositions bits) data :=
  setRowMask_refines w hw hun bits hbl data hlen

/-- `va[idx] = vb` -/
theorem varray_setvec_refines {h : VHeap} {v d : VView} (w : v.WF (vshape h)) (wd : d.WF (vshape h))
    (hw : v.writable = true) (hne : d.buf ≠ v.buf) {idx : PyIdx} {s : SliceIdx} (hs : extractV v.length idx = .ok s)
    (hdl : d.length = s.slicelength) :
    ∃ h', setVec h v idx d = (h', none) ∧ vshape h' = vshape h ∧
      v.toNested h' = PyList.setZip (v.toNested h) s.positions (d.toNested h) := setVec_refines w wd hw hne hs hdl

/-- `va[mask] = vb`, `len(vb) == len(va)` (the packed branch is tied by correspondence only) -/
theorem varray_setvec_mask_refines {h : VHeap} {v d : VView} (w : v.WF (vshape h)) (wd : d.WF (vshape h))
    (hw : v.writable = true) (hun : v.indices = none) (hne : d.buf ≠ v.buf) (bits : List Int)
    (hbl : bits.length = v.length) (hdl : d.length = v.length) :
    ∃ h', setVecMask h v bits d = (h', none) ∧ vshape h' = vshape h ∧
      v.toNested h' = PyList.setMaskSame (v.toNested h) bits (d.toNested h) :=
  setVecMask_same_refines w wd hw hun hne bits hbl hdl

/-- `va.size[idx] = k`: the selected rows are truncated / zero-extended to `k` elements -/
theorem varray_setsize_refines {h : VHeap} {v : VView} (w : v.WF (vshape h)) (hw : v.writable = true) {idx : PyIdx}
    {s : SliceIdx} (hs : extractV v.length idx = .ok s) (k : Nat) :
    ∃ h', setSize h v idx k = (h', none) ∧ vshape h' = vshape h ∧
      v.toNested h' = PyList.modifyEach (v.toNested h) s.positions (fun r => PyList.resize r k) := setSize_refines w hw hs k

/-- `va.size[idx] = sizes` -/
theorem varray_setsize_vec_refines {h : VHeap} {v : VView} (w : v.WF (vshape h)) (hw : v.writable = true) {idx : PyIdx}
    {s : SliceIdx} (hs : extractV v.length idx = .ok s) (sizes : List Int) (hsl : sizes.length = s.slicelength) :
    ∃ h', setSizeVec h v idx sizes = (h', none) ∧ vshape h' = vshape h ∧
      v.toNested h' = PyList.modifyZip (v.toNested h) s.positions sizes (fun k r => PyList.resize r k.toNat) :=
  setSizeVec_refines w hw hs sizes hsl

/-- `va.size[mask] = k` -/
theorem varray_setsize_mask_refines {h : VHeap} {v : VView} (w : v.WF (vshape h)) (hw : v.writable = true)
    (hun : v.indices = none) (bits : List Int) (hbl : bits.length = v.length) (k : Nat) :
    ∃ h', setSizeMask h v bits k = (h', none) ∧ vshape h' = vshape h ∧
      v.toNested h' = PyList.modifyEach (v.toNested h) (PyList.maskPositions bits) (fun r => PyList.resize r k) :=
  setSizeMask_refines w hw hun bits hbl k

/-- a worked instance: on `[[1],[],[2,3]]`, `va.size[::2] = 2` gives `[[1,0],[],[2,3]]`, then `va[1:] = ...` -/
example : (setSize (allocV [] [[1], [], [2, 3]]).1 (allocV [] [[1], [], [2, 3]]).2 (.slice none none (some 2)) 2).2 = none ∧
    ((allocV [] [[1], [], [2, 3]]).2.toNested
      (setSize (allocV [] [[1], [], [2, 3]]).1 (allocV [] [[1], [], [2, 3]]).2 (.slice none none (some 2)) 2).1)
      = [[1, 0], [], [2, 3]] ∧
    PyList.modifyEach [[1], [], [2, 3]] [0, 2] (fun r => PyList.resize r 2) = [[1, 0], [], [2, 3]] := by decide

/-- non-vacuity: `VIntArray` with rows `[[1],[],[2,3]]` is well formed and reads back as that nested list -/
example : (allocV [] [[1], [], [2, 3]]).2.WF (vshape (allocV [] [[1], [], [2, 3]]).1) ∧
    (allocV [] [[1], [], [2, 3]]).2.toNested (allocV [] [[1], [], [2, 3]]).1 = [[1], [], [2, 3]] :=
  allocV_WF [] _ (by decide)

end VArray

/-! ## StringTable / StringArray -/
open ImathVerif.StringTable in
/-- **bijection between indices and strings**, preserved by `intern` (any interning order) -/
theorem string_table_bijection {t : Table} (h : Inv t) (i : Nat) (s : String) :
    lookupIdx t i = some s ↔ lookupStr t s = some i := lookup_bijection h i s

open ImathVerif.StringTable in
theorem string_table_intern {t : Table} (h : Inv t) (hsz : t.length ≤ indexMax) (s : String) :
    ∃ t' i, intern t s = some (t', i) ∧ InternPost t s t' i := intern_post h hsz s

open ImathVerif.StringTable in
theorem string_table_empty_inv : Inv [] := ⟨fun k hk => by simp at hk, by simp⟩

open ImathVerif.StringTable in
/-- **a string array element reads back the last string stored there**, for ANY sequence of element
    assignments (any interning order, any repetitions): the array keeps representing the plain list. -/
theorem string_array_reads_last_stored :
    ∀ (ops : List (Nat × String)) (a : ArrState) (strs : List String), Repr a strs →
      a.table.length + ops.length ≤ indexMax → (∀ op ∈ ops, op.1 < strs.length) →
      ∃ a', setMany a ops = some a' ∧ Repr a' (ops.foldl (fun l p => l.set p.1 p.2) strs) := by
  intro ops
  induction ops with
  | nil => intro a strs r _ _; exact ⟨a, rfl, r⟩
  | cons op ops ih =>
    intro a strs r hsz hin
    obtain ⟨a1, h1, r1, hg⟩ := setitemString_repr r (by simp at hsz; omega) (hin op (by simp)) op.2
    obtain ⟨a2, h2, r2⟩ := ih a1 (strs.set op.1 op.2) r1 (by simp at hsz ⊢; omega)
      (fun o ho => by simpa using hin o (by simp [ho]))
    exact ⟨a2, by simp [setMany, h1, h2], by simpa using r2⟩

open ImathVerif.StringTable in
/-- non-vacuity: a freshly constructed `StringArray(s, n)` represents `[s]*n` -/
theorem string_array_create_repr (s : String) (n : Nat) :
    ∃ a, createUniform s n = some a ∧ Repr a (List.replicate n s) := by
  refine ⟨⟨[⟨0, s⟩], List.replicate n 0⟩, by simp [createUniform, intern, findStr, StringTable.insert, findIdx, indexMax], ?_⟩
  refine ⟨⟨fun k hk => by simp at hk; subst hk; rfl, by simp⟩, by simp, ?_⟩
  intro i hi
  simp at hi
  simp [getitemString, hi, lookupIdx, findIdx]

open ImathVerif.StringTable in
/-- **`a[pos] = b` between two string arrays** (`setitem_string_vector`, and with `pos` = the mask positions
    `setitem_string_vector_mask`): each string is looked up in `b`'s table and re-interned in `a`'s, so `a` ends up
    representing `la` with `la[pos[i]] = lb[i]` — whatever the two tables' interning orders -/
theorem string_vector_assign_repr {a b : ArrState} {la lb : List String} (ra : Repr a la) (rb : Repr b lb)
    (pos : List Nat) (hsz : a.table.length + pos.length ≤ indexMax) (hpos : ∀ p ∈ pos, p < la.length)
    (hlen : pos.length = lb.length) :
    ∃ a', setVecString a b pos = some a' ∧ Repr a' (PyList.setZip la pos lb) := setVecString_repr ra rb pos hsz hpos hlen

open ImathVerif.StringTable in
/-- the theorem discriminates: with `a = ["x"]`, `b = ["y"]` (both strings have index 0 in their OWN table) the model
    reads back "y", while the slip `(*this)[i] = data[i]` (copying `b`'s index into `a`) would read back "x" -/
example :
    ((setVecString ⟨[⟨0, "x"⟩], [0]⟩ ⟨[⟨0, "y"⟩], [0]⟩ [0]).bind (fun a' => getitemString a' 0)) = some "y" ∧
    getitemString ⟨[⟨0, "x"⟩], ([0] : List Nat).set 0 0⟩ 0 = some "x" := by decide

open ImathVerif.StringTable in
/-- **`a == b`** of two string arrays (each element looked up in its own table) is the element-wise comparison of the
    lists they represent; `!=` is its negation in the driver -/
theorem string_eq_arrays_refines {a b : ArrState} {la lb : List String} (ra : Repr a la) (rb : Repr b lb)
    (hlen : la.length = lb.length) : eqArrays a b = some (List.zipWith (· == ·) la lb) := eqArrays_repr ra rb hlen

open ImathVerif.StringTable in
/-- **`a == s`** (`hasString`, then a comparison of table INDICES) is `[x == s for x in list]`: sound and complete because
    index ↔ string is a bijection -/
theorem string_eq_scalar_refines {a : ArrState} {la : List String} (ra : Repr a la) (s : String) :
    eqString a s = la.map (· == s) := eqString_repr ra s

open ImathVerif.StringTable in
/-- a worked instance through two tables with different interning orders: `["x","y"] == ["y","y"]` -/
example : eqArrays ⟨[⟨0, "x"⟩, ⟨1, "y"⟩], [0, 1]⟩ ⟨[⟨0, "y"⟩], [0, 0]⟩ = some [false, true] ∧
    eqString ⟨[⟨0, "x"⟩, ⟨1, "y"⟩], [0, 1]⟩ "y" = [false, true] := by decide

/-! ## Buffer protocol -/
open ImathVerif.BufferProtocol

/-- **`len = product(shape) x itemsize`**, for every element type, length and stride (current `numBytes`) -/
theorem buffer_len_is_shape_times_itemsize (t : ElemTy) (length stride : Nat) :
    (getbuffer BufCfg.repaired t length stride).consistent := by
  simp [PyBuffer.consistent, getbuffer, numBytes, BufCfg.repaired]

/-- **exported contents** (any element type, dense or strided array): a consumer of the view `getbuffer` fills in reads, in
    C order, the `itemsize`-byte items at `off + Σ index_d · stride_d` of the array's storage — the model function the
    check compares with `memoryview(a).tobytes()` of the real module -/
theorem buffer_export_contents (cfg : BufCfg) (t : ElemTy) (n stride : Nat) (mem : List Nat) (off : Nat)
    (hin : ∀ o ∈ natOffsets (apiShape t n stride) (apiStrides t stride), off + o + t.atomicSize ≤ mem.length) :
    exportBytes cfg t n stride mem off
      = some ((natOffsets (apiShape t n stride) (apiStrides t stride)).flatMap
          (fun o => (mem.drop (off + o)).take t.atomicSize)) := export_contents cfg t n stride mem off hin

/-- the item offsets of a 1-D export (scalar arrays; `stride > 1` = a component array such as `V3fArray.y`): element `i`
    at `i · atomicSize · width · stride` -/
theorem buffer_export_1d_offsets (t : ElemTy) (hd : t.dims = 1) (n stride : Nat) :
    natOffsets (apiShape t n stride) (apiStrides t stride)
      = (List.range n).map (fun i => i * (t.atomicSize * t.width * stride)) := natOffsets_1d t hd n stride

/-- the item offsets of a 2-D export (vector arrays): component `j` of element `i` at `i·atomicSize·width·stride + j·atomicSize` -/
theorem buffer_export_2d_offsets (t : ElemTy) (hd : t.dims = 2) (n stride : Nat) :
    natOffsets (apiShape t n stride) (apiStrides t stride)
      = (List.range n).flatMap (fun i => (List.range (t.width * stride)).map
          (fun j => i * (t.atomicSize * t.width * stride) + j * t.atomicSize)) := natOffsets_2d t hd n stride

/-- a worked instance: the `.y` component array (offset 1 byte, stride 3) of a 2-element array of 3 one-byte components -/
example : exportBytes BufCfg.repaired ⟨1, 1, 1, 1, 'B'⟩ 2 3 [10, 11, 12, 20, 21, 22] 1 = some [11, 21] := by decide

/-- **`...ArrayFromBuffer` copies exactly the source's items** — for BOTH acceptable forms of the copy (item by item
    honouring the strides, or `memcpy` after refusing non-contiguous views): an accepted source has the array's
    element kind and size, and the new array holds exactly the source's logical items (`bytes(memoryview(src))`),
    whatever its strides; the number of bytes is that of the allocation.
    `Src.Consistent` = the PEP-3118 invariants of any exporter (`len = Π shape × itemsize`, one stride per dimension). -/
theorem from_buffer_exact (cfg : BufCfg) (hck : cfg.fromBufferChecks = true) (hcp : cfg.copy ≠ .memcpy)
    (t : ElemTy) (src : Src) (hs : src.Consistent) (bytes : List Nat)
    (h : fromBuffer cfg t src = .ok bytes) :
    src.logicalBytes = some bytes ∧ fmtKind (fmtChar src.format) = fmtKind t.format ∧
      src.itemsize = t.atomicSize ∧ bytes.length = src.shape0 * t.sizeofT := by
  unfold fromBuffer at h
  by_cases hb : badPrefix src.format = true
  · simp [hb] at h
  · have hbf : badPrefix src.format = false := by simpa using hb
    simp only [hbf, Bool.false_eq_true, if_false, hck, true_and] at h
    split at h
    · simp at h
    · rename_i hchk
      have hchk' : ¬ src.shape = [] ∧ src.itemsize = t.atomicSize ∧
          fmtKind (fmtChar src.format) = fmtKind t.format ∧ src.len = src.shape0 * t.sizeofT := by
        refine ⟨fun hh => hchk (Or.inl hh), ?_, ?_, ?_⟩
        · exact Classical.byContradiction (fun hh => hchk (Or.inr (Or.inl hh)))
        · exact Classical.byContradiction (fun hh => hchk (Or.inr (Or.inr (Or.inl hh))))
        · exact Classical.byContradiction (fun hh => hchk (Or.inr (Or.inr (Or.inr hh))))
      obtain ⟨_, hi, hk, hl⟩ := hchk'
      split at h
      · simp at h
      · rename_i hnc
        split at h
        · simp at h
        · split at h
          · simp at h
          · rename_i got hgot
            simp only [Except.ok.injEq] at h
            have hlog : src.logicalBytes = some got := by
              cases hm : cfg.copy with
              | memcpy => exact absurd hm hcp
              | logical => simpa [hm] using hgot
              | requireContiguous =>
                have hcont : src.isCContiguous = true := by
                  cases hcc : src.isCContiguous with
                  | true => rfl
                  | false => exact absurd ⟨hm, hcc⟩ hnc
                have hflat : src.flatBytes = some got := by simpa [hm] using hgot
                exact contiguous_flat_eq_logical hs hcont hflat
            have hlen := logicalBytes_length hs hlog
            have hpad : src.shape0 * t.sizeofT - got.length = 0 := by omega
            rw [hpad] at h
            simp only [List.replicate_zero, List.append_nil] at h
            subst h
            exact ⟨hlog, hk, hi, by omega⟩

/-- the two repairs as instances -/
theorem from_buffer_exact_repaired (t : ElemTy) (src : Src) (hs : src.Consistent) (bytes : List Nat) :
    (fromBuffer BufCfg.repaired t src = .ok bytes → src.logicalBytes = some bytes) ∧
    (fromBuffer BufCfg.repairedStrict t src = .ok bytes → src.logicalBytes = some bytes) :=
  ⟨fun h => (from_buffer_exact BufCfg.repaired rfl (by decide) t src hs bytes h).1,
   fun h => (from_buffer_exact BufCfg.repairedStrict rfl (by decide) t src hs bytes h).1⟩

/-- with the size checks in place the copy can never write past the new allocation, whatever the copy mode -/
theorem from_buffer_never_overruns (cfg : BufCfg) (hck : cfg.fromBufferChecks = true) (t : ElemTy) (src : Src) :
    fromBuffer cfg t src ≠ .error .oob := by
  unfold fromBuffer
  by_cases hb : badPrefix src.format = true
  · simp [hb]
  · have hbf : badPrefix src.format = false := by simpa using hb
    simp only [hbf, Bool.false_eq_true, if_false, hck, true_and]
    split
    · simp
    · rename_i hchk
      have hl : src.len = src.shape0 * t.sizeofT :=
        Classical.byContradiction (fun hh => hchk (Or.inr (Or.inr (Or.inr hh))))
      split
      · simp
      · split
        · omega
        · split <;> simp

/-- the item-by-item copy reads nothing but the source's items: it cannot leave the exporter's block when they lie in it -/
theorem from_buffer_reads_inside (cfg : BufCfg) (hcp : cfg.copy = .logical) (t : ElemTy) (src : Src)
    (hin : src.logicalBytes.isSome = true) : fromBuffer cfg t src ≠ .error .oobRead := by
  obtain ⟨b, hb⟩ := Option.isSome_iff_exists.1 hin
  unfold fromBuffer
  simp only [hcp, if_true, hb]
  split
  · simp
  · split
    · simp
    · split
      · simp
      · split <;> simp

/-- a C-contiguous consistent view: the flat `memcpy` image is the logical item list (why the defect below is
    invisible to contiguous sources such as `array.array`) -/
theorem from_buffer_contiguous_memcpy_exact {s : Src} (hs : s.Consistent) (hc : s.isCContiguous = true)
    {b : List Nat} (hf : s.flatBytes = some b) : s.logicalBytes = some b := contiguous_flat_eq_logical hs hc hf

/-! ### `...ArrayFromBuffer` as it is now: strided sources are `memcpy`'d as if contiguous  (`BufCfg.checked`) -/

/-- little-endian 32-bit image of small naturals -/
def le32 (l : List Nat) : List Nat := l.flatMap (fun x => [x, 0, 0, 0])

def intTy : ElemTy := ⟨4, 1, 1, 4, 'i'⟩

/-- `memoryview(array('i', [1..6]))[::2]`: 3 items, stride 8 bytes -/
def srcEveryOther : Src := ⟨['i'], 4, [3], [8], le32 [1, 2, 3, 4, 5, 6], 0, 12⟩
/-- `memoryview(array('i', [1..6]))[::-1]`: 6 items, stride -4, `buf` at the LAST item -/
def srcReversed : Src := ⟨['i'], 4, [6], [-4], le32 [1, 2, 3, 4, 5, 6], 20, 24⟩

example : srcEveryOther.Consistent ∧ srcReversed.Consistent :=
  ⟨⟨rfl, by decide, by decide⟩, ⟨rfl, by decide, by decide⟩⟩

/-- **`IntArrayFromBuffer(memoryview(array('i',[1..6]))[::2])`**: the source's items are 1,3,5; the flat `memcpy` yields
    1,2,3; the item-wise copy yields 1,3,5; the strict variant refuses the view -/
theorem from_buffer_memcpy_wrong_elements :
    srcEveryOther.logicalBytes = some (le32 [1, 3, 5]) ∧
    fromBuffer BufCfg.checked intTy srcEveryOther = .ok (le32 [1, 2, 3]) ∧
    fromBuffer BufCfg.repaired intTy srcEveryOther = .ok (le32 [1, 3, 5]) ∧
    fromBuffer BufCfg.repairedStrict intTy srcEveryOther = .error .notContiguous := by decide

/-- **`IntArrayFromBuffer(memoryview(array('i',[1..6]))[::-1])`**: `memcpy` of 24 bytes starting at the last item reads
    20 bytes past the source's block; the item-wise copy yields 6,5,4,3,2,1 -/
theorem from_buffer_memcpy_reversed_reads_out_of_bounds :
    fromBuffer BufCfg.checked intTy srcReversed = .error .oobRead ∧
    fromBuffer BufCfg.repaired intTy srcReversed = .ok (le32 [6, 5, 4, 3, 2, 1]) ∧
    fromBuffer BufCfg.repairedStrict intTy srcReversed = .error .notContiguous := by decide

/-- hence the exact-copy statement is FALSE for the flat `memcpy` (the code as it is after 529722b) -/
theorem from_buffer_exact_false_for_memcpy :
    ¬ (∀ (t : ElemTy) (src : Src) (bytes : List Nat), src.Consistent →
        fromBuffer BufCfg.checked t src = .ok bytes → src.logicalBytes = some bytes) := by
  intro h
  have := h intTy srcEveryOther (le32 [1, 2, 3]) ⟨rfl, by decide, by decide⟩ (by decide)
  revert this
  decide

/-! # Former defects — documentation and regression witnesses

Everything below is about `Cfg.asWritten` / `BufCfg.asWritten`, the tree as first examined.  The full-strength
statements above were FALSE for it; the refutations are kept (kernel-checked), and the check replays the witness
programs on the real module on every run: should the real module ever agree with the as-written model again,
the corresponding flag is decided "as written" and the finding is reported. -/

/-- **The invariant is FALSE for the code as written**: in the state reached by
    `a = IntArray([10,11,12]); a.makeReadOnly(); m = IntArray([1,0,1]); v = a[m]`
    buffer 0 is protected, and `v += 5` changes it. -/
theorem readonly_invariant_asWritten_false :
    ¬ (∀ (ops : List Op) (s : State) (b : Nat), b < s.heap.length → Protected s b →
        (exec Cfg.asWritten s ops).heap[b]? = s.heap[b]?) := by
  intro h
  have := h witnessMaskedInplaceScalar (exec Cfg.asWritten State.empty witnessSetup) 0 (by decide) (by decide)
  revert this
  decide

/-- same through the array right-hand side path (`VectorizedVoidMaskableMemberFunction1`) -/
theorem readonly_invariant_asWritten_false_vector :
    (exec Cfg.asWritten State.empty (witnessSetup ++ witnessMaskedInplaceVector)).heap[0]? = some [17, 11, 20] ∧
    (exec Cfg.repaired State.empty (witnessSetup ++ witnessMaskedInplaceVector)).heap[0]? = some [10, 11, 12] := by
  decide

/-- what the as-written model does on the witness, line by line (replayed against the real module) -/
theorem witness_masked_inplace_trace :
    (run Cfg.asWritten State.empty (witnessSetup ++ witnessMaskedInplaceScalar)).2
      = [.ok (.newView 0), .ok .none, .ok (.newView 1), .ok (.newView 2), .ok .none] ∧
    (exec Cfg.asWritten State.empty (witnessSetup ++ witnessMaskedInplaceScalar)).heap[0]? = some [15, 11, 17] ∧
    (run Cfg.repaired State.empty (witnessSetup ++ witnessMaskedInplaceScalar)).2
      = [.ok (.newView 0), .ok .none, .ok (.newView 1), .ok (.newView 2), .error .readOnly] := by
  decide

/-- FULL-STRENGTH CLAIM "every slice with step ≠ 0 is accepted" — what `extract_slice_indices` does instead:
    forward slices always; backward slices unless the normalised start is -1. -/
theorem slice_accepted_forward {n : Nat} (hn : (n : Int) ≤ PY_SSIZE_T_MAX) {a b c : Option Int}
    (hpos : 0 < c.getD 1) : ∃ s, extractSliceIndices n (.slice a b c) (-1) 0 = .ok s :=
  extract_slice_forward_ok hn hpos

theorem slice_rejected_only_if {n : Nat} (hn : (n : Int) ≤ PY_SSIZE_T_MAX) {a b c : Option Int}
    (hc : ∀ v, c = some v → -PY_SSIZE_T_MAX ≤ v) {e : Err}
    (h : extractSliceIndices n (.slice a b c) (-1) 0 = .error e) :
    (c = some 0 ∧ e = .stepZero) ∨
    (e = .domainError ∧ c.getD 1 < 0 ∧ PyList.boundDown n a ((n : Int) - 1) = -1) :=
  extract_slice_error hn hc h

/-- **The full-strength slice claim is FALSE for the code AS IT WAS (`s < 0` test)**: `a[::-1]` on an empty array, and
    `a[-7::-2]` on a 5-element array, are `[]` in Python and raise (`std::domain_error`) here.
    (The `s < 0` test of `extract_slice_indices` rejects the legal start `-1` of an empty backward slice.) -/
theorem slice_any_sign_false :
    ¬ (∀ (n : Nat) (a b c : Option Int), c ≠ some 0 → (n : Int) ≤ PY_SSIZE_T_MAX →
        ∃ s, extractSliceIndices n (.slice a b c) (-1) 0 = .ok s) := by
  intro h
  obtain ⟨s, hs⟩ := h 0 none none (some (-1)) (by decide) (by decide)
  have hw : extractSliceIndices 0 (.slice none none (some (-1))) (-1) 0 = .error .domainError := by decide
  rw [hw] at hs
  cases hs

theorem slice_any_sign_witnesses :
    extractSliceIndices 0 (.slice none none (some (-1))) (-1) 0 = .error .domainError ∧
    PyList.sliceIndices 0 none none (some (-1)) = some [] ∧
    extractSliceIndices 5 (.slice (some (-7)) none (some (-2))) (-1) 0 = .error .domainError ∧
    PyList.sliceIndices 5 (some (-7)) none (some (-2)) = some [] := by decide

/-- `IntArray(0)[::-1]`: raises as written, an empty array in the repaired variant (and in Python) -/
theorem slice_empty_backward_witness :
    (run Cfg.asWritten State.empty witnessEmptyBackward).2.getLast? = some (.error .domainError) ∧
    (run Cfg.repaired State.empty witnessEmptyBackward).2.getLast? = some (.ok (.newView 1)) := by decide

/-- `ifelse` on a READ-ONLY array raises as soon as `choice` selects one of its elements: the loop body uses
    the non-const `(*this)[i]`.  (Python-list semantics: reading never fails.) -/
theorem ifelse_readonly_quirk :
    (run Cfg.asWritten State.empty witnessIfelseReadOnly).2.getLast? = some (.error .readOnly) ∧
    (run Cfg.asWritten State.empty [.alloc [1, 2], .makeReadOnly 0, .alloc [0, 0], .ifelseScalar 0 1 9]).2.getLast?
      = some (.ok (.newView 2)) ∧
    (run Cfg.repaired State.empty witnessIfelseReadOnly).2.getLast? = some (.ok (.newView 2)) := by decide

/-- the former `ifelse` (non-const read) refined the list operation only for WRITABLE sources -/
theorem ifelse_refines_nonconst_former {h : Heap} {v choice other : View} (w : v.WF (shape h))
    (wc : choice.WF (shape h)) (wo : other.WF (shape h)) (hw : v.writable = true)
    (hl1 : choice.length = v.length) (hl2 : other.length = v.length) :
    ∃ h' f, ifelseVector h v choice other false = .ok (h', f) ∧
      f.toList h' = PyList.ifelse (choice.toList h) (v.toList h) (other.toList h) :=
  let ⟨h', f, a, b, _⟩ := ifelseVector_refines w wc wo (cr := false) (Or.inr hw) hl1 hl2
  ⟨h', f, a, b⟩

/-- as written, `FloatArray(a[mask])` carries the source's raw indices over a dense copy: element 0 of the
    result addresses cell 1 of a 1-cell buffer — an out-of-bounds read; repaired: a dense copy. -/
theorem convert_masked_oob_asWritten :
    (run Cfg.asWritten State.empty witnessConvert).2.getLast? = some (.error .oob) ∧
    (run Cfg.repaired State.empty witnessConvert).2.getLast? = some (.ok (.int 11)) := by decide

/-- as written it holds for dense scalar arrays (IntArray, FloatArray, ...) -/
theorem buffer_len_asWritten_scalar (t : ElemTy) (hd : t.dims = 1) (length : Nat) :
    (getbuffer BufCfg.asWritten t length 1).consistent := by
  simp [PyBuffer.consistent, getbuffer, numBytes, BufCfg.asWritten, apiShape, hd, prod]

def v3f : ElemTy := ⟨4, 3, 2, 12, 'f'⟩

/-- ... and is FALSE in general: `memoryview(V3fArray(5))` has shape (5,3), itemsize 4, and `len` 20 -/
theorem buffer_len_asWritten_false :
    ¬ (∀ (t : ElemTy) (length stride : Nat), (getbuffer BufCfg.asWritten t length stride).consistent) := by
  intro h
  have := h v3f 5 1
  revert this
  decide

theorem buffer_len_asWritten_witness :
    (getbuffer BufCfg.asWritten v3f 5 1).len = 20 ∧ (getbuffer BufCfg.asWritten v3f 5 1).shape = [5, 3] ∧
    (getbuffer BufCfg.repaired v3f 5 1).len = 60 := by decide

/-- as written only byte-order prefixes are rejected: three doubles are accepted for an `int` array and
    24 bytes are copied into a 12-byte allocation (heap overflow); three signed bytes are accepted too -/
theorem from_buffer_asWritten_unchecked :
    fromBuffer BufCfg.asWritten intTy (Src.dense ['d'] 8 3 (List.replicate 24 1)) = .error .oob ∧
    (∃ bytes, fromBuffer BufCfg.asWritten intTy (Src.dense ['b'] 1 3 (List.replicate 3 1)) = .ok bytes) ∧
    fromBuffer BufCfg.repaired intTy (Src.dense ['d'] 8 3 (List.replicate 24 1)) = .error .mismatch ∧
    fromBuffer BufCfg.repaired intTy (Src.dense ['b'] 1 3 (List.replicate 3 1)) = .error .mismatch := by
  refine ⟨by decide, ⟨List.replicate 3 1 ++ List.replicate 9 0, by decide⟩, by decide, by decide⟩

end ImathVerif.C19
