import ImathVerif.Spec.ShowSpec
import ImathVerif.Gen.C04Show
/-!
# C04 (last clause) — stream output

`Gen.X.show / showFixed / showSci` are the texts printed by the real `operator<<` with one opaque
token per element, extracted on every run in three stream states (default, `fixed` with precision 3,
`scientific` with precision 9).  Each theorem states: the text has the canonical layout (one pair of
parentheses; vectors, colours, shears and quaternions on one line with single spaces; matrices one
row per line), is well separated, and prints the slots in declaration order (matrices row-major).
By `Show.showOK_tokens` tokenising the printed text then yields exactly one token per component,
equal to that component's own printed form, for ANY printed forms free of whitespace and parentheses
(i.e. for the non-character element types).
-/
namespace ImathVerif.C04Show
open ImathVerif ImathVerif.Show

theorem V2_show {α : Type} (a : V2 α) : ShowOK (Gen.V2.show a) (vecPieces 2) 2 := by
  unfold Gen.V2.show; decide

theorem V2_showFixed {α : Type} (a : V2 α) : ShowOK (Gen.V2.showFixed a) (vecPieces 2) 2 := by
  unfold Gen.V2.showFixed; decide

theorem V2_showSci {α : Type} (a : V2 α) : ShowOK (Gen.V2.showSci a) (vecPieces 2) 2 := by
  unfold Gen.V2.showSci; decide

theorem V3_show {α : Type} (a : V3 α) : ShowOK (Gen.V3.show a) (vecPieces 3) 3 := by
  unfold Gen.V3.show; decide

theorem V3_showFixed {α : Type} (a : V3 α) : ShowOK (Gen.V3.showFixed a) (vecPieces 3) 3 := by
  unfold Gen.V3.showFixed; decide

theorem V3_showSci {α : Type} (a : V3 α) : ShowOK (Gen.V3.showSci a) (vecPieces 3) 3 := by
  unfold Gen.V3.showSci; decide

theorem V4_show {α : Type} (a : V4 α) : ShowOK (Gen.V4.show a) (vecPieces 4) 4 := by
  unfold Gen.V4.show; decide

theorem V4_showFixed {α : Type} (a : V4 α) : ShowOK (Gen.V4.showFixed a) (vecPieces 4) 4 := by
  unfold Gen.V4.showFixed; decide

theorem V4_showSci {α : Type} (a : V4 α) : ShowOK (Gen.V4.showSci a) (vecPieces 4) 4 := by
  unfold Gen.V4.showSci; decide

theorem C3_show {α : Type} (a : V3 α) : ShowOK (Gen.C3.show a) (vecPieces 3) 3 := by
  unfold Gen.C3.show; decide

theorem C3_showFixed {α : Type} (a : V3 α) : ShowOK (Gen.C3.showFixed a) (vecPieces 3) 3 := by
  unfold Gen.C3.showFixed; decide

theorem C3_showSci {α : Type} (a : V3 α) : ShowOK (Gen.C3.showSci a) (vecPieces 3) 3 := by
  unfold Gen.C3.showSci; decide

theorem C4_show {α : Type} (a : C4 α) : ShowOK (Gen.C4.show a) (vecPieces 4) 4 := by
  unfold Gen.C4.show; decide

theorem C4_showFixed {α : Type} (a : C4 α) : ShowOK (Gen.C4.showFixed a) (vecPieces 4) 4 := by
  unfold Gen.C4.showFixed; decide

theorem C4_showSci {α : Type} (a : C4 α) : ShowOK (Gen.C4.showSci a) (vecPieces 4) 4 := by
  unfold Gen.C4.showSci; decide

theorem Shear6_show {α : Type} (a : Shear6 α) : ShowOK (Gen.Shear6.show a) (vecPieces 6) 6 := by
  unfold Gen.Shear6.show; decide

theorem Shear6_showFixed {α : Type} (a : Shear6 α) : ShowOK (Gen.Shear6.showFixed a) (vecPieces 6) 6 := by
  unfold Gen.Shear6.showFixed; decide

theorem Shear6_showSci {α : Type} (a : Shear6 α) : ShowOK (Gen.Shear6.showSci a) (vecPieces 6) 6 := by
  unfold Gen.Shear6.showSci; decide

theorem Quat_show {α : Type} (a : Quat α) : ShowOK (Gen.Quat.show a) (vecPieces 4) 4 := by
  unfold Gen.Quat.show; decide

theorem Quat_showFixed {α : Type} (a : Quat α) : ShowOK (Gen.Quat.showFixed a) (vecPieces 4) 4 := by
  unfold Gen.Quat.showFixed; decide

theorem Quat_showSci {α : Type} (a : Quat α) : ShowOK (Gen.Quat.showSci a) (vecPieces 4) 4 := by
  unfold Gen.Quat.showSci; decide

theorem M22_show {α : Type} (a : M22 α) : ShowOK (Gen.M22.show a) (matPieces 2) 4 := by
  unfold Gen.M22.show; decide

theorem M22_showFixed {α : Type} (a : M22 α) : ShowOK (Gen.M22.showFixed a) (matPieces 2) 4 := by
  unfold Gen.M22.showFixed; decide

theorem M22_showSci {α : Type} (a : M22 α) : ShowOK (Gen.M22.showSci a) (matPieces 2) 4 := by
  unfold Gen.M22.showSci; decide

theorem M33_show {α : Type} (a : M33 α) : ShowOK (Gen.M33.show a) (matPieces 3) 9 := by
  unfold Gen.M33.show; decide

theorem M33_showFixed {α : Type} (a : M33 α) : ShowOK (Gen.M33.showFixed a) (matPieces 3) 9 := by
  unfold Gen.M33.showFixed; decide

theorem M33_showSci {α : Type} (a : M33 α) : ShowOK (Gen.M33.showSci a) (matPieces 3) 9 := by
  unfold Gen.M33.showSci; decide

theorem M44_show {α : Type} (a : M44 α) : ShowOK (Gen.M44.show a) (matPieces 4) 16 := by
  unfold Gen.M44.show; decide

theorem M44_showFixed {α : Type} (a : M44 α) : ShowOK (Gen.M44.showFixed a) (matPieces 4) 16 := by
  unfold Gen.M44.showFixed; decide

theorem M44_showSci {α : Type} (a : M44 α) : ShowOK (Gen.M44.showSci a) (matPieces 4) 16 := by
  unfold Gen.M44.showSci; decide

/-! `operator<<` leaves the caller's stream state (flags, precision, fill, pending width) as it found it: the matrix
operators switch the stream to scientific / showpoint while printing and must restore it. -/

theorem V2_showKeepsState {α : Type} (a : V2 α) : Gen.V2.showKeepsState a = true := rfl

theorem V3_showKeepsState {α : Type} (a : V3 α) : Gen.V3.showKeepsState a = true := rfl

theorem V4_showKeepsState {α : Type} (a : V4 α) : Gen.V4.showKeepsState a = true := rfl

theorem C3_showKeepsState {α : Type} (a : V3 α) : Gen.C3.showKeepsState a = true := rfl

theorem C4_showKeepsState {α : Type} (a : C4 α) : Gen.C4.showKeepsState a = true := rfl

theorem Shear6_showKeepsState {α : Type} (a : Shear6 α) : Gen.Shear6.showKeepsState a = true := rfl

theorem Quat_showKeepsState {α : Type} (a : Quat α) : Gen.Quat.showKeepsState a = true := rfl

theorem M22_showKeepsState {α : Type} (a : M22 α) : Gen.M22.showKeepsState a = true := rfl

theorem M33_showKeepsState {α : Type} (a : M33 α) : Gen.M33.showKeepsState a = true := rfl

theorem M44_showKeepsState {α : Type} (a : M44 α) : Gen.M44.showKeepsState a = true := rfl

/-- non-vacuity of the tokenisation theorem: a concrete printing function satisfies the hygiene
hypothesis, and the theorem then yields the three printed components of a Vec3 -/
example : tokens (render (fun i _ _ _ => ['e', Char.ofNat (48 + i)]) (Gen.V3.show (⟨1, 2, 3⟩ : V3 Nat)))
    = [['e', '0'], ['e', '1'], ['e', '2']] := by
  unfold Gen.V3.show; decide

end ImathVerif.C04Show
