import ImathVerif.Gen.C08
import ImathVerif.Lemmas.C08Norm
import ImathVerif.Lemmas.C08LemmasV4
import Mathlib.Analysis.Real.Sqrt
import Mathlib.Tactic.NormNum
/-!
# C08 — `length()` and the normalize family: exact semantics (level: PARTIAL)

What is PROVED here (for all vectors over any ordered field with a square root, and over ℝ with
`Real.sqrt`), against definitions regenerated from /repo's headers on every run:

* `Gen.V2/V3/V4.length tmin tmax sqrt v = sqrt (v·v)` for every `v`, `tmin`, `tmax` — on every side of the
  guard `dot < 2*tmin || dot > tmax` (squares underflow / overflow); the `lengthTiny` branch `max * sqrt (Σ (xᵢ/max)²)` equals `sqrt (Σ xᵢ²)` and returns
  0 only when every component is 0 (`Lemmas/C08Lemmas.lean`, `Lemmas/C08LemmasV4.lean`: 9 / 129 / 513 paths);
* `length v = 0 ↔ v = 0`;  `length2 v = dot v v`;
* all six normalize forms return `v / ‖v‖` for `v ≠ 0` (`IsNormalizedN`: `‖v‖ > 0`, `rᵢ = vᵢ/‖v‖`, `r·r = 1`,
  `rᵢ‖v‖ = vᵢ`, `rᵢ` has the sign of `vᵢ`), `normalize`/`normalized` return the zero vector for `0`, and the
  `Exc` forms throw `std::domain_error` exactly when `length() = 0`, i.e. exactly for `v = 0`.

What is NOT proved (and is the heart of C08): the floating-point behaviour — ulp accuracy of `length()`
including vectors whose squares underflow, subnormal handling, no NaN/∞ from `normalize`.  No rounding
analysis is attempted; these are MEASURED on every run by harness/corr/c08_residue.cpp against a 113-bit
reference (tools/props/c08.py, `chk.residues`).

`sqrt` enters as a parameter with the hypothesis `hsqrt`; `hsqrt_real` shows `Real.sqrt` satisfies it.
-/
namespace ImathVerif.C08
open ImathVerif

/-- the real square root satisfies the hypothesis under which everything below is stated -/
theorem hsqrt_real : ∀ x : ℝ, 0 ≤ x → Real.sqrt x * Real.sqrt x = x ∧ 0 ≤ Real.sqrt x :=
  fun x hx => ⟨Real.mul_self_sqrt hx, Real.sqrt_nonneg x⟩

section
variable {α : Type} [Field α] [LinearOrder α] [IsStrictOrderedRing α] {sqrt : α → α}
set_option linter.unusedSectionVars false
-- the `first | done | …` fallbacks below only run after an algebraically harmless rewrite of the C++
set_option linter.unusedTactic false
set_option linter.unreachableTactic false

/-! ## Vec2 -/

/-- the extracted `dot` of a vector with itself is the sum of squares `dotSelf2` of the lemma files -/
theorem V2_dot_self (a : V2 α) : Gen.C08.V2.dot a a = dotSelf2 a := by
  simp only [Gen.C08.V2.dot, dotSelf2]
  try ring

/-- `Vec2::length()` — the real body with `lengthTiny` inlined — is `sqrt (v·v)` for every vector and every
pair of limit parameters `tmin`, `tmax`, i.e. on EVERY side of the guard `dot < 2*tmin || dot > tmax`. -/
theorem V2_length_spec (tmin tmax : α) (hsqrt : ∀ x, 0 ≤ x → sqrt x * sqrt x = x ∧ 0 ≤ sqrt x) (a : V2 α) :
    Gen.V2.length tmin tmax sqrt a = sqrt (Gen.C08.V2.dot a a) := by
  rw [V2_length_eq tmin tmax hsqrt a, V2_dot_self]; rfl

theorem V2_length_nonneg (tmin tmax : α) (hsqrt : ∀ x, 0 ≤ x → sqrt x * sqrt x = x ∧ 0 ≤ sqrt x) (a : V2 α) : 0 ≤ Gen.V2.length tmin tmax sqrt a :=
  (V2_length_sq tmin tmax hsqrt a).2

/-- `length()` is zero only for the zero vector -/
theorem V2_length_eq_zero_iff (tmin tmax : α) (hsqrt : ∀ x, 0 ≤ x → sqrt x * sqrt x = x ∧ 0 ≤ sqrt x) (a : V2 α) :
    Gen.V2.length tmin tmax sqrt a = 0 ↔ a = ⟨0, 0⟩ := by
  rw [V2_length_eq tmin tmax hsqrt a]
  exact (sqrt_eq_zero_iff hsqrt (dotSelf2_nonneg a)).trans (dotSelf2_eq_zero a)

/-- `length2()` is the dot product of the vector with itself -/
theorem V2_length2 (a : V2 α) : Gen.C08.V2.length2 a = Gen.C08.V2.dot a a := by
  simp only [Gen.C08.V2.length2, Gen.C08.V2.dot]
  try ring


/-- `normalize()`: the vector of quotients `aᵢ / ‖a‖` (for `a = 0` every quotient is `0 / 0 = 0` in a field, and the
C++ returns the zero vector there, see `V2_normalize_zero`) -/
theorem V2_normalize_eq (tmin tmax : α) (hsqrt : ∀ x, 0 ≤ x → sqrt x * sqrt x = x ∧ 0 ≤ sqrt x) (a : V2 α) :
    Gen.C08.V2.normalize tmin tmax sqrt a = ⟨a.x / sqrt (dotSelf2 a), a.y / sqrt (dotSelf2 a)⟩ := by
  by_cases ha : a = ⟨0, 0⟩
  · subst ha; simp [Gen.C08.V2.normalize, V2_length_eq tmin tmax hsqrt, dotSelf2, sqrt_zero hsqrt]
  · have hn := (norm2_pos hsqrt ha).ne'
    obtain ⟨x, y⟩ := a
    simp only [dotSelf2] at hn
    simp only [Gen.C08.V2.normalize, V2_length_eq tmin tmax hsqrt, dotSelf2, if_neg hn]
    first | done | (congr 1 <;> ring)

theorem V2_normalize_of_ne_zero (tmin tmax : α) (hsqrt : ∀ x, 0 ≤ x → sqrt x * sqrt x = x ∧ 0 ≤ sqrt x) (a : V2 α) (ha : a ≠ ⟨0, 0⟩) :
    IsNormalized2 sqrt a (Gen.C08.V2.normalize tmin tmax sqrt a) := by
  rw [V2_normalize_eq tmin tmax hsqrt a]; exact isNormalized2_div hsqrt ha

theorem V2_normalize_zero (tmin tmax : α) (hsqrt : ∀ x, 0 ≤ x → sqrt x * sqrt x = x ∧ 0 ≤ sqrt x) :
    Gen.C08.V2.normalize tmin tmax sqrt ⟨0, 0⟩ = ⟨0, 0⟩ := by
  simp [Gen.C08.V2.normalize, V2_length_eq tmin tmax hsqrt, sqrt_zero hsqrt]

/-- `normalized()`: the vector of quotients `aᵢ / ‖a‖` (for `a = 0` every quotient is `0 / 0 = 0` in a field, and the
C++ returns the zero vector there, see `V2_normalized_zero`) -/
theorem V2_normalized_eq (tmin tmax : α) (hsqrt : ∀ x, 0 ≤ x → sqrt x * sqrt x = x ∧ 0 ≤ sqrt x) (a : V2 α) :
    Gen.C08.V2.normalized tmin tmax sqrt a = ⟨a.x / sqrt (dotSelf2 a), a.y / sqrt (dotSelf2 a)⟩ := by
  by_cases ha : a = ⟨0, 0⟩
  · subst ha; simp [Gen.C08.V2.normalized, V2_length_eq tmin tmax hsqrt, dotSelf2, sqrt_zero hsqrt]
  · have hn := (norm2_pos hsqrt ha).ne'
    obtain ⟨x, y⟩ := a
    simp only [dotSelf2] at hn
    simp only [Gen.C08.V2.normalized, V2_length_eq tmin tmax hsqrt, dotSelf2, if_neg hn]
    first | done | (congr 1 <;> ring)

theorem V2_normalized_of_ne_zero (tmin tmax : α) (hsqrt : ∀ x, 0 ≤ x → sqrt x * sqrt x = x ∧ 0 ≤ sqrt x) (a : V2 α) (ha : a ≠ ⟨0, 0⟩) :
    IsNormalized2 sqrt a (Gen.C08.V2.normalized tmin tmax sqrt a) := by
  rw [V2_normalized_eq tmin tmax hsqrt a]; exact isNormalized2_div hsqrt ha

theorem V2_normalized_zero (tmin tmax : α) (hsqrt : ∀ x, 0 ≤ x → sqrt x * sqrt x = x ∧ 0 ≤ sqrt x) :
    Gen.C08.V2.normalized tmin tmax sqrt ⟨0, 0⟩ = ⟨0, 0⟩ := by
  simp [Gen.C08.V2.normalized, V2_length_eq tmin tmax hsqrt, sqrt_zero hsqrt]

/-- `normalizeNonNull()` (precondition: `a ≠ 0`; no test in the C++) -/
theorem V2_normalizeNonNull_of_ne_zero (tmin tmax : α) (hsqrt : ∀ x, 0 ≤ x → sqrt x * sqrt x = x ∧ 0 ≤ sqrt x) (a : V2 α) (ha : a ≠ ⟨0, 0⟩) :
    IsNormalized2 sqrt a (Gen.C08.V2.normalizeNonNull tmin tmax sqrt a) := by
  have h : Gen.C08.V2.normalizeNonNull tmin tmax sqrt a = ⟨a.x / sqrt (dotSelf2 a), a.y / sqrt (dotSelf2 a)⟩ := by
    obtain ⟨x, y⟩ := a
    simp only [Gen.C08.V2.normalizeNonNull, V2_length_eq tmin tmax hsqrt, dotSelf2]
    first | done | (congr 1 <;> ring)
  rw [h]; exact isNormalized2_div hsqrt ha

/-- `normalizedNonNull()` (precondition: `a ≠ 0`; no test in the C++) -/
theorem V2_normalizedNonNull_of_ne_zero (tmin tmax : α) (hsqrt : ∀ x, 0 ≤ x → sqrt x * sqrt x = x ∧ 0 ≤ sqrt x) (a : V2 α) (ha : a ≠ ⟨0, 0⟩) :
    IsNormalized2 sqrt a (Gen.C08.V2.normalizedNonNull tmin tmax sqrt a) := by
  have h : Gen.C08.V2.normalizedNonNull tmin tmax sqrt a = ⟨a.x / sqrt (dotSelf2 a), a.y / sqrt (dotSelf2 a)⟩ := by
    obtain ⟨x, y⟩ := a
    simp only [Gen.C08.V2.normalizedNonNull, V2_length_eq tmin tmax hsqrt, dotSelf2]
    first | done | (congr 1 <;> ring)
  rw [h]; exact isNormalized2_div hsqrt ha

/-- `normalizeExc()` on a non-zero vector: no exception, same result as `normalize()` -/
theorem V2_normalizeExc_of_ne_zero (tmin tmax : α) (hsqrt : ∀ x, 0 ≤ x → sqrt x * sqrt x = x ∧ 0 ≤ sqrt x) (a : V2 α) (ha : a ≠ ⟨0, 0⟩) :
    Gen.C08.V2.normalizeExc tmin tmax sqrt a = .ok (Gen.C08.V2.normalize tmin tmax sqrt a) ∧ IsNormalized2 sqrt a (Gen.C08.V2.normalize tmin tmax sqrt a) := by
  refine ⟨?_, V2_normalize_of_ne_zero tmin tmax hsqrt a ha⟩
  have hl : Gen.V2.length tmin tmax sqrt a ≠ 0 := fun h => ha ((V2_length_eq_zero_iff tmin tmax hsqrt a).1 h)
  obtain ⟨x, y⟩ := a
  simp only [Gen.C08.V2.normalizeExc, Gen.C08.V2.normalize, if_neg hl]
  first | done | (congr 2 <;> ring)

/-- `normalizeExc()` throws exactly when `length()` is 0, i.e. exactly for the zero vector, and what it throws is
`std::domain_error` -/
theorem V2_normalizeExc_throws_iff (tmin tmax : α) (hsqrt : ∀ x, 0 ≤ x → sqrt x * sqrt x = x ∧ 0 ≤ sqrt x) (a : V2 α) :
    ((∃ e, Gen.C08.V2.normalizeExc tmin tmax sqrt a = .error e) ↔ Gen.V2.length tmin tmax sqrt a = 0) ∧
    ((∃ e, Gen.C08.V2.normalizeExc tmin tmax sqrt a = .error e) ↔ a = ⟨0, 0⟩) ∧
    (∀ e, Gen.C08.V2.normalizeExc tmin tmax sqrt a = .error e → e = Exc.domainError) := by
  have key : ∀ b : V2 α, ((∃ e, Gen.C08.V2.normalizeExc tmin tmax sqrt b = .error e) ↔ Gen.V2.length tmin tmax sqrt b = 0) ∧
      (∀ e, Gen.C08.V2.normalizeExc tmin tmax sqrt b = .error e → e = Exc.domainError) := by
    intro b
    obtain ⟨x, y⟩ := b
    simp only [Gen.C08.V2.normalizeExc]
    split_ifs with h
    · exact ⟨⟨fun _ => h, fun _ => ⟨_, rfl⟩⟩, fun e he => (by cases he; rfl)⟩
    · exact ⟨⟨fun ⟨e, he⟩ => (by cases he), fun h' => absurd h' h⟩, fun e he => (by cases he)⟩
  exact ⟨(key a).1, (key a).1.trans (V2_length_eq_zero_iff tmin tmax hsqrt a), (key a).2⟩

theorem V2_normalizeExc_zero (tmin tmax : α) (hsqrt : ∀ x, 0 ≤ x → sqrt x * sqrt x = x ∧ 0 ≤ sqrt x) :
    Gen.C08.V2.normalizeExc tmin tmax sqrt ⟨0, 0⟩ = .error Exc.domainError := by
  simp [Gen.C08.V2.normalizeExc, V2_length_eq tmin tmax hsqrt, sqrt_zero hsqrt]

/-- `normalizedExc()` on a non-zero vector: no exception, same result as `normalized()` -/
theorem V2_normalizedExc_of_ne_zero (tmin tmax : α) (hsqrt : ∀ x, 0 ≤ x → sqrt x * sqrt x = x ∧ 0 ≤ sqrt x) (a : V2 α) (ha : a ≠ ⟨0, 0⟩) :
    Gen.C08.V2.normalizedExc tmin tmax sqrt a = .ok (Gen.C08.V2.normalized tmin tmax sqrt a) ∧ IsNormalized2 sqrt a (Gen.C08.V2.normalized tmin tmax sqrt a) := by
  refine ⟨?_, V2_normalized_of_ne_zero tmin tmax hsqrt a ha⟩
  have hl : Gen.V2.length tmin tmax sqrt a ≠ 0 := fun h => ha ((V2_length_eq_zero_iff tmin tmax hsqrt a).1 h)
  obtain ⟨x, y⟩ := a
  simp only [Gen.C08.V2.normalizedExc, Gen.C08.V2.normalized, if_neg hl]
  first | done | (congr 2 <;> ring)

/-- `normalizedExc()` throws exactly when `length()` is 0, i.e. exactly for the zero vector, and what it throws is
`std::domain_error` -/
theorem V2_normalizedExc_throws_iff (tmin tmax : α) (hsqrt : ∀ x, 0 ≤ x → sqrt x * sqrt x = x ∧ 0 ≤ sqrt x) (a : V2 α) :
    ((∃ e, Gen.C08.V2.normalizedExc tmin tmax sqrt a = .error e) ↔ Gen.V2.length tmin tmax sqrt a = 0) ∧
    ((∃ e, Gen.C08.V2.normalizedExc tmin tmax sqrt a = .error e) ↔ a = ⟨0, 0⟩) ∧
    (∀ e, Gen.C08.V2.normalizedExc tmin tmax sqrt a = .error e → e = Exc.domainError) := by
  have key : ∀ b : V2 α, ((∃ e, Gen.C08.V2.normalizedExc tmin tmax sqrt b = .error e) ↔ Gen.V2.length tmin tmax sqrt b = 0) ∧
      (∀ e, Gen.C08.V2.normalizedExc tmin tmax sqrt b = .error e → e = Exc.domainError) := by
    intro b
    obtain ⟨x, y⟩ := b
    simp only [Gen.C08.V2.normalizedExc]
    split_ifs with h
    · exact ⟨⟨fun _ => h, fun _ => ⟨_, rfl⟩⟩, fun e he => (by cases he; rfl)⟩
    · exact ⟨⟨fun ⟨e, he⟩ => (by cases he), fun h' => absurd h' h⟩, fun e he => (by cases he)⟩
  exact ⟨(key a).1, (key a).1.trans (V2_length_eq_zero_iff tmin tmax hsqrt a), (key a).2⟩

theorem V2_normalizedExc_zero (tmin tmax : α) (hsqrt : ∀ x, 0 ≤ x → sqrt x * sqrt x = x ∧ 0 ≤ sqrt x) :
    Gen.C08.V2.normalizedExc tmin tmax sqrt ⟨0, 0⟩ = .error Exc.domainError := by
  simp [Gen.C08.V2.normalizedExc, V2_length_eq tmin tmax hsqrt, sqrt_zero hsqrt]

/-- the normalised vector has `length()` exactly 1 (exact arithmetic) -/
theorem V2_normalized_length_one (tmin tmax : α) (hsqrt : ∀ x, 0 ≤ x → sqrt x * sqrt x = x ∧ 0 ≤ sqrt x) (a : V2 α) (ha : a ≠ ⟨0, 0⟩) :
    Gen.V2.length tmin tmax sqrt (Gen.C08.V2.normalized tmin tmax sqrt a) = 1 := by
  have h := (V2_normalized_of_ne_zero tmin tmax hsqrt a ha).unit
  rw [V2_length_eq tmin tmax hsqrt]
  simp only [dotSelf2] at h
  rw [h]; exact sqrt_one hsqrt

/-- all six forms agree on a non-zero vector (the in-place and the const copies have the same shape) -/
theorem V2_normalize_forms_agree (tmin tmax : α) (hsqrt : ∀ x, 0 ≤ x → sqrt x * sqrt x = x ∧ 0 ≤ sqrt x) (a : V2 α) (ha : a ≠ ⟨0, 0⟩) :
    Gen.C08.V2.normalize tmin tmax sqrt a = Gen.C08.V2.normalized tmin tmax sqrt a ∧
    Gen.C08.V2.normalizeNonNull tmin tmax sqrt a = Gen.C08.V2.normalized tmin tmax sqrt a ∧
    Gen.C08.V2.normalizedNonNull tmin tmax sqrt a = Gen.C08.V2.normalized tmin tmax sqrt a ∧
    Gen.C08.V2.normalizeExc tmin tmax sqrt a = .ok (Gen.C08.V2.normalized tmin tmax sqrt a) ∧
    Gen.C08.V2.normalizedExc tmin tmax sqrt a = .ok (Gen.C08.V2.normalized tmin tmax sqrt a) := by
  have e1 := (V2_normalize_of_ne_zero tmin tmax hsqrt a ha).eq
  have e2 := (V2_normalized_of_ne_zero tmin tmax hsqrt a ha).eq
  have e3 := (V2_normalizeNonNull_of_ne_zero tmin tmax hsqrt a ha).eq
  have e4 := (V2_normalizedNonNull_of_ne_zero tmin tmax hsqrt a ha).eq
  refine ⟨e1.trans e2.symm, e3.trans e2.symm, e4.trans e2.symm, ?_, (V2_normalizedExc_of_ne_zero tmin tmax hsqrt a ha).1⟩
  rw [(V2_normalizeExc_of_ne_zero tmin tmax hsqrt a ha).1, e1.trans e2.symm]

/-! ## Vec3 -/

/-- the extracted `dot` of a vector with itself is the sum of squares `dotSelf3` of the lemma files -/
theorem V3_dot_self (a : V3 α) : Gen.C08.V3.dot a a = dotSelf3 a := by
  simp only [Gen.C08.V3.dot, dotSelf3]
  try ring

/-- `Vec3::length()` — the real body with `lengthTiny` inlined — is `sqrt (v·v)` for every vector and every
pair of limit parameters `tmin`, `tmax`, i.e. on EVERY side of the guard `dot < 2*tmin || dot > tmax`. -/
theorem V3_length_spec (tmin tmax : α) (hsqrt : ∀ x, 0 ≤ x → sqrt x * sqrt x = x ∧ 0 ≤ sqrt x) (a : V3 α) :
    Gen.V3.length tmin tmax sqrt a = sqrt (Gen.C08.V3.dot a a) := by
  rw [V3_length_eq tmin tmax hsqrt a, V3_dot_self]; rfl

theorem V3_length_nonneg (tmin tmax : α) (hsqrt : ∀ x, 0 ≤ x → sqrt x * sqrt x = x ∧ 0 ≤ sqrt x) (a : V3 α) : 0 ≤ Gen.V3.length tmin tmax sqrt a :=
  (V3_length_sq tmin tmax hsqrt a).2

/-- `length()` is zero only for the zero vector -/
theorem V3_length_eq_zero_iff (tmin tmax : α) (hsqrt : ∀ x, 0 ≤ x → sqrt x * sqrt x = x ∧ 0 ≤ sqrt x) (a : V3 α) :
    Gen.V3.length tmin tmax sqrt a = 0 ↔ a = ⟨0, 0, 0⟩ := by
  rw [V3_length_eq tmin tmax hsqrt a]
  exact (sqrt_eq_zero_iff hsqrt (dotSelf3_nonneg a)).trans (dotSelf3_eq_zero a)

/-- `length2()` is the dot product of the vector with itself -/
theorem V3_length2 (a : V3 α) : Gen.C08.V3.length2 a = Gen.C08.V3.dot a a := by
  simp only [Gen.C08.V3.length2, Gen.C08.V3.dot]
  try ring


/-- `normalize()`: the vector of quotients `aᵢ / ‖a‖` (for `a = 0` every quotient is `0 / 0 = 0` in a field, and the
C++ returns the zero vector there, see `V3_normalize_zero`) -/
theorem V3_normalize_eq (tmin tmax : α) (hsqrt : ∀ x, 0 ≤ x → sqrt x * sqrt x = x ∧ 0 ≤ sqrt x) (a : V3 α) :
    Gen.C08.V3.normalize tmin tmax sqrt a = ⟨a.x / sqrt (dotSelf3 a), a.y / sqrt (dotSelf3 a), a.z / sqrt (dotSelf3 a)⟩ := by
  by_cases ha : a = ⟨0, 0, 0⟩
  · subst ha; simp [Gen.C08.V3.normalize, V3_length_eq tmin tmax hsqrt, dotSelf3, sqrt_zero hsqrt]
  · have hn := (norm3_pos hsqrt ha).ne'
    obtain ⟨x, y, z⟩ := a
    simp only [dotSelf3] at hn
    simp only [Gen.C08.V3.normalize, V3_length_eq tmin tmax hsqrt, dotSelf3, if_neg hn]
    first | done | (congr 1 <;> ring)

theorem V3_normalize_of_ne_zero (tmin tmax : α) (hsqrt : ∀ x, 0 ≤ x → sqrt x * sqrt x = x ∧ 0 ≤ sqrt x) (a : V3 α) (ha : a ≠ ⟨0, 0, 0⟩) :
    IsNormalized3 sqrt a (Gen.C08.V3.normalize tmin tmax sqrt a) := by
  rw [V3_normalize_eq tmin tmax hsqrt a]; exact isNormalized3_div hsqrt ha

theorem V3_normalize_zero (tmin tmax : α) (hsqrt : ∀ x, 0 ≤ x → sqrt x * sqrt x = x ∧ 0 ≤ sqrt x) :
    Gen.C08.V3.normalize tmin tmax sqrt ⟨0, 0, 0⟩ = ⟨0, 0, 0⟩ := by
  simp [Gen.C08.V3.normalize, V3_length_eq tmin tmax hsqrt, sqrt_zero hsqrt]

/-- `normalized()`: the vector of quotients `aᵢ / ‖a‖` (for `a = 0` every quotient is `0 / 0 = 0` in a field, and the
C++ returns the zero vector there, see `V3_normalized_zero`) -/
theorem V3_normalized_eq (tmin tmax : α) (hsqrt : ∀ x, 0 ≤ x → sqrt x * sqrt x = x ∧ 0 ≤ sqrt x) (a : V3 α) :
    Gen.C08.V3.normalized tmin tmax sqrt a = ⟨a.x / sqrt (dotSelf3 a), a.y / sqrt (dotSelf3 a), a.z / sqrt (dotSelf3 a)⟩ := by
  by_cases ha : a = ⟨0, 0, 0⟩
  · subst ha; simp [Gen.C08.V3.normalized, V3_length_eq tmin tmax hsqrt, dotSelf3, sqrt_zero hsqrt]
  · have hn := (norm3_pos hsqrt ha).ne'
    obtain ⟨x, y, z⟩ := a
    simp only [dotSelf3] at hn
    simp only [Gen.C08.V3.normalized, V3_length_eq tmin tmax hsqrt, dotSelf3, if_neg hn]
    first | done | (congr 1 <;> ring)

theorem V3_normalized_of_ne_zero (tmin tmax : α) (hsqrt : ∀ x, 0 ≤ x → sqrt x * sqrt x = x ∧ 0 ≤ sqrt x) (a : V3 α) (ha : a ≠ ⟨0, 0, 0⟩) :
    IsNormalized3 sqrt a (Gen.C08.V3.normalized tmin tmax sqrt a) := by
  rw [V3_normalized_eq tmin tmax hsqrt a]; exact isNormalized3_div hsqrt ha

theorem V3_normalized_zero (tmin tmax : α) (hsqrt : ∀ x, 0 ≤ x → sqrt x * sqrt x = x ∧ 0 ≤ sqrt x) :
    Gen.C08.V3.normalized tmin tmax sqrt ⟨0, 0, 0⟩ = ⟨0, 0, 0⟩ := by
  simp [Gen.C08.V3.normalized, V3_length_eq tmin tmax hsqrt, sqrt_zero hsqrt]

/-- `normalizeNonNull()` (precondition: `a ≠ 0`; no test in the C++) -/
theorem V3_normalizeNonNull_of_ne_zero (tmin tmax : α) (hsqrt : ∀ x, 0 ≤ x → sqrt x * sqrt x = x ∧ 0 ≤ sqrt x) (a : V3 α) (ha : a ≠ ⟨0, 0, 0⟩) :
    IsNormalized3 sqrt a (Gen.C08.V3.normalizeNonNull tmin tmax sqrt a) := by
  have h : Gen.C08.V3.normalizeNonNull tmin tmax sqrt a = ⟨a.x / sqrt (dotSelf3 a), a.y / sqrt (dotSelf3 a), a.z / sqrt (dotSelf3 a)⟩ := by
    obtain ⟨x, y, z⟩ := a
    simp only [Gen.C08.V3.normalizeNonNull, V3_length_eq tmin tmax hsqrt, dotSelf3]
    first | done | (congr 1 <;> ring)
  rw [h]; exact isNormalized3_div hsqrt ha

/-- `normalizedNonNull()` (precondition: `a ≠ 0`; no test in the C++) -/
theorem V3_normalizedNonNull_of_ne_zero (tmin tmax : α) (hsqrt : ∀ x, 0 ≤ x → sqrt x * sqrt x = x ∧ 0 ≤ sqrt x) (a : V3 α) (ha : a ≠ ⟨0, 0, 0⟩) :
    IsNormalized3 sqrt a (Gen.C08.V3.normalizedNonNull tmin tmax sqrt a) := by
  have h : Gen.C08.V3.normalizedNonNull tmin tmax sqrt a = ⟨a.x / sqrt (dotSelf3 a), a.y / sqrt (dotSelf3 a), a.z / sqrt (dotSelf3 a)⟩ := by
    obtain ⟨x, y, z⟩ := a
    simp only [Gen.C08.V3.normalizedNonNull, V3_length_eq tmin tmax hsqrt, dotSelf3]
    first | done | (congr 1 <;> ring)
  rw [h]; exact isNormalized3_div hsqrt ha

/-- `normalizeExc()` on a non-zero vector: no exception, same result as `normalize()` -/
theorem V3_normalizeExc_of_ne_zero (tmin tmax : α) (hsqrt : ∀ x, 0 ≤ x → sqrt x * sqrt x = x ∧ 0 ≤ sqrt x) (a : V3 α) (ha : a ≠ ⟨0, 0, 0⟩) :
    Gen.C08.V3.normalizeExc tmin tmax sqrt a = .ok (Gen.C08.V3.normalize tmin tmax sqrt a) ∧ IsNormalized3 sqrt a (Gen.C08.V3.normalize tmin tmax sqrt a) := by
  refine ⟨?_, V3_normalize_of_ne_zero tmin tmax hsqrt a ha⟩
  have hl : Gen.V3.length tmin tmax sqrt a ≠ 0 := fun h => ha ((V3_length_eq_zero_iff tmin tmax hsqrt a).1 h)
  obtain ⟨x, y, z⟩ := a
  simp only [Gen.C08.V3.normalizeExc, Gen.C08.V3.normalize, if_neg hl]
  first | done | (congr 2 <;> ring)

/-- `normalizeExc()` throws exactly when `length()` is 0, i.e. exactly for the zero vector, and what it throws is
`std::domain_error` -/
theorem V3_normalizeExc_throws_iff (tmin tmax : α) (hsqrt : ∀ x, 0 ≤ x → sqrt x * sqrt x = x ∧ 0 ≤ sqrt x) (a : V3 α) :
    ((∃ e, Gen.C08.V3.normalizeExc tmin tmax sqrt a = .error e) ↔ Gen.V3.length tmin tmax sqrt a = 0) ∧
    ((∃ e, Gen.C08.V3.normalizeExc tmin tmax sqrt a = .error e) ↔ a = ⟨0, 0, 0⟩) ∧
    (∀ e, Gen.C08.V3.normalizeExc tmin tmax sqrt a = .error e → e = Exc.domainError) := by
  have key : ∀ b : V3 α, ((∃ e, Gen.C08.V3.normalizeExc tmin tmax sqrt b = .error e) ↔ Gen.V3.length tmin tmax sqrt b = 0) ∧
      (∀ e, Gen.C08.V3.normalizeExc tmin tmax sqrt b = .error e → e = Exc.domainError) := by
    intro b
    obtain ⟨x, y, z⟩ := b
    simp only [Gen.C08.V3.normalizeExc]
    split_ifs with h
    · exact ⟨⟨fun _ => h, fun _ => ⟨_, rfl⟩⟩, fun e he => (by cases he; rfl)⟩
    · exact ⟨⟨fun ⟨e, he⟩ => (by cases he), fun h' => absurd h' h⟩, fun e he => (by cases he)⟩
  exact ⟨(key a).1, (key a).1.trans (V3_length_eq_zero_iff tmin tmax hsqrt a), (key a).2⟩

theorem V3_normalizeExc_zero (tmin tmax : α) (hsqrt : ∀ x, 0 ≤ x → sqrt x * sqrt x = x ∧ 0 ≤ sqrt x) :
    Gen.C08.V3.normalizeExc tmin tmax sqrt ⟨0, 0, 0⟩ = .error Exc.domainError := by
  simp [Gen.C08.V3.normalizeExc, V3_length_eq tmin tmax hsqrt, sqrt_zero hsqrt]

/-- `normalizedExc()` on a non-zero vector: no exception, same result as `normalized()` -/
theorem V3_normalizedExc_of_ne_zero (tmin tmax : α) (hsqrt : ∀ x, 0 ≤ x → sqrt x * sqrt x = x ∧ 0 ≤ sqrt x) (a : V3 α) (ha : a ≠ ⟨0, 0, 0⟩) :
    Gen.C08.V3.normalizedExc tmin tmax sqrt a = .ok (Gen.C08.V3.normalized tmin tmax sqrt a) ∧ IsNormalized3 sqrt a (Gen.C08.V3.normalized tmin tmax sqrt a) := by
  refine ⟨?_, V3_normalized_of_ne_zero tmin tmax hsqrt a ha⟩
  have hl : Gen.V3.length tmin tmax sqrt a ≠ 0 := fun h => ha ((V3_length_eq_zero_iff tmin tmax hsqrt a).1 h)
  obtain ⟨x, y, z⟩ := a
  simp only [Gen.C08.V3.normalizedExc, Gen.C08.V3.normalized, if_neg hl]
  first | done | (congr 2 <;> ring)

/-- `normalizedExc()` throws exactly when `length()` is 0, i.e. exactly for the zero vector, and what it throws is
`std::domain_error` -/
theorem V3_normalizedExc_throws_iff (tmin tmax : α) (hsqrt : ∀ x, 0 ≤ x → sqrt x * sqrt x = x ∧ 0 ≤ sqrt x) (a : V3 α) :
    ((∃ e, Gen.C08.V3.normalizedExc tmin tmax sqrt a = .error e) ↔ Gen.V3.length tmin tmax sqrt a = 0) ∧
    ((∃ e, Gen.C08.V3.normalizedExc tmin tmax sqrt a = .error e) ↔ a = ⟨0, 0, 0⟩) ∧
    (∀ e, Gen.C08.V3.normalizedExc tmin tmax sqrt a = .error e → e = Exc.domainError) := by
  have key : ∀ b : V3 α, ((∃ e, Gen.C08.V3.normalizedExc tmin tmax sqrt b = .error e) ↔ Gen.V3.length tmin tmax sqrt b = 0) ∧
      (∀ e, Gen.C08.V3.normalizedExc tmin tmax sqrt b = .error e → e = Exc.domainError) := by
    intro b
    obtain ⟨x, y, z⟩ := b
    simp only [Gen.C08.V3.normalizedExc]
    split_ifs with h
    · exact ⟨⟨fun _ => h, fun _ => ⟨_, rfl⟩⟩, fun e he => (by cases he; rfl)⟩
    · exact ⟨⟨fun ⟨e, he⟩ => (by cases he), fun h' => absurd h' h⟩, fun e he => (by cases he)⟩
  exact ⟨(key a).1, (key a).1.trans (V3_length_eq_zero_iff tmin tmax hsqrt a), (key a).2⟩

theorem V3_normalizedExc_zero (tmin tmax : α) (hsqrt : ∀ x, 0 ≤ x → sqrt x * sqrt x = x ∧ 0 ≤ sqrt x) :
    Gen.C08.V3.normalizedExc tmin tmax sqrt ⟨0, 0, 0⟩ = .error Exc.domainError := by
  simp [Gen.C08.V3.normalizedExc, V3_length_eq tmin tmax hsqrt, sqrt_zero hsqrt]

/-- the normalised vector has `length()` exactly 1 (exact arithmetic) -/
theorem V3_normalized_length_one (tmin tmax : α) (hsqrt : ∀ x, 0 ≤ x → sqrt x * sqrt x = x ∧ 0 ≤ sqrt x) (a : V3 α) (ha : a ≠ ⟨0, 0, 0⟩) :
    Gen.V3.length tmin tmax sqrt (Gen.C08.V3.normalized tmin tmax sqrt a) = 1 := by
  have h := (V3_normalized_of_ne_zero tmin tmax hsqrt a ha).unit
  rw [V3_length_eq tmin tmax hsqrt]
  simp only [dotSelf3] at h
  rw [h]; exact sqrt_one hsqrt

/-- all six forms agree on a non-zero vector (the in-place and the const copies have the same shape) -/
theorem V3_normalize_forms_agree (tmin tmax : α) (hsqrt : ∀ x, 0 ≤ x → sqrt x * sqrt x = x ∧ 0 ≤ sqrt x) (a : V3 α) (ha : a ≠ ⟨0, 0, 0⟩) :
    Gen.C08.V3.normalize tmin tmax sqrt a = Gen.C08.V3.normalized tmin tmax sqrt a ∧
    Gen.C08.V3.normalizeNonNull tmin tmax sqrt a = Gen.C08.V3.normalized tmin tmax sqrt a ∧
    Gen.C08.V3.normalizedNonNull tmin tmax sqrt a = Gen.C08.V3.normalized tmin tmax sqrt a ∧
    Gen.C08.V3.normalizeExc tmin tmax sqrt a = .ok (Gen.C08.V3.normalized tmin tmax sqrt a) ∧
    Gen.C08.V3.normalizedExc tmin tmax sqrt a = .ok (Gen.C08.V3.normalized tmin tmax sqrt a) := by
  have e1 := (V3_normalize_of_ne_zero tmin tmax hsqrt a ha).eq
  have e2 := (V3_normalized_of_ne_zero tmin tmax hsqrt a ha).eq
  have e3 := (V3_normalizeNonNull_of_ne_zero tmin tmax hsqrt a ha).eq
  have e4 := (V3_normalizedNonNull_of_ne_zero tmin tmax hsqrt a ha).eq
  refine ⟨e1.trans e2.symm, e3.trans e2.symm, e4.trans e2.symm, ?_, (V3_normalizedExc_of_ne_zero tmin tmax hsqrt a ha).1⟩
  rw [(V3_normalizeExc_of_ne_zero tmin tmax hsqrt a ha).1, e1.trans e2.symm]

/-! ## Vec4 -/

/-- the extracted `dot` of a vector with itself is the sum of squares `dotSelf4` of the lemma files -/
theorem V4_dot_self (a : V4 α) : Gen.C08.V4.dot a a = dotSelf4 a := by
  simp only [Gen.C08.V4.dot, dotSelf4]
  try ring

/-- `Vec4::length()` — the real body with `lengthTiny` inlined — is `sqrt (v·v)` for every vector and every
pair of limit parameters `tmin`, `tmax`, i.e. on EVERY side of the guard `dot < 2*tmin || dot > tmax`. -/
theorem V4_length_spec (tmin tmax : α) (hsqrt : ∀ x, 0 ≤ x → sqrt x * sqrt x = x ∧ 0 ≤ sqrt x) (a : V4 α) :
    Gen.V4.length tmin tmax sqrt a = sqrt (Gen.C08.V4.dot a a) := by
  rw [V4_length_eq tmin tmax hsqrt a, V4_dot_self]; rfl

theorem V4_length_nonneg (tmin tmax : α) (hsqrt : ∀ x, 0 ≤ x → sqrt x * sqrt x = x ∧ 0 ≤ sqrt x) (a : V4 α) : 0 ≤ Gen.V4.length tmin tmax sqrt a :=
  (V4_length_sq tmin tmax hsqrt a).2

/-- `length()` is zero only for the zero vector -/
theorem V4_length_eq_zero_iff (tmin tmax : α) (hsqrt : ∀ x, 0 ≤ x → sqrt x * sqrt x = x ∧ 0 ≤ sqrt x) (a : V4 α) :
    Gen.V4.length tmin tmax sqrt a = 0 ↔ a = ⟨0, 0, 0, 0⟩ := by
  rw [V4_length_eq tmin tmax hsqrt a]
  exact (sqrt_eq_zero_iff hsqrt (dotSelf4_nonneg a)).trans (dotSelf4_eq_zero a)

/-- `length2()` is the dot product of the vector with itself -/
theorem V4_length2 (a : V4 α) : Gen.C08.V4.length2 a = Gen.C08.V4.dot a a := by
  simp only [Gen.C08.V4.length2, Gen.C08.V4.dot]
  try ring


/-- `normalize()`: the vector of quotients `aᵢ / ‖a‖` (for `a = 0` every quotient is `0 / 0 = 0` in a field, and the
C++ returns the zero vector there, see `V4_normalize_zero`) -/
theorem V4_normalize_eq (tmin tmax : α) (hsqrt : ∀ x, 0 ≤ x → sqrt x * sqrt x = x ∧ 0 ≤ sqrt x) (a : V4 α) :
    Gen.C08.V4.normalize tmin tmax sqrt a = ⟨a.x / sqrt (dotSelf4 a), a.y / sqrt (dotSelf4 a), a.z / sqrt (dotSelf4 a), a.w / sqrt (dotSelf4 a)⟩ := by
  by_cases ha : a = ⟨0, 0, 0, 0⟩
  · subst ha; simp [Gen.C08.V4.normalize, V4_length_eq tmin tmax hsqrt, dotSelf4, sqrt_zero hsqrt]
  · have hn := (norm4_pos hsqrt ha).ne'
    obtain ⟨x, y, z, w⟩ := a
    simp only [dotSelf4] at hn
    simp only [Gen.C08.V4.normalize, V4_length_eq tmin tmax hsqrt, dotSelf4, if_neg hn]
    first | done | (congr 1 <;> ring)

theorem V4_normalize_of_ne_zero (tmin tmax : α) (hsqrt : ∀ x, 0 ≤ x → sqrt x * sqrt x = x ∧ 0 ≤ sqrt x) (a : V4 α) (ha : a ≠ ⟨0, 0, 0, 0⟩) :
    IsNormalized4 sqrt a (Gen.C08.V4.normalize tmin tmax sqrt a) := by
  rw [V4_normalize_eq tmin tmax hsqrt a]; exact isNormalized4_div hsqrt ha

theorem V4_normalize_zero (tmin tmax : α) (hsqrt : ∀ x, 0 ≤ x → sqrt x * sqrt x = x ∧ 0 ≤ sqrt x) :
    Gen.C08.V4.normalize tmin tmax sqrt ⟨0, 0, 0, 0⟩ = ⟨0, 0, 0, 0⟩ := by
  simp [Gen.C08.V4.normalize, V4_length_eq tmin tmax hsqrt, sqrt_zero hsqrt]

/-- `normalized()`: the vector of quotients `aᵢ / ‖a‖` (for `a = 0` every quotient is `0 / 0 = 0` in a field, and the
C++ returns the zero vector there, see `V4_normalized_zero`) -/
theorem V4_normalized_eq (tmin tmax : α) (hsqrt : ∀ x, 0 ≤ x → sqrt x * sqrt x = x ∧ 0 ≤ sqrt x) (a : V4 α) :
    Gen.C08.V4.normalized tmin tmax sqrt a = ⟨a.x / sqrt (dotSelf4 a), a.y / sqrt (dotSelf4 a), a.z / sqrt (dotSelf4 a), a.w / sqrt (dotSelf4 a)⟩ := by
  by_cases ha : a = ⟨0, 0, 0, 0⟩
  · subst ha; simp [Gen.C08.V4.normalized, V4_length_eq tmin tmax hsqrt, dotSelf4, sqrt_zero hsqrt]
  · have hn := (norm4_pos hsqrt ha).ne'
    obtain ⟨x, y, z, w⟩ := a
    simp only [dotSelf4] at hn
    simp only [Gen.C08.V4.normalized, V4_length_eq tmin tmax hsqrt, dotSelf4, if_neg hn]
    first | done | (congr 1 <;> ring)

theorem V4_normalized_of_ne_zero (tmin tmax : α) (hsqrt : ∀ x, 0 ≤ x → sqrt x * sqrt x = x ∧ 0 ≤ sqrt x) (a : V4 α) (ha : a ≠ ⟨0, 0, 0, 0⟩) :
    IsNormalized4 sqrt a (Gen.C08.V4.normalized tmin tmax sqrt a) := by
  rw [V4_normalized_eq tmin tmax hsqrt a]; exact isNormalized4_div hsqrt ha

theorem V4_normalized_zero (tmin tmax : α) (hsqrt : ∀ x, 0 ≤ x → sqrt x * sqrt x = x ∧ 0 ≤ sqrt x) :
    Gen.C08.V4.normalized tmin tmax sqrt ⟨0, 0, 0, 0⟩ = ⟨0, 0, 0, 0⟩ := by
  simp [Gen.C08.V4.normalized, V4_length_eq tmin tmax hsqrt, sqrt_zero hsqrt]

/-- `normalizeNonNull()` (precondition: `a ≠ 0`; no test in the C++) -/
theorem V4_normalizeNonNull_of_ne_zero (tmin tmax : α) (hsqrt : ∀ x, 0 ≤ x → sqrt x * sqrt x = x ∧ 0 ≤ sqrt x) (a : V4 α) (ha : a ≠ ⟨0, 0, 0, 0⟩) :
    IsNormalized4 sqrt a (Gen.C08.V4.normalizeNonNull tmin tmax sqrt a) := by
  have h : Gen.C08.V4.normalizeNonNull tmin tmax sqrt a = ⟨a.x / sqrt (dotSelf4 a), a.y / sqrt (dotSelf4 a), a.z / sqrt (dotSelf4 a), a.w / sqrt (dotSelf4 a)⟩ := by
    obtain ⟨x, y, z, w⟩ := a
    simp only [Gen.C08.V4.normalizeNonNull, V4_length_eq tmin tmax hsqrt, dotSelf4]
    first | done | (congr 1 <;> ring)
  rw [h]; exact isNormalized4_div hsqrt ha

/-- `normalizedNonNull()` (precondition: `a ≠ 0`; no test in the C++) -/
theorem V4_normalizedNonNull_of_ne_zero (tmin tmax : α) (hsqrt : ∀ x, 0 ≤ x → sqrt x * sqrt x = x ∧ 0 ≤ sqrt x) (a : V4 α) (ha : a ≠ ⟨0, 0, 0, 0⟩) :
    IsNormalized4 sqrt a (Gen.C08.V4.normalizedNonNull tmin tmax sqrt a) := by
  have h : Gen.C08.V4.normalizedNonNull tmin tmax sqrt a = ⟨a.x / sqrt (dotSelf4 a), a.y / sqrt (dotSelf4 a), a.z / sqrt (dotSelf4 a), a.w / sqrt (dotSelf4 a)⟩ := by
    obtain ⟨x, y, z, w⟩ := a
    simp only [Gen.C08.V4.normalizedNonNull, V4_length_eq tmin tmax hsqrt, dotSelf4]
    first | done | (congr 1 <;> ring)
  rw [h]; exact isNormalized4_div hsqrt ha

/-- `normalizeExc()` on a non-zero vector: no exception, same result as `normalize()` -/
theorem V4_normalizeExc_of_ne_zero (tmin tmax : α) (hsqrt : ∀ x, 0 ≤ x → sqrt x * sqrt x = x ∧ 0 ≤ sqrt x) (a : V4 α) (ha : a ≠ ⟨0, 0, 0, 0⟩) :
    Gen.C08.V4.normalizeExc tmin tmax sqrt a = .ok (Gen.C08.V4.normalize tmin tmax sqrt a) ∧ IsNormalized4 sqrt a (Gen.C08.V4.normalize tmin tmax sqrt a) := by
  refine ⟨?_, V4_normalize_of_ne_zero tmin tmax hsqrt a ha⟩
  have hl : Gen.V4.length tmin tmax sqrt a ≠ 0 := fun h => ha ((V4_length_eq_zero_iff tmin tmax hsqrt a).1 h)
  obtain ⟨x, y, z, w⟩ := a
  simp only [Gen.C08.V4.normalizeExc, Gen.C08.V4.normalize, if_neg hl]
  first | done | (congr 2 <;> ring)

/-- `normalizeExc()` throws exactly when `length()` is 0, i.e. exactly for the zero vector, and what it throws is
`std::domain_error` -/
theorem V4_normalizeExc_throws_iff (tmin tmax : α) (hsqrt : ∀ x, 0 ≤ x → sqrt x * sqrt x = x ∧ 0 ≤ sqrt x) (a : V4 α) :
    ((∃ e, Gen.C08.V4.normalizeExc tmin tmax sqrt a = .error e) ↔ Gen.V4.length tmin tmax sqrt a = 0) ∧
    ((∃ e, Gen.C08.V4.normalizeExc tmin tmax sqrt a = .error e) ↔ a = ⟨0, 0, 0, 0⟩) ∧
    (∀ e, Gen.C08.V4.normalizeExc tmin tmax sqrt a = .error e → e = Exc.domainError) := by
  have key : ∀ b : V4 α, ((∃ e, Gen.C08.V4.normalizeExc tmin tmax sqrt b = .error e) ↔ Gen.V4.length tmin tmax sqrt b = 0) ∧
      (∀ e, Gen.C08.V4.normalizeExc tmin tmax sqrt b = .error e → e = Exc.domainError) := by
    intro b
    obtain ⟨x, y, z, w⟩ := b
    simp only [Gen.C08.V4.normalizeExc]
    split_ifs with h
    · exact ⟨⟨fun _ => h, fun _ => ⟨_, rfl⟩⟩, fun e he => (by cases he; rfl)⟩
    · exact ⟨⟨fun ⟨e, he⟩ => (by cases he), fun h' => absurd h' h⟩, fun e he => (by cases he)⟩
  exact ⟨(key a).1, (key a).1.trans (V4_length_eq_zero_iff tmin tmax hsqrt a), (key a).2⟩

theorem V4_normalizeExc_zero (tmin tmax : α) (hsqrt : ∀ x, 0 ≤ x → sqrt x * sqrt x = x ∧ 0 ≤ sqrt x) :
    Gen.C08.V4.normalizeExc tmin tmax sqrt ⟨0, 0, 0, 0⟩ = .error Exc.domainError := by
  simp [Gen.C08.V4.normalizeExc, V4_length_eq tmin tmax hsqrt, sqrt_zero hsqrt]

/-- `normalizedExc()` on a non-zero vector: no exception, same result as `normalized()` -/
theorem V4_normalizedExc_of_ne_zero (tmin tmax : α) (hsqrt : ∀ x, 0 ≤ x → sqrt x * sqrt x = x ∧ 0 ≤ sqrt x) (a : V4 α) (ha : a ≠ ⟨0, 0, 0, 0⟩) :
    Gen.C08.V4.normalizedExc tmin tmax sqrt a = .ok (Gen.C08.V4.normalized tmin tmax sqrt a) ∧ IsNormalized4 sqrt a (Gen.C08.V4.normalized tmin tmax sqrt a) := by
  refine ⟨?_, V4_normalized_of_ne_zero tmin tmax hsqrt a ha⟩
  have hl : Gen.V4.length tmin tmax sqrt a ≠ 0 := fun h => ha ((V4_length_eq_zero_iff tmin tmax hsqrt a).1 h)
  obtain ⟨x, y, z, w⟩ := a
  simp only [Gen.C08.V4.normalizedExc, Gen.C08.V4.normalized, if_neg hl]
  first | done | (congr 2 <;> ring)

/-- `normalizedExc()` throws exactly when `length()` is 0, i.e. exactly for the zero vector, and what it throws is
`std::domain_error` -/
theorem V4_normalizedExc_throws_iff (tmin tmax : α) (hsqrt : ∀ x, 0 ≤ x → sqrt x * sqrt x = x ∧ 0 ≤ sqrt x) (a : V4 α) :
    ((∃ e, Gen.C08.V4.normalizedExc tmin tmax sqrt a = .error e) ↔ Gen.V4.length tmin tmax sqrt a = 0) ∧
    ((∃ e, Gen.C08.V4.normalizedExc tmin tmax sqrt a = .error e) ↔ a = ⟨0, 0, 0, 0⟩) ∧
    (∀ e, Gen.C08.V4.normalizedExc tmin tmax sqrt a = .error e → e = Exc.domainError) := by
  have key : ∀ b : V4 α, ((∃ e, Gen.C08.V4.normalizedExc tmin tmax sqrt b = .error e) ↔ Gen.V4.length tmin tmax sqrt b = 0) ∧
      (∀ e, Gen.C08.V4.normalizedExc tmin tmax sqrt b = .error e → e = Exc.domainError) := by
    intro b
    obtain ⟨x, y, z, w⟩ := b
    simp only [Gen.C08.V4.normalizedExc]
    split_ifs with h
    · exact ⟨⟨fun _ => h, fun _ => ⟨_, rfl⟩⟩, fun e he => (by cases he; rfl)⟩
    · exact ⟨⟨fun ⟨e, he⟩ => (by cases he), fun h' => absurd h' h⟩, fun e he => (by cases he)⟩
  exact ⟨(key a).1, (key a).1.trans (V4_length_eq_zero_iff tmin tmax hsqrt a), (key a).2⟩

theorem V4_normalizedExc_zero (tmin tmax : α) (hsqrt : ∀ x, 0 ≤ x → sqrt x * sqrt x = x ∧ 0 ≤ sqrt x) :
    Gen.C08.V4.normalizedExc tmin tmax sqrt ⟨0, 0, 0, 0⟩ = .error Exc.domainError := by
  simp [Gen.C08.V4.normalizedExc, V4_length_eq tmin tmax hsqrt, sqrt_zero hsqrt]

/-- the normalised vector has `length()` exactly 1 (exact arithmetic) -/
theorem V4_normalized_length_one (tmin tmax : α) (hsqrt : ∀ x, 0 ≤ x → sqrt x * sqrt x = x ∧ 0 ≤ sqrt x) (a : V4 α) (ha : a ≠ ⟨0, 0, 0, 0⟩) :
    Gen.V4.length tmin tmax sqrt (Gen.C08.V4.normalized tmin tmax sqrt a) = 1 := by
  have h := (V4_normalized_of_ne_zero tmin tmax hsqrt a ha).unit
  rw [V4_length_eq tmin tmax hsqrt]
  simp only [dotSelf4] at h
  rw [h]; exact sqrt_one hsqrt

/-- all six forms agree on a non-zero vector (the in-place and the const copies have the same shape) -/
theorem V4_normalize_forms_agree (tmin tmax : α) (hsqrt : ∀ x, 0 ≤ x → sqrt x * sqrt x = x ∧ 0 ≤ sqrt x) (a : V4 α) (ha : a ≠ ⟨0, 0, 0, 0⟩) :
    Gen.C08.V4.normalize tmin tmax sqrt a = Gen.C08.V4.normalized tmin tmax sqrt a ∧
    Gen.C08.V4.normalizeNonNull tmin tmax sqrt a = Gen.C08.V4.normalized tmin tmax sqrt a ∧
    Gen.C08.V4.normalizedNonNull tmin tmax sqrt a = Gen.C08.V4.normalized tmin tmax sqrt a ∧
    Gen.C08.V4.normalizeExc tmin tmax sqrt a = .ok (Gen.C08.V4.normalized tmin tmax sqrt a) ∧
    Gen.C08.V4.normalizedExc tmin tmax sqrt a = .ok (Gen.C08.V4.normalized tmin tmax sqrt a) := by
  have e1 := (V4_normalize_of_ne_zero tmin tmax hsqrt a ha).eq
  have e2 := (V4_normalized_of_ne_zero tmin tmax hsqrt a ha).eq
  have e3 := (V4_normalizeNonNull_of_ne_zero tmin tmax hsqrt a ha).eq
  have e4 := (V4_normalizedNonNull_of_ne_zero tmin tmax hsqrt a ha).eq
  refine ⟨e1.trans e2.symm, e3.trans e2.symm, e4.trans e2.symm, ?_, (V4_normalizedExc_of_ne_zero tmin tmax hsqrt a ha).1⟩
  rw [(V4_normalizeExc_of_ne_zero tmin tmax hsqrt a ha).1, e1.trans e2.symm]
end

/-! ## over ℝ with `Real.sqrt` -/

/-- over ℝ with the real square root: `length()` is the Euclidean norm -/
theorem V2_length_spec_real (tmin tmax : ℝ) (a : V2 ℝ) :
    Gen.V2.length tmin tmax Real.sqrt a = Real.sqrt (a.x ^ 2 + a.y ^ 2) := by
  rw [V2_length_eq tmin tmax hsqrt_real a]; congr 1; ring

theorem V2_normalized_real (tmin tmax : ℝ) (a : V2 ℝ) (ha : a ≠ ⟨0, 0⟩) :
    IsNormalized2 Real.sqrt a (Gen.C08.V2.normalized tmin tmax Real.sqrt a) :=
  V2_normalized_of_ne_zero tmin tmax hsqrt_real a ha

/-- over ℝ with the real square root: `length()` is the Euclidean norm -/
theorem V3_length_spec_real (tmin tmax : ℝ) (a : V3 ℝ) :
    Gen.V3.length tmin tmax Real.sqrt a = Real.sqrt (a.x ^ 2 + a.y ^ 2 + a.z ^ 2) := by
  rw [V3_length_eq tmin tmax hsqrt_real a]; congr 1; ring

theorem V3_normalized_real (tmin tmax : ℝ) (a : V3 ℝ) (ha : a ≠ ⟨0, 0, 0⟩) :
    IsNormalized3 Real.sqrt a (Gen.C08.V3.normalized tmin tmax Real.sqrt a) :=
  V3_normalized_of_ne_zero tmin tmax hsqrt_real a ha

/-- over ℝ with the real square root: `length()` is the Euclidean norm -/
theorem V4_length_spec_real (tmin tmax : ℝ) (a : V4 ℝ) :
    Gen.V4.length tmin tmax Real.sqrt a = Real.sqrt (a.x ^ 2 + a.y ^ 2 + a.z ^ 2 + a.w ^ 2) := by
  rw [V4_length_eq tmin tmax hsqrt_real a]; congr 1; ring

theorem V4_normalized_real (tmin tmax : ℝ) (a : V4 ℝ) (ha : a ≠ ⟨0, 0, 0, 0⟩) :
    IsNormalized4 Real.sqrt a (Gen.C08.V4.normalized tmin tmax Real.sqrt a) :=
  V4_normalized_of_ne_zero tmin tmax hsqrt_real a ha

/-! ## non-vacuity: concrete vectors on every branch (direct / underflow guard / overflow guard) -/

/-- (3,4) ↦ 5 through the direct branch (`25 < 2*1` and `1000 < 25` are both false) -/
example : Gen.V2.length 1 1000 Real.sqrt ⟨3, 4⟩ = 5 := by
  rw [V2_length_eq 1 1000 hsqrt_real]; exact sqrt_unique hsqrt_real (by norm_num) (by norm_num)
example : ¬ (Gen.C08.V2.dot (⟨3, 4⟩ : V2 ℝ) ⟨3, 4⟩ < 2 * 1) ∧ ¬ ((1000 : ℝ) < Gen.C08.V2.dot (⟨3, 4⟩ : V2 ℝ) ⟨3, 4⟩) := by
  norm_num [Gen.C08.V2.dot]
/-- (3,4) ↦ 5 through the `lengthTiny` branch taken for underflow (`25 < 2*100`): `4 * sqrt ((3/4)² + 1) = 5` -/
example : Gen.V2.length 100 1000 Real.sqrt ⟨3, 4⟩ = 5 := by
  rw [V2_length_eq 100 1000 hsqrt_real]; exact sqrt_unique hsqrt_real (by norm_num) (by norm_num)
example : Gen.C08.V2.dot (⟨3, 4⟩ : V2 ℝ) ⟨3, 4⟩ < 2 * 100 := by norm_num [Gen.C08.V2.dot]
/-- (3,4) ↦ 5 through the `lengthTiny` branch taken for OVERFLOW of the squares (`tmax = 10 < 25`, `25 < 2*1` false) -/
example : Gen.V2.length 1 10 Real.sqrt ⟨3, 4⟩ = 5 := by
  rw [V2_length_eq 1 10 hsqrt_real]; exact sqrt_unique hsqrt_real (by norm_num) (by norm_num)
example : ¬ (Gen.C08.V2.dot (⟨3, 4⟩ : V2 ℝ) ⟨3, 4⟩ < 2 * 1) ∧ (10 : ℝ) < Gen.C08.V2.dot (⟨3, 4⟩ : V2 ℝ) ⟨3, 4⟩ := by
  norm_num [Gen.C08.V2.dot]
/-- a tiny vector below the threshold: (3/1000, 4/1000) with `tmin = 1/1000` has length 1/200 -/
example : Gen.V2.length (1 / 1000) 1000 Real.sqrt ⟨3 / 1000, 4 / 1000⟩ = 1 / 200 := by
  rw [V2_length_eq _ _ hsqrt_real]; exact sqrt_unique hsqrt_real (by norm_num) (by norm_num)
example : Gen.C08.V2.dot (⟨3 / 1000, 4 / 1000⟩ : V2 ℝ) ⟨3 / 1000, 4 / 1000⟩ < 2 * (1 / 1000) := by
  norm_num [Gen.C08.V2.dot]
/-- (2,-3,6) ↦ 7 and (1,-2,2,4) ↦ 5, negative components: direct, underflow-guard and overflow-guard branches -/
example : Gen.V3.length 1 1000 Real.sqrt ⟨2, -3, 6⟩ = 7 ∧ Gen.V3.length 1000 2000 Real.sqrt ⟨2, -3, 6⟩ = 7 ∧
    Gen.V3.length 1 10 Real.sqrt ⟨2, -3, 6⟩ = 7 := by
  refine ⟨?_, ?_, ?_⟩ <;> (rw [V3_length_eq _ _ hsqrt_real]; exact sqrt_unique hsqrt_real (by norm_num) (by norm_num))
example : Gen.V4.length 1 1000 Real.sqrt ⟨1, -2, 2, 4⟩ = 5 ∧ Gen.V4.length 1000 2000 Real.sqrt ⟨1, -2, 2, 4⟩ = 5 ∧
    Gen.V4.length 1 10 Real.sqrt ⟨1, -2, 2, 4⟩ = 5 := by
  refine ⟨?_, ?_, ?_⟩ <;> (rw [V4_length_eq _ _ hsqrt_real]; exact sqrt_unique hsqrt_real (by norm_num) (by norm_num))
/-- normalising (3,-4) gives (3/5,-4/5); the hypothesis `a ≠ 0` of the `_of_ne_zero` theorems is satisfiable -/
example : Gen.C08.V2.normalized 1 1000 Real.sqrt ⟨3, -4⟩ = ⟨3 / 5, -4 / 5⟩ := by
  have h5 : Real.sqrt (dotSelf2 (⟨3, -4⟩ : V2 ℝ)) = 5 := sqrt_unique hsqrt_real (by norm_num) (by norm_num [dotSelf2])
  rw [V2_normalized_eq 1 1000 hsqrt_real, h5]
example : (⟨3, -4⟩ : V2 ℝ) ≠ ⟨0, 0⟩ := by simp
example : (⟨0, 0, 1 / 2⟩ : V3 ℝ) ≠ ⟨0, 0, 0⟩ := by simp
example : (⟨0, -1, 0, 0⟩ : V4 ℝ) ≠ ⟨0, 0, 0, 0⟩ := by simp

end ImathVerif.C08
