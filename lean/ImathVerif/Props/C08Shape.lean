import ImathVerif.Gen.C08
import Mathlib.Tactic.SplitIfs
import Mathlib.Tactic.NormNum
import Mathlib.Algebra.Order.Field.Basic
/-!
# C08 — SHAPE of `length()` and of the six normalize forms (syntactic, no algebra)

`Props/C08.lean` proves the VALUE of `length()` / `normalize*()` in exact arithmetic.  Those theorems hold for
every threshold and every algebraically equivalent spelling (`x / l` vs `x * (1 / l)`, `2 * min` vs `min`,
`<` vs `<=`, the overflow disjunct present or not) — on purpose, because in exact arithmetic these do not matter.
For floating point they are exactly what C08 is about.  The theorems of THIS file pin the SHAPE of the code:

* `V*_length_shape`:  `length() = if dot < 2 * tmin ∨ tmax < dot then lengthTiny() else sqrt dot`
  — the guard (both disjuncts, the factor 2, strict comparisons, which limit is compared with what; WHICH
  `numeric_limits` constants `tmin` / `tmax` are is pinned by tools/pins/extras_leaf.json), `dot` being the extracted
  `Vec::dot`, and `lengthTiny()` written out as the C++ writes it: absolute values by comparison with 0, the running
  maximum by strict `<`, `0` for a zero maximum, DIVISION of every absolute value by the maximum (never a
  multiplication by a reciprocal), `max * sqrt (Σ (|xᵢ|/max)²)`.
* `V*_<form>_shape`: every normalize form is `let l := length(); if l = 0 then <zero case> else ⟨xᵢ / l⟩`
  with a true division by `l` and the call `length()` made with the limits in the order `tmin tmax`.

They are closed by unfolding, case splitting on the `if`s and `rfl`: NO `ring`, `field_simp`, `linarith`.  They hold for
an arbitrary function `sqrt` (no hypothesis) over any ordered field.  A failure of one of these theorems is reported
under its own key `shape:<function>` (tools/props/c08.py): it means the code's shape changed (possibly a
harmless rewrite — to be triaged by a human, together with the measured residue), not that the value is wrong.
-/
namespace ImathVerif.C08
open ImathVerif

section
variable {α : Type} [Field α] [LinearOrder α] [IsStrictOrderedRing α]
set_option linter.unusedSectionVars false

/-- `(x >= T(0)) ? x : -x` — the absolute value as `Vec3/Vec4::lengthTiny()` write it -/
def absGe (x : α) : α := if (0 : α) ≤ x then x else -x

/-- `max = a; if (max < b) max = b;` — the running maximum as `lengthTiny()` writes it -/
def maxLt (a b : α) : α := if a < b then b else a

/-- last step of `lengthTiny()`: `if (max == 0) return 0;` then DIVIDE every absolute value by `max` and return
`max * sqrt (Σ (|xᵢ|/max)²)` -/
def tinyFin2 (sqrt : α → α) (ax ay m : α) : α :=
  if m = 0 then 0 else m * sqrt (ax / m * (ax / m) + ay / m * (ay / m))
def tinyFin3 (sqrt : α → α) (ax ay az m : α) : α :=
  if m = 0 then 0 else m * sqrt (ax / m * (ax / m) + ay / m * (ay / m) + az / m * (az / m))
def tinyFin4 (sqrt : α → α) (ax ay az aw m : α) : α :=
  if m = 0 then 0 else m * sqrt (ax / m * (ax / m) + ay / m * (ay / m) + az / m * (az / m) + aw / m * (aw / m))

/-- `lengthTiny()` on the absolute values: running maximum by strict `<`, then `tinyFinN` -/
def tinyCore2 (sqrt : α → α) (ax ay : α) : α := tinyFin2 sqrt ax ay (maxLt ax ay)
def tinyCore3 (sqrt : α → α) (ax ay az : α) : α := tinyFin3 sqrt ax ay az (maxLt (maxLt ax ay) az)
def tinyCore4 (sqrt : α → α) (ax ay az aw : α) : α := tinyFin4 sqrt ax ay az aw (maxLt (maxLt (maxLt ax ay) az) aw)

/-- `Vec2<T>::lengthTiny()` as written (`std::abs`, running maximum, early 0, divisions by `max`) -/
def lengthTinySpec2 (sqrt : α → α) (a : V2 α) : α := tinyCore2 sqrt (sabs a.x) (sabs a.y)

/-- `Vec3<T>::lengthTiny()` as written (`(x >= 0) ? x : -x`, running maximum, early 0, divisions by `max`) -/
def lengthTinySpec3 (sqrt : α → α) (a : V3 α) : α := tinyCore3 sqrt (absGe a.x) (absGe a.y) (absGe a.z)

/-- `Vec4<T>::lengthTiny()` as written -/
def lengthTinySpec4 (sqrt : α → α) (a : V4 α) : α := tinyCore4 sqrt (absGe a.x) (absGe a.y) (absGe a.z) (absGe a.w)

/-- the guard of `length()`: `length2 < T(2) * min() || length2 > max()` -/
def scaledGuard (tmin tmax dot : α) : Prop := dot < 2 * tmin ∨ tmax < dot

instance (tmin tmax dot : α) : Decidable (scaledGuard tmin tmax dot) := by unfold scaledGuard; infer_instance

/-! ### peeling lemmas: one `if` of the emitted tree against one step of the specification (pure logic) -/

/-- the short-circuit `||` of the guard: the emitted tree tests the second disjunct only when the first is false -/
theorem peel_guard {β : Type} {tmin tmax d : α} {A B C S T : β}
    (h1 : d < 2 * tmin → A = T) (h2 : ¬ d < 2 * tmin → tmax < d → B = T) (h3 : ¬ d < 2 * tmin → ¬ tmax < d → C = S) :
    (if d < 2 * tmin then A else if tmax < d then B else C) = if scaledGuard tmin tmax d then T else S := by
  by_cases c1 : d < 2 * tmin
  · have hg : scaledGuard tmin tmax d := Or.inl c1
    rw [if_pos c1, if_pos hg]; exact h1 c1
  · by_cases c2 : tmax < d
    · have hg : scaledGuard tmin tmax d := Or.inr c2
      rw [if_neg c1, if_pos c2, if_pos hg]; exact h2 c1 c2
    · have hg : ¬ scaledGuard tmin tmax d := fun h => h.elim c1 c2
      rw [if_neg c1, if_neg c2, if_neg hg]; exact h3 c1 c2

/-- one `(x >= 0) ? x : -x` -/
theorem peel_abs {β : Type} (x : α) (F : α → β) {A B : β} (h1 : (0 : α) ≤ x → A = F x) (h2 : ¬ (0 : α) ≤ x → B = F (-x)) :
    (if (0 : α) ≤ x then A else B) = F (absGe x) := by
  unfold absGe
  by_cases c : (0 : α) ≤ x
  · rw [if_pos c, if_pos c]; exact h1 c
  · rw [if_neg c, if_neg c]; exact h2 c

/-- one `if (max < b) max = b;` -/
theorem peel_max {β : Type} (p q : α) (F : α → β) {A B : β} (h1 : p < q → A = F q) (h2 : ¬ p < q → B = F p) :
    (if p < q then A else B) = F (maxLt p q) := by
  unfold maxLt
  by_cases c : p < q
  · rw [if_pos c, if_pos c]; exact h1 c
  · rw [if_neg c, if_neg c]; exact h2 c

/-! ## `length()` -/

/-- SHAPE of `Vec2<T>::length()`: the scaled algorithm exactly when `dot < 2*tmin ∨ tmax < dot`, else `sqrt dot` -/
theorem V2_length_shape (tmin tmax : α) (sqrt : α → α) (a : V2 α) :
    Gen.V2.length tmin tmax sqrt a =
      if scaledGuard tmin tmax (Gen.C08.V2.dot a a) then lengthTinySpec2 sqrt a else sqrt (Gen.C08.V2.dot a a) := by
  obtain ⟨x, y⟩ := a
  simp only [Gen.V2.length, Gen.C08.V2.dot, lengthTinySpec2, tinyCore2]
  refine peel_guard (fun _ => ?_) (fun _ _ => ?_) (fun _ _ => rfl) <;>
  exact peel_max _ _ (fun t => tinyFin2 sqrt _ _ t) (fun _ => rfl) (fun _ => rfl)

/-- SHAPE of `Vec3<T>::length()` -/
theorem V3_length_shape (tmin tmax : α) (sqrt : α → α) (a : V3 α) :
    Gen.V3.length tmin tmax sqrt a =
      if scaledGuard tmin tmax (Gen.C08.V3.dot a a) then lengthTinySpec3 sqrt a else sqrt (Gen.C08.V3.dot a a) := by
  obtain ⟨x, y, z⟩ := a
  simp (config := { maxSteps := 10000000 }) only [Gen.V3.length, Gen.C08.V3.dot, lengthTinySpec3]
  refine peel_guard (fun _ => ?_) (fun _ _ => ?_) (fun _ _ => rfl) <;>
  refine peel_abs x (fun t => tinyCore3 sqrt t (absGe y) (absGe z)) (fun _ => ?_) (fun _ => ?_) <;>
  refine peel_abs y (fun t => tinyCore3 sqrt _ t (absGe z)) (fun _ => ?_) (fun _ => ?_) <;>
  refine peel_abs z (fun t => tinyCore3 sqrt _ _ t) (fun _ => ?_) (fun _ => ?_) <;>
  refine peel_max _ _ (fun t => tinyFin3 sqrt _ _ _ (maxLt t _)) (fun _ => ?_) (fun _ => ?_) <;>
  exact peel_max _ _ (fun t => tinyFin3 sqrt _ _ _ t) (fun _ => rfl) (fun _ => rfl)

/-- SHAPE of `Vec4<T>::length()` (513 paths) -/
theorem V4_length_shape (tmin tmax : α) (sqrt : α → α) (a : V4 α) :
    Gen.V4.length tmin tmax sqrt a =
      if scaledGuard tmin tmax (Gen.C08.V4.dot a a) then lengthTinySpec4 sqrt a else sqrt (Gen.C08.V4.dot a a) := by
  obtain ⟨x, y, z, w⟩ := a
  simp (config := { maxSteps := 10000000 }) only [Gen.V4.length, Gen.C08.V4.dot, lengthTinySpec4]
  refine peel_guard (fun _ => ?_) (fun _ _ => ?_) (fun _ _ => rfl) <;>
  refine peel_abs x (fun t => tinyCore4 sqrt t (absGe y) (absGe z) (absGe w)) (fun _ => ?_) (fun _ => ?_) <;>
  refine peel_abs y (fun t => tinyCore4 sqrt _ t (absGe z) (absGe w)) (fun _ => ?_) (fun _ => ?_) <;>
  refine peel_abs z (fun t => tinyCore4 sqrt _ _ t (absGe w)) (fun _ => ?_) (fun _ => ?_) <;>
  refine peel_abs w (fun t => tinyCore4 sqrt _ _ _ t) (fun _ => ?_) (fun _ => ?_) <;>
  refine peel_max _ _ (fun t => tinyFin4 sqrt _ _ _ _ (maxLt (maxLt t _) _)) (fun _ => ?_) (fun _ => ?_) <;>
  refine peel_max _ _ (fun t => tinyFin4 sqrt _ _ _ _ (maxLt t _)) (fun _ => ?_) (fun _ => ?_) <;>
  exact peel_max _ _ (fun t => tinyFin4 sqrt _ _ _ _ t) (fun _ => rfl) (fun _ => rfl)

/-! ## the six normalize forms: `l := length(); if l = 0 then … else ⟨xᵢ / l⟩` (true division, limits in the order `tmin tmax`) -/

/-- SHAPE of `Vec2<T>::normalize()`: in place: the vector is left unchanged when `length() = 0`; otherwise every component DIVIDED by `length()` -/
theorem V2_normalize_shape (tmin tmax : α) (sqrt : α → α) (a : V2 α) :
    Gen.C08.V2.normalize tmin tmax sqrt a =
      (if Gen.V2.length tmin tmax sqrt a = 0 then a else ⟨a.x / Gen.V2.length tmin tmax sqrt a, a.y / Gen.V2.length tmin tmax sqrt a⟩ : V2 α) := by rfl

/-- SHAPE of `Vec2<T>::normalizeExc()`: throws `std::domain_error` when `length() = 0`; otherwise every component DIVIDED by `length()` -/
theorem V2_normalizeExc_shape (tmin tmax : α) (sqrt : α → α) (a : V2 α) :
    Gen.C08.V2.normalizeExc tmin tmax sqrt a =
      (if Gen.V2.length tmin tmax sqrt a = 0 then .error Exc.domainError else .ok ⟨a.x / Gen.V2.length tmin tmax sqrt a, a.y / Gen.V2.length tmin tmax sqrt a⟩ : Except Exc (V2 α)) := by rfl

/-- SHAPE of `Vec2<T>::normalizeNonNull()`: no test at all, every component DIVIDED by `length()` -/
theorem V2_normalizeNonNull_shape (tmin tmax : α) (sqrt : α → α) (a : V2 α) :
    Gen.C08.V2.normalizeNonNull tmin tmax sqrt a =
      (⟨a.x / Gen.V2.length tmin tmax sqrt a, a.y / Gen.V2.length tmin tmax sqrt a⟩ : V2 α) := by rfl

/-- SHAPE of `Vec2<T>::normalized()`: the zero vector when `length() = 0`; otherwise every component DIVIDED by `length()` -/
theorem V2_normalized_shape (tmin tmax : α) (sqrt : α → α) (a : V2 α) :
    Gen.C08.V2.normalized tmin tmax sqrt a =
      (if Gen.V2.length tmin tmax sqrt a = 0 then ⟨0, 0⟩ else ⟨a.x / Gen.V2.length tmin tmax sqrt a, a.y / Gen.V2.length tmin tmax sqrt a⟩ : V2 α) := by rfl

/-- SHAPE of `Vec2<T>::normalizedExc()`: throws `std::domain_error` when `length() = 0`; otherwise every component DIVIDED by `length()` -/
theorem V2_normalizedExc_shape (tmin tmax : α) (sqrt : α → α) (a : V2 α) :
    Gen.C08.V2.normalizedExc tmin tmax sqrt a =
      (if Gen.V2.length tmin tmax sqrt a = 0 then .error Exc.domainError else .ok ⟨a.x / Gen.V2.length tmin tmax sqrt a, a.y / Gen.V2.length tmin tmax sqrt a⟩ : Except Exc (V2 α)) := by rfl

/-- SHAPE of `Vec2<T>::normalizedNonNull()`: no test at all, every component DIVIDED by `length()` -/
theorem V2_normalizedNonNull_shape (tmin tmax : α) (sqrt : α → α) (a : V2 α) :
    Gen.C08.V2.normalizedNonNull tmin tmax sqrt a =
      (⟨a.x / Gen.V2.length tmin tmax sqrt a, a.y / Gen.V2.length tmin tmax sqrt a⟩ : V2 α) := by rfl

/-- SHAPE of `Vec3<T>::normalize()`: in place: the vector is left unchanged when `length() = 0`; otherwise every component DIVIDED by `length()` -/
theorem V3_normalize_shape (tmin tmax : α) (sqrt : α → α) (a : V3 α) :
    Gen.C08.V3.normalize tmin tmax sqrt a =
      (if Gen.V3.length tmin tmax sqrt a = 0 then a else ⟨a.x / Gen.V3.length tmin tmax sqrt a, a.y / Gen.V3.length tmin tmax sqrt a, a.z / Gen.V3.length tmin tmax sqrt a⟩ : V3 α) := by rfl

/-- SHAPE of `Vec3<T>::normalizeExc()`: throws `std::domain_error` when `length() = 0`; otherwise every component DIVIDED by `length()` -/
theorem V3_normalizeExc_shape (tmin tmax : α) (sqrt : α → α) (a : V3 α) :
    Gen.C08.V3.normalizeExc tmin tmax sqrt a =
      (if Gen.V3.length tmin tmax sqrt a = 0 then .error Exc.domainError else .ok ⟨a.x / Gen.V3.length tmin tmax sqrt a, a.y / Gen.V3.length tmin tmax sqrt a, a.z / Gen.V3.length tmin tmax sqrt a⟩ : Except Exc (V3 α)) := by rfl

/-- SHAPE of `Vec3<T>::normalizeNonNull()`: no test at all, every component DIVIDED by `length()` -/
theorem V3_normalizeNonNull_shape (tmin tmax : α) (sqrt : α → α) (a : V3 α) :
    Gen.C08.V3.normalizeNonNull tmin tmax sqrt a =
      (⟨a.x / Gen.V3.length tmin tmax sqrt a, a.y / Gen.V3.length tmin tmax sqrt a, a.z / Gen.V3.length tmin tmax sqrt a⟩ : V3 α) := by rfl

/-- SHAPE of `Vec3<T>::normalized()`: the zero vector when `length() = 0`; otherwise every component DIVIDED by `length()` -/
theorem V3_normalized_shape (tmin tmax : α) (sqrt : α → α) (a : V3 α) :
    Gen.C08.V3.normalized tmin tmax sqrt a =
      (if Gen.V3.length tmin tmax sqrt a = 0 then ⟨0, 0, 0⟩ else ⟨a.x / Gen.V3.length tmin tmax sqrt a, a.y / Gen.V3.length tmin tmax sqrt a, a.z / Gen.V3.length tmin tmax sqrt a⟩ : V3 α) := by rfl

/-- SHAPE of `Vec3<T>::normalizedExc()`: throws `std::domain_error` when `length() = 0`; otherwise every component DIVIDED by `length()` -/
theorem V3_normalizedExc_shape (tmin tmax : α) (sqrt : α → α) (a : V3 α) :
    Gen.C08.V3.normalizedExc tmin tmax sqrt a =
      (if Gen.V3.length tmin tmax sqrt a = 0 then .error Exc.domainError else .ok ⟨a.x / Gen.V3.length tmin tmax sqrt a, a.y / Gen.V3.length tmin tmax sqrt a, a.z / Gen.V3.length tmin tmax sqrt a⟩ : Except Exc (V3 α)) := by rfl

/-- SHAPE of `Vec3<T>::normalizedNonNull()`: no test at all, every component DIVIDED by `length()` -/
theorem V3_normalizedNonNull_shape (tmin tmax : α) (sqrt : α → α) (a : V3 α) :
    Gen.C08.V3.normalizedNonNull tmin tmax sqrt a =
      (⟨a.x / Gen.V3.length tmin tmax sqrt a, a.y / Gen.V3.length tmin tmax sqrt a, a.z / Gen.V3.length tmin tmax sqrt a⟩ : V3 α) := by rfl

/-- SHAPE of `Vec4<T>::normalize()`: in place: the vector is left unchanged when `length() = 0`; otherwise every component DIVIDED by `length()` -/
theorem V4_normalize_shape (tmin tmax : α) (sqrt : α → α) (a : V4 α) :
    Gen.C08.V4.normalize tmin tmax sqrt a =
      (if Gen.V4.length tmin tmax sqrt a = 0 then a else ⟨a.x / Gen.V4.length tmin tmax sqrt a, a.y / Gen.V4.length tmin tmax sqrt a, a.z / Gen.V4.length tmin tmax sqrt a, a.w / Gen.V4.length tmin tmax sqrt a⟩ : V4 α) := by rfl

/-- SHAPE of `Vec4<T>::normalizeExc()`: throws `std::domain_error` when `length() = 0`; otherwise every component DIVIDED by `length()` -/
theorem V4_normalizeExc_shape (tmin tmax : α) (sqrt : α → α) (a : V4 α) :
    Gen.C08.V4.normalizeExc tmin tmax sqrt a =
      (if Gen.V4.length tmin tmax sqrt a = 0 then .error Exc.domainError else .ok ⟨a.x / Gen.V4.length tmin tmax sqrt a, a.y / Gen.V4.length tmin tmax sqrt a, a.z / Gen.V4.length tmin tmax sqrt a, a.w / Gen.V4.length tmin tmax sqrt a⟩ : Except Exc (V4 α)) := by rfl

/-- SHAPE of `Vec4<T>::normalizeNonNull()`: no test at all, every component DIVIDED by `length()` -/
theorem V4_normalizeNonNull_shape (tmin tmax : α) (sqrt : α → α) (a : V4 α) :
    Gen.C08.V4.normalizeNonNull tmin tmax sqrt a =
      (⟨a.x / Gen.V4.length tmin tmax sqrt a, a.y / Gen.V4.length tmin tmax sqrt a, a.z / Gen.V4.length tmin tmax sqrt a, a.w / Gen.V4.length tmin tmax sqrt a⟩ : V4 α) := by rfl

/-- SHAPE of `Vec4<T>::normalized()`: the zero vector when `length() = 0`; otherwise every component DIVIDED by `length()` -/
theorem V4_normalized_shape (tmin tmax : α) (sqrt : α → α) (a : V4 α) :
    Gen.C08.V4.normalized tmin tmax sqrt a =
      (if Gen.V4.length tmin tmax sqrt a = 0 then ⟨0, 0, 0, 0⟩ else ⟨a.x / Gen.V4.length tmin tmax sqrt a, a.y / Gen.V4.length tmin tmax sqrt a, a.z / Gen.V4.length tmin tmax sqrt a, a.w / Gen.V4.length tmin tmax sqrt a⟩ : V4 α) := by rfl

/-- SHAPE of `Vec4<T>::normalizedExc()`: throws `std::domain_error` when `length() = 0`; otherwise every component DIVIDED by `length()` -/
theorem V4_normalizedExc_shape (tmin tmax : α) (sqrt : α → α) (a : V4 α) :
    Gen.C08.V4.normalizedExc tmin tmax sqrt a =
      (if Gen.V4.length tmin tmax sqrt a = 0 then .error Exc.domainError else .ok ⟨a.x / Gen.V4.length tmin tmax sqrt a, a.y / Gen.V4.length tmin tmax sqrt a, a.z / Gen.V4.length tmin tmax sqrt a, a.w / Gen.V4.length tmin tmax sqrt a⟩ : Except Exc (V4 α)) := by rfl

/-- SHAPE of `Vec4<T>::normalizedNonNull()`: no test at all, every component DIVIDED by `length()` -/
theorem V4_normalizedNonNull_shape (tmin tmax : α) (sqrt : α → α) (a : V4 α) :
    Gen.C08.V4.normalizedNonNull tmin tmax sqrt a =
      (⟨a.x / Gen.V4.length tmin tmax sqrt a, a.y / Gen.V4.length tmin tmax sqrt a, a.z / Gen.V4.length tmin tmax sqrt a, a.w / Gen.V4.length tmin tmax sqrt a⟩ : V4 α) := by rfl

end

/-! ## non-vacuity: the shape theorems see what the value theorems cannot

With a `sqrt` that is NOT a square root (the constant 7) the two branches of `length()` return different values, so the
equations above really distinguish them: the direct branch returns `sqrt dot = 7`, the scaled branch `max * 7`. -/

example : Gen.V2.length (1 : ℚ) 1000 (fun _ => 7) ⟨3, 4⟩ = 7 := by
  rw [V2_length_shape]; norm_num [scaledGuard, Gen.C08.V2.dot]
example : Gen.V2.length (100 : ℚ) 1000 (fun _ => 7) ⟨3, 4⟩ = 28 := by
  rw [V2_length_shape]
  norm_num [scaledGuard, Gen.C08.V2.dot, lengthTinySpec2, tinyCore2, tinyFin2, maxLt, sabs]
example : Gen.V2.length (1 : ℚ) 10 (fun _ => 7) ⟨3, 4⟩ = 28 := by
  rw [V2_length_shape]
  norm_num [scaledGuard, Gen.C08.V2.dot, lengthTinySpec2, tinyCore2, tinyFin2, maxLt, sabs]
/-- at `dot = 2 * tmin` exactly the DIRECT branch is taken (strict `<`), at `dot = tmax` exactly as well -/
example : Gen.V2.length ((25 : ℚ) / 2) 1000 (fun _ => 7) ⟨3, 4⟩ = 7 := by
  rw [V2_length_shape]; norm_num [scaledGuard, Gen.C08.V2.dot]
example : Gen.V2.length (1 : ℚ) 25 (fun _ => 7) ⟨3, 4⟩ = 7 := by
  rw [V2_length_shape]; norm_num [scaledGuard, Gen.C08.V2.dot]
example : Gen.V3.length (1000 : ℚ) 2000 (fun _ => 7) ⟨2, -3, -6⟩ = 42 ∧ Gen.V3.length (1 : ℚ) 2000 (fun _ => 7) ⟨2, -3, -6⟩ = 7 := by
  constructor <;> rw [V3_length_shape] <;>
    norm_num [scaledGuard, Gen.C08.V3.dot, lengthTinySpec3, tinyCore3, tinyFin3, maxLt, absGe]
example : Gen.V4.length (1 : ℚ) 10 (fun _ => 7) ⟨1, -2, 2, -4⟩ = 28 ∧ Gen.V4.length (1 : ℚ) 25 (fun _ => 7) ⟨1, -2, 2, -4⟩ = 7 := by
  constructor <;> rw [V4_length_shape] <;>
    norm_num [scaledGuard, Gen.C08.V4.dot, lengthTinySpec4, tinyCore4, tinyFin4, maxLt, absGe]
/-- the quotient of the normalize forms is a division by `length()` (here 7), not by anything else -/
example : Gen.C08.V2.normalized (1 : ℚ) 1000 (fun _ => 7) ⟨3, 4⟩ = ⟨3 / 7, 4 / 7⟩ := by
  have h : Gen.V2.length (1 : ℚ) 1000 (fun _ => 7) ⟨3, 4⟩ = 7 := by
    rw [V2_length_shape]; norm_num [scaledGuard, Gen.C08.V2.dot]
  rw [V2_normalized_shape, h]; norm_num

end ImathVerif.C08
