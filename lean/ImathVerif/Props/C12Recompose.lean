import ImathVerif.Props.C12
/-!
# C12 — full-strength recomposition of the 2-D `sansScaling` / `removeScaling (Matrix33)`

"sansScaling/removeScaling return shear*rotation*translation" (property C12), stated at FULL strength for the
functions regenerated from the current ImathMatrixAlgo.h.  On a tree whose 2-D `sansScaling` recomposes with
`M.translate (tran); M.rotate (rot); M.shear (shr)` these theorems do NOT elaborate: `Matrix33::rotate`
post-multiplies, which yields shear * translation * rotation (Props/C12Defect.lean proves that this is what the
code computes and refutes the statement on the 3-4-5 witness; tools/props/c12.py replays it on the real code).
What holds regardless is `M33_sansScaling_recompose_partial` in Props/C12.lean.
-/
namespace ImathVerif.C12
open ImathVerif ImathVerif.SHRT Matrix
set_option linter.unusedSectionVars false
variable {α : Type} [Field α] [LinearOrder α] [IsStrictOrderedRing α]

/-- `sansScaling (Matrix33)` = shear * rotation * translation, hence `scale * sansScaling (m) = m` -/
theorem M33_sansScaling_recompose {tmin tmax : α} {sqrt sin cos : α → α} {atan2 : α → α → α}
    (hs : SqrtSpec sqrt) (ht : TrigSpec sin cos atan2) {m : M33 α} (ha : Affine2 m) {r : Res2 α}
    (he : ear33 tmax (Gen.V2.length tmin sqrt) m = some r) :
    (Gen.M33.sansScaling tmin tmax sqrt sin cos atan2 m).toMat = shearH2 r.shr * linH2 r.m * transH2 ⟨m.x20, m.x21⟩ ∧
    scaleH2 r.scl * (Gen.M33.sansScaling tmin tmax sqrt sin cos atan2 m).toMat = m.toMat := by
  have key : (Gen.M33.sansScaling tmin tmax sqrt sin cos atan2 m).toMat =
      shearH2 r.shr * linH2 r.m * transH2 ⟨m.x20, m.x21⟩ := by
    obtain ⟨e, ho, hd, _⟩ := ear33_spec (V2_length_spec hs) he
    obtain ⟨h0, e11, e01, hc⟩ := rot2_shape ho hd
    obtain ⟨e1, e2, e3, e4⟩ := ear33_adapters_some he
    obtain ⟨m00, m01, m02, m10, m11, m12, m20, m21, m22⟩ := m
    obtain ⟨⟨R00, R01, R02, R10, R11, R12, R20, R21, R22⟩, scl, shr⟩ := r
    simp only at h0 e11 e01 hc e2 e4
    subst e11 e01
    have l0 := len_eq_one (V2_length_spec (tmin := tmin) hs) R11 (-R10) h0
    have l1 : Gen.V2.length tmin sqrt ⟨R10, R11⟩ = 1 := by
      apply len_eq_one (V2_length_spec hs); rw [← hc]; ring
    obtain ⟨tc, ts⟩ := ht R11 R10 hc
    simp only [Gen.M33.sansScaling, e1, e2, e4, l0, l1, one_ne_zero, if_false, div_one, tc, ts]
    ext i j
    fin_cases i <;> fin_cases j <;>
      simp [M33.toMat, shearH2, transH2, linH2, Matrix.mul_apply, Fin.sum_univ_three] <;> ring
  refine ⟨key, ?_⟩
  obtain ⟨e, _⟩ := ear33_spec (V2_length_spec hs) he
  rw [key, ← Matrix.mul_assoc, ← Matrix.mul_assoc]
  exact homog2 ha e

/-- `removeScaling (Matrix33)`: returns true and leaves shear * rotation * translation in `m` -/
theorem M33_removeScaling_recompose {tmin tmax : α} {sqrt sin cos : α → α} {atan2 : α → α → α}
    (hs : SqrtSpec sqrt) (ht : TrigSpec sin cos atan2) {m : M33 α} (ha : Affine2 m) {r : Res2 α}
    (he : ear33 tmax (Gen.V2.length tmin sqrt) m = some r) :
    (Gen.M33.removeScaling tmin tmax sqrt sin cos atan2 m).1 = true ∧
    (Gen.M33.removeScaling tmin tmax sqrt sin cos atan2 m).2.toMat = shearH2 r.shr * linH2 r.m * transH2 ⟨m.x20, m.x21⟩ ∧
    scaleH2 r.scl * (Gen.M33.removeScaling tmin tmax sqrt sin cos atan2 m).2.toMat = m.toMat := by
  rw [M33_removeScaling, he]
  exact ⟨rfl, M33_sansScaling_recompose hs ht ha he⟩

end ImathVerif.C12
