import ImathVerif.Props.C12
/-!
# C12 — full-strength recomposition of the 2-D `sansScaling` / `removeScaling (Matrix33)`

"sansScaling/removeScaling return shear*rotation*translation" (property C12), stated at FULL strength for the
functions regenerated from the current ImathMatrixAlgo.h.  These theorems did NOT hold before /repo commit ec5bcdd:
the functions recomposed with `M.translate (tran); M.rotate (rot); M.shear (shr)` and `Matrix33::rotate`
post-multiplies, which gave shear * translation * rotation — on the witness `W345` (rotation by the 3-4-5 angle,
translation (3,4), unit scale, no shear) the translation row came back as (0,5).  If that recomposition returns,
they stop elaborating and tools/props/c12.py reports `theorem:M33_sansScaling_recompose` /
`theorem:M33_removeScaling_recompose` with the witness replayed on the real code.  The last two theorems pin the
witness: the functions now return it unchanged, translation row (3,4).
-/
namespace ImathVerif.C12
open ImathVerif ImathVerif.SHRT Matrix
set_option linter.unusedSectionVars false
variable {α : Type} [Field α] [LinearOrder α] [IsStrictOrderedRing α]

/-- `sansScaling (Matrix33)` = shear * rotation * translation, hence `scale * sansScaling (m) = m` -/
theorem M33_sansScaling_recompose {tmin tmax : α} {sqrt sin cos : α → α} {atan2 : α → α → α}
    (hs : SqrtSpec sqrt) (ht : TrigSpec sin cos atan2) {m : M33 α} (ha : Affine2 m) {r : Res2 α}
    (he : ear33 tmax (Gen.V2.length tmin tmax sqrt) m = some r) :
    (Gen.M33.sansScaling tmin tmax sqrt sin cos atan2 m).toMat = shearH2 r.shr * linH2 r.m * transH2 ⟨m.x20, m.x21⟩ ∧
    scaleH2 r.scl * (Gen.M33.sansScaling tmin tmax sqrt sin cos atan2 m).toMat = m.toMat := by
  have key : (Gen.M33.sansScaling tmin tmax sqrt sin cos atan2 m).toMat =
      shearH2 r.shr * linH2 r.m * transH2 ⟨m.x20, m.x21⟩ := by
    obtain ⟨e, ho, hd, _⟩ := ear33_spec (V2_length_spec hs) he
    obtain ⟨h0, e11, e01, hc⟩ := rot2_shape ho hd
    obtain ⟨e1, e2, e3, e4⟩ := ear33_adapters_some he
    obtain ⟨m00, m01, m02, m10, m11, m12, m20, m21, m22⟩ := m
    obtain ⟨⟨R00, R01, R02, R10, R11, R12, R20, R21, R22⟩, scl, shr⟩ := r
    simp only at h0 e11 e01 hc e2 e4
    subst e11 e01
    have l0 := len_eq_one (V2_length_spec (tmin := tmin) (tmax := tmax) hs) R11 (-R10) h0
    have l1 : Gen.V2.length tmin tmax sqrt ⟨R10, R11⟩ = 1 := by
      apply len_eq_one (V2_length_spec hs); rw [← hc]; ring
    obtain ⟨tc, ts⟩ := ht R11 R10 hc
    simp only [Gen.M33.sansScaling, e1, e2, e4, l0, l1, one_ne_zero, if_false, div_one, tc, ts]
    ext i j
    fin_cases i <;> fin_cases j <;>
      simp [M33.toMat, shearH2, transH2, linH2, Matrix.mul_apply, Fin.sum_univ_three] <;> ring
  refine ⟨key, ?_⟩
  obtain ⟨e, _⟩ := ear33_spec (V2_length_spec hs) he
  rw [key, ← Matrix.mul_assoc, ← Matrix.mul_assoc]
  exact homog2 ha e

/-- `removeScaling (Matrix33)`: returns true and leaves shear * rotation * translation in `m` -/
theorem M33_removeScaling_recompose {tmin tmax : α} {sqrt sin cos : α → α} {atan2 : α → α → α}
    (hs : SqrtSpec sqrt) (ht : TrigSpec sin cos atan2) {m : M33 α} (ha : Affine2 m) {r : Res2 α}
    (he : ear33 tmax (Gen.V2.length tmin tmax sqrt) m = some r) :
    (Gen.M33.removeScaling tmin tmax sqrt sin cos atan2 m).1 = true ∧
    (Gen.M33.removeScaling tmin tmax sqrt sin cos atan2 m).2.toMat = shearH2 r.shr * linH2 r.m * transH2 ⟨m.x20, m.x21⟩ ∧
    scaleH2 r.scl * (Gen.M33.removeScaling tmin tmax sqrt sin cos atan2 m).2.toMat = m.toMat := by
  rw [M33_removeScaling, he]
  exact ⟨rfl, M33_sansScaling_recompose hs ht ha he⟩

/-- the former counterexample: `sansScaling` of the 3-4-5 rotation with translation (3, 4) (unit scale, zero shear)
is that matrix itself — in particular its translation row is (3, 4), not the rotated (0, 5) -/
theorem M33_sansScaling_witness {tmin tmax : α} {sqrt sin cos : α → α} {atan2 : α → α → α}
    (hs : SqrtSpec sqrt) (ht : TrigSpec sin cos atan2) (htm : 1 < tmax) :
    (Gen.M33.sansScaling tmin tmax sqrt sin cos atan2 W345).toMat = (W345 : M33 α).toMat ∧
    (Gen.M33.sansScaling tmin tmax sqrt sin cos atan2 W345).x20 = 3 ∧
    (Gen.M33.sansScaling tmin tmax sqrt sin cos atan2 W345).x21 = 4 := by
  have he := ear33_W345 htm (V2_length_spec (tmin := tmin) (tmax := tmax) hs)
  have h := (M33_sansScaling_recompose (sin := sin) (cos := cos) (atan2 := atan2) hs ht ⟨rfl, rfl, rfl⟩ he).2
  have e : scaleH2 (⟨1, 1⟩ : V2 α) = 1 := by
    ext i j; fin_cases i <;> fin_cases j <;> simp [scaleH2]
  simp only [e, Matrix.one_mul] at h
  refine ⟨h, ?_, ?_⟩
  · have := congrFun (congrFun h 2) 0
    simpa [M33.toMat, W345] using this
  · have := congrFun (congrFun h 2) 1
    simpa [M33.toMat, W345] using this

theorem M33_removeScaling_witness {tmin tmax : α} {sqrt sin cos : α → α} {atan2 : α → α → α}
    (hs : SqrtSpec sqrt) (ht : TrigSpec sin cos atan2) (htm : 1 < tmax) :
    (Gen.M33.removeScaling tmin tmax sqrt sin cos atan2 W345).1 = true ∧
    (Gen.M33.removeScaling tmin tmax sqrt sin cos atan2 W345).2.x20 = 3 ∧
    (Gen.M33.removeScaling tmin tmax sqrt sin cos atan2 W345).2.x21 = 4 := by
  rw [M33_removeScaling, ear33_W345 htm (V2_length_spec (tmin := tmin) (tmax := tmax) hs)]
  exact ⟨rfl, (M33_sansScaling_witness hs ht htm).2⟩

/-- over ℝ with the real square root, sine, cosine and `atan2 y x = arg (x + iy)` -/
example : (Gen.M33.sansScaling (1 / 1024 : ℝ) 2 Real.sqrt Real.sin Real.cos (fun y x => Complex.arg ⟨x, y⟩) W345).x20 = 3 ∧
    (Gen.M33.sansScaling (1 / 1024 : ℝ) 2 Real.sqrt Real.sin Real.cos (fun y x => Complex.arg ⟨x, y⟩) W345).x21 = 4 :=
  (M33_sansScaling_witness (fun x hx => ⟨Real.sqrt_nonneg x, Real.mul_self_sqrt hx⟩) trigSpec_real (by norm_num)).2

/-! ## Unconditional forms (2-D): every affine `M` with non-singular linear part, `1 < numeric_limits<T>::max ()` -/

/-- `sansScaling` / `removeScaling (Matrix33)`: succeed, and `scale * result = M` for the scale `extractScaling` reports -/
theorem M33_sansScaling_total {tmin tmax : α} {sqrt sin cos : α → α} {atan2 : α → α → α}
    (hs : SqrtSpec sqrt) (ht : TrigSpec sin cos atan2) (h1 : 1 < tmax) {m : M33 α} (ha : Affine2 m) (hd : (lin2 m).det ≠ 0) :
    ∃ s, Gen.M33.extractScaling tmin tmax sqrt m = (true, s) ∧
      scaleH2 s * (Gen.M33.sansScaling tmin tmax sqrt sin cos atan2 m).toMat = m.toMat ∧
      Gen.M33.removeScaling tmin tmax sqrt sin cos atan2 m = (true, Gen.M33.sansScaling tmin tmax sqrt sin cos atan2 m) := by
  obtain ⟨r, he⟩ := Option.isSome_iff_exists.mp ((M33_extractAndRemoveScalingAndShear_succeeds_iff (tmin := tmin) hs h1 m).mpr hd)
  exact ⟨r.scl, by rw [M33_extractScaling, he], (M33_sansScaling_recompose hs ht ha he).2, by rw [M33_removeScaling, he]⟩

/-- `extractScalingAndShear`, `sansScalingAndShear`, `removeScalingAndShear (Matrix33)`: succeed, the residual `R` is a rotation
(orthonormal, determinant +1) with the translation row of `M`, and `scale * shear * R = M` -/
theorem M33_sansScalingAndShear_total {tmin tmax : α} {sqrt : α → α}
    (hs : SqrtSpec sqrt) (h1 : 1 < tmax) {m : M33 α} (ha : Affine2 m) (hd : (lin2 m).det ≠ 0) :
    ∃ s h, Gen.M33.extractScalingAndShear tmin tmax sqrt m = (true, s, h) ∧ Gen.M33.extractScaling tmin tmax sqrt m = (true, s) ∧
      Gen.M33.removeScalingAndShear tmin tmax sqrt m = (true, Gen.M33.sansScalingAndShear tmin tmax sqrt m) ∧
      Gen.M33.sansScalingAndShearExc tmin tmax sqrt m = .ok (Gen.M33.sansScalingAndShear tmin tmax sqrt m) ∧
      lin2 (Gen.M33.sansScalingAndShear tmin tmax sqrt m) * (lin2 (Gen.M33.sansScalingAndShear tmin tmax sqrt m))ᵀ = 1 ∧
      (lin2 (Gen.M33.sansScalingAndShear tmin tmax sqrt m)).det = 1 ∧
      scaleH2 s * shearH2 h * (Gen.M33.sansScalingAndShear tmin tmax sqrt m).toMat = m.toMat := by
  obtain ⟨r, he⟩ := Option.isSome_iff_exists.mp ((M33_extractAndRemoveScalingAndShear_succeeds_iff (tmin := tmin) hs h1 m).mpr hd)
  obtain ⟨e, ho, hdet, c0, c1, t0, t1, t2, _⟩ := ear33_spec (V2_length_spec hs) he
  have hS : Gen.M33.sansScalingAndShear tmin tmax sqrt m = r.m := by rw [M33_sansScalingAndShear, he]
  refine ⟨r.scl, r.shr, by rw [M33_extractScalingAndShear, he], by rw [M33_extractScaling, he],
    by rw [M33_removeScalingAndShear, he, hS], by rw [M33_sansScalingAndShearExc, he, hS], by rw [hS]; exact ho, by rw [hS]; exact hdet, ?_⟩
  rw [hS]
  have := homog2 ha e
  obtain ⟨a1, a2, a3⟩ := ha
  rw [← this]
  ext i j
  fin_cases i <;> fin_cases j <;>
    simp [M33.toMat, scaleH2, shearH2, linH2, transH2, Matrix.mul_apply, Fin.sum_univ_three, c0, c1, t0, t1, t2, a1, a2, a3]

end ImathVerif.C12
