import ImathVerif.Props.C15
import ImathVerif.Props.C16
import ImathVerif.Props.C16Cull
/-!
# C16 ⇄ C15: `planes (p, M)` equals the planes of `planes (p)` transformed by `Plane3::operator* (Matrix44)`

The clause "planes(M) equals those planes transformed by M".  The code does NOT compute `planes (p, M)` by applying
`Plane3::operator*`: it transforms the frustum's CORNER POINTS by `M` and sets each plane from three of them
(`planesM_*_struct`), whereas `plane * M` (ImathPlane.h; `Gen.Plane3.mulM44`, regenerated in Gen/C15PlaneMul.lean, C15's
extraction) rebuilds the plane from the images of three points it constructs itself (`d·n`, `d·n + D×n`, `d·n + D`).  Both routes
normalise.  Proved here:

* for every AFFINE `M` with `det3 M ≠ 0` (mirrored included: both routes flip the orientation together) each of the six planes of
  `planes (p, M)` is EQUAL — same normal, same distance — to `Gen.Plane3.mulM44` applied to the corresponding plane of
  `planes (p)` (`planesM_persp_eq_mulM44`, `planesM_ortho_eq_mulM44`);
* for an ARBITRARY 4×4 `M` (projective): as far as it goes — on every point `q * M` with non-zero homogeneous `w` the two plane
  equations are proportional with an explicit non-zero factor whose sign is the sign of the product of the `w`s of the construction
  points of the two routes (`plane_link_projective`); equality can fail by a common sign there;
* a witness over ℚ evaluating both routes independently (`witness_planeLink`).

Vocabulary: C15 speaks `ImathVerif.Geo` (`dot`, `signedDist`, `mulM44`, `Affine`, `det3`, `LenSpec`), C16 `FrustumSpec`; the bridges are
definitional (`rfl`) except for the two spellings of the length specification.
-/
set_option linter.unusedSimpArgs false
set_option linter.unusedSectionVars false
set_option linter.unusedVariables false
namespace ImathVerif.C16
open ImathVerif ImathVerif.FrustumSpec
variable {α : Type} [Field α] [LinearOrder α] [IsStrictOrderedRing α]

/-! ## bridges between the two vocabularies -/
theorem geo_mulM44 (p : V3 α) (m : M44 α) : Geo.mulM44 p m = Gen.V3.mulM44 p m := rfl
theorem geo_signedDist (pl : Plane3 α) (p : V3 α) : Geo.signedDist pl p = planeEval pl p := rfl
theorem geo_det3 (m : M44 α) : Geo.det3 m = det3 m := rfl
theorem geo_affine (m : M44 α) : Geo.Affine m ↔ IsAffine m := Iff.rfl
theorem geo_dot_self (v : V3 α) : Geo.dot v v = normSq v := rfl
theorem geo_lenSpec {len : V3 α → α} (h : LenSpec len) : Geo.LenSpec len := fun v => ⟨by rw [sq]; exact (h v).2, (h v).1⟩

/-! ## two unit-normal planes whose equations are positive multiples of each other are the same plane -/
theorem plane_eq_of_pos_multiple (P Q : Plane3 α) (hP : normSq P.normal = 1) (hQ : normSq Q.normal = 1) (c : α) (hc : 0 < c)
    (h : ∀ x : V3 α, planeEval P x = c * planeEval Q x) : P = Q := by
  have h0 := h ⟨0, 0, 0⟩
  have h1 := h ⟨1, 0, 0⟩
  have h2 := h ⟨0, 1, 0⟩
  have h3 := h ⟨0, 0, 1⟩
  simp only [planeEval, mul_zero, mul_one, add_zero, zero_add] at h0 h1 h2 h3
  have ex : P.normal.x = c * Q.normal.x := by linarith
  have ey : P.normal.y = c * Q.normal.y := by linarith
  have ez : P.normal.z = c * Q.normal.z := by linarith
  have ed : P.distance = c * Q.distance := by linarith
  have hc1 : c = 1 := by
    simp only [normSq] at hP hQ
    rw [ex, ey, ez] at hP
    have : c * c * (Q.normal.x * Q.normal.x + Q.normal.y * Q.normal.y + Q.normal.z * Q.normal.z) = 1 := by linarith
    rw [hQ, mul_one] at this
    have h' : (c - 1) * (c + 1) = 0 := by linarith
    rcases mul_eq_zero.mp h' with h4 | h4 <;> linarith
  rw [hc1, one_mul] at ex ey ez ed
  rcases P with ⟨⟨px, py, pz⟩, pd⟩
  rcases Q with ⟨⟨qx, qy, qz⟩, qd⟩
  simp only at ex ey ez ed
  rw [ex, ey, ez, ed]

/-- a plane set from three points, moved by an affine map with `det ≠ 0` (either orientation): its equation at the image of `q` is
`κ · det3 M` times the original plane's equation at `q`, with `κ > 0` -/
theorem planeThroughIf_affine_det {len : V3 α → α} (hl : LenSpec len) (M : M44 α) (h : IsAffine M) (hdet : det3 M ≠ 0)
    (p1 p2 p3 : V3 α) (hc : normSq (cross (vsub p2 p1) (vsub p3 p1)) ≠ 0) :
    ∃ κ : α, 0 < κ ∧ ∀ q : V3 α,
      planeEval (planeThroughIf len (Gen.V3.mulM44 p1 M) (Gen.V3.mulM44 p2 M) (Gen.V3.mulM44 p3 M)) (Gen.V3.mulM44 q M)
        = κ * det3 M * planeEval (planeThroughIf len p1 p2 p3) q := by
  have hc' := cross_affine_ne_zero M h hdet p1 p2 p3 hc
  have l0 := lenSpec_pos hl _ hc
  have l1 := lenSpec_pos hl _ hc'
  refine ⟨len (cross (vsub p2 p1) (vsub p3 p1)) /
    len (cross (vsub (Gen.V3.mulM44 p2 M) (Gen.V3.mulM44 p1 M)) (vsub (Gen.V3.mulM44 p3 M) (Gen.V3.mulM44 p1 M))), div_pos l0 l1, ?_⟩
  intro q
  rw [planeThroughIf_eq _ _ _ (ne_of_gt l0), planeThroughIf_eq _ _ _ (ne_of_gt l1), planeThrough_eval hl _ _ _ hc,
    planeThrough_eval hl _ _ _ hc', triple_affine M h]
  have := ne_of_gt l0; have := ne_of_gt l1
  field_simp

/-- **one plane**: if the plane `pl = Plane3::set (p1, p2, p3)` (non-degenerate triangle) is transformed by `Plane3::operator* (M)`,
the result is the plane set from the three TRANSFORMED points — for every affine `M` with `det3 M ≠ 0` -/
theorem plane_link_affine (tmin tmax : α) (sqrt : α → α) (hlen : LenSpec (Gen.V3.length tmin tmax sqrt)) (M : M44 α) (hM : IsAffine M)
    (hdet : det3 M ≠ 0) (p1 p2 p3 : V3 α) (hc : normSq (cross (vsub p2 p1) (vsub p3 p1)) ≠ 0) :
    planeThroughIf (Gen.V3.length tmin tmax sqrt) (Gen.V3.mulM44 p1 M) (Gen.V3.mulM44 p2 M) (Gen.V3.mulM44 p3 M) =
      Gen.Plane3.mulM44 tmin tmax sqrt (planeThroughIf (Gen.V3.length tmin tmax sqrt) p1 p2 p3) M := by
  have hu : normSq (planeThroughIf (Gen.V3.length tmin tmax sqrt) p1 p2 p3).normal = 1 := by
    simp only [planeThroughIf]; exact normalizeIf_normSq hlen _ hc
  obtain ⟨hB, κ', hκ', hBe⟩ := C15.Plane3_mulM44 tmin tmax sqrt (geo_lenSpec hlen) (planeThroughIf (Gen.V3.length tmin tmax sqrt) p1 p2 p3) M
    hu hM hdet
  obtain ⟨κ, hκ, hAe⟩ := planeThroughIf_affine_det hlen M hM hdet p1 p2 p3 hc
  refine plane_eq_of_pos_multiple _ _ (planeThroughIf_affine_unit hlen M hM hdet p1 p2 p3 hc) hB (κ / κ') (div_pos hκ hκ') ?_
  intro x
  have e := mulM44_affinePre M hM hdet x
  have hA := hAe (affinePre M x)
  have hB' := hBe (affinePre M x)
  rw [geo_mulM44, geo_signedDist, geo_signedDist, geo_det3] at hB'
  rw [e] at hA hB'
  rw [hA, hB']
  have := ne_of_gt hκ'
  field_simp

/-- apply a plane transformation to six planes -/
def mapPlanes (g : Plane3 α → Plane3 α) (P : Planes6 α) : Planes6 α :=
  (g P.1, g P.2.1, g P.2.2.1, g P.2.2.2.1, g P.2.2.2.2.1, g P.2.2.2.2.2)

/-- **planes (p, M) = planes (p) transformed by M, perspective**: for a frustum with `0 < near`, `far ≠ 0`, `l < r`, `b < t` and every
affine camera matrix with `det3 M ≠ 0` (mirrored included), the six planes returned by `planes (p, M)` are EQUAL (normal and
distance) to `Plane3::operator* (M)` applied to the six planes returned by `planes (p)` -/
theorem planesM_persp_eq_mulM44 (tmin tmax : α) (sqrt : α → α) (hlen : LenSpec (Gen.V3.length tmin tmax sqrt)) (n f l r t b : α)
    (hn : 0 < n) (hf : f ≠ 0) (hlr : l < r) (hbt : b < t) (M : M44 α) (hM : IsAffine M) (hdet : det3 M ≠ 0) :
    planesM_persp tmin tmax sqrt n f l r t b M =
      mapPlanes (fun pl => Gen.Plane3.mulM44 tmin tmax sqrt pl M) (Gen.Frustum.planes_persp tmin tmax sqrt n f l r t b) := by
  have hn' := ne_of_gt hn
  have h1' : r - l ≠ 0 := ne_of_gt (sub_pos.mpr hlr)
  have h2' : t - b ≠ 0 := ne_of_gt (sub_pos.mpr hbt)
  have hs : f / n ≠ 0 := div_ne_zero hf hn'
  obtain ⟨a0, a1, a2, a3, a4, a5⟩ := planesM_persp_struct tmin tmax sqrt n f l r t b M
  obtain ⟨i0, i1, i2, i3, i4, i5⟩ := planesM_persp_struct tmin tmax sqrt n f l r t b identity44
  simp only [mulM44_identity] at i0 i1 i2 i3 i4 i5
  rw [← planesM_persp_identity tmin tmax sqrt hlen n f l r t b hn hf hlr hbt]
  simp only [mapPlanes, planesM_persp, a0, a1, a2, a3, a4, a5, i0, i1, i2, i3, i4, i5]
  rw [plane_link_affine tmin tmax sqrt hlen M hM hdet ⟨0, 0, 0⟩ ⟨r, t, -n⟩ ⟨l, t, -n⟩
        (by rw [cross_top n l r t]; exact normSq_ne_zero_of_y _ _ _ (mul_ne_zero hn' h1')),
    plane_link_affine tmin tmax sqrt hlen M hM hdet ⟨0, 0, 0⟩ ⟨r, b, -n⟩ ⟨r, t, -n⟩
        (by rw [cross_right n r t b]; exact normSq_ne_zero_of_x _ _ _ (mul_ne_zero hn' h2')),
    plane_link_affine tmin tmax sqrt hlen M hM hdet ⟨0, 0, 0⟩ ⟨l, b, -n⟩ ⟨r, b, -n⟩
        (by rw [cross_bottom n l r b]; exact normSq_ne_zero_of_y _ _ _ (neg_ne_zero.mpr (mul_ne_zero hn' h1'))),
    plane_link_affine tmin tmax sqrt hlen M hM hdet ⟨0, 0, 0⟩ ⟨l, t, -n⟩ ⟨l, b, -n⟩
        (by rw [cross_left n l t b]; exact normSq_ne_zero_of_x _ _ _ (neg_ne_zero.mpr (mul_ne_zero hn' h2'))),
    plane_link_affine tmin tmax sqrt hlen M hM hdet ⟨l, b, -n⟩ ⟨r, b, -n⟩ ⟨r, t, -n⟩
        (by rw [cross_near n l r t b]; exact normSq_ne_zero_of_z _ _ _ (mul_ne_zero h1' h2')),
    plane_link_affine tmin tmax sqrt hlen M hM hdet ⟨f / n * l, f / n * b, -f⟩ ⟨f / n * l, f / n * t, -f⟩ ⟨f / n * r, f / n * t, -f⟩
        (by rw [cross_far f (f / n * l) (f / n * r) (f / n * t) (f / n * b)]
            refine normSq_ne_zero_of_z _ _ _ (neg_ne_zero.mpr ?_)
            have : (f / n * r - f / n * l) * (f / n * t - f / n * b) = (f / n) * (f / n) * ((r - l) * (t - b)) := by ring
            rw [this]; exact mul_ne_zero (mul_ne_zero hs hs) (mul_ne_zero h1' h2'))]
/-- **planes (p, M) = planes (p) transformed by M, orthographic** (`near < far`, `l < r`, `b < t`) -/
theorem planesM_ortho_eq_mulM44 (tmin tmax : α) (sqrt : α → α) (hlen : LenSpec (Gen.V3.length tmin tmax sqrt)) (n f l r t b : α)
    (hnf : n < f) (hlr : l < r) (hbt : b < t) (M : M44 α) (hM : IsAffine M) (hdet : det3 M ≠ 0) :
    planesM_ortho tmin tmax sqrt n f l r t b M =
      mapPlanes (fun pl => Gen.Plane3.mulM44 tmin tmax sqrt pl M) (Gen.Frustum.planes_ortho tmin tmax sqrt n f l r t b) := by
  have d1 : f - n ≠ 0 := ne_of_gt (sub_pos.mpr hnf)
  have h1' : r - l ≠ 0 := ne_of_gt (sub_pos.mpr hlr)
  have h2' : t - b ≠ 0 := ne_of_gt (sub_pos.mpr hbt)
  obtain ⟨a0, a1, a2, a3, a4, a5⟩ := planesM_ortho_struct tmin tmax sqrt n f l r t b M
  obtain ⟨i0, i1, i2, i3, i4, i5⟩ := planesM_ortho_struct tmin tmax sqrt n f l r t b identity44
  simp only [mulM44_identity] at i0 i1 i2 i3 i4 i5
  have c0 : cross (vsub ⟨r, t, -f⟩ ⟨r, t, -n⟩) (vsub ⟨l, t, -f⟩ ⟨r, t, -n⟩) = (⟨0, (f - n) * (r - l), 0⟩ : V3 α) := by
    simp only [cross, vsub]; congr 1 <;> ring
  have c1 : cross (vsub ⟨r, b, -f⟩ ⟨r, b, -n⟩) (vsub ⟨r, t, -f⟩ ⟨r, b, -n⟩) = (⟨(f - n) * (t - b), 0, 0⟩ : V3 α) := by
    simp only [cross, vsub]; congr 1 <;> ring
  have c2 : cross (vsub ⟨l, b, -f⟩ ⟨l, b, -n⟩) (vsub ⟨r, b, -f⟩ ⟨l, b, -n⟩) = (⟨0, -((f - n) * (r - l)), 0⟩ : V3 α) := by
    simp only [cross, vsub]; congr 1 <;> ring
  have c3 : cross (vsub ⟨l, t, -f⟩ ⟨l, t, -n⟩) (vsub ⟨l, b, -f⟩ ⟨l, t, -n⟩) = (⟨-((f - n) * (t - b)), 0, 0⟩ : V3 α) := by
    simp only [cross, vsub]; congr 1 <;> ring
  rw [← planesM_ortho_identity tmin tmax sqrt hlen n f l r t b hnf hlr hbt]
  simp only [mapPlanes, planesM_ortho, a0, a1, a2, a3, a4, a5, i0, i1, i2, i3, i4, i5]
  rw [plane_link_affine tmin tmax sqrt hlen M hM hdet ⟨r, t, -n⟩ ⟨r, t, -f⟩ ⟨l, t, -f⟩
        (by rw [c0]; exact normSq_ne_zero_of_y _ _ _ (mul_ne_zero d1 h1')),
    plane_link_affine tmin tmax sqrt hlen M hM hdet ⟨r, b, -n⟩ ⟨r, b, -f⟩ ⟨r, t, -f⟩
        (by rw [c1]; exact normSq_ne_zero_of_x _ _ _ (mul_ne_zero d1 h2')),
    plane_link_affine tmin tmax sqrt hlen M hM hdet ⟨l, b, -n⟩ ⟨l, b, -f⟩ ⟨r, b, -f⟩
        (by rw [c2]; exact normSq_ne_zero_of_y _ _ _ (neg_ne_zero.mpr (mul_ne_zero d1 h1'))),
    plane_link_affine tmin tmax sqrt hlen M hM hdet ⟨l, t, -n⟩ ⟨l, t, -f⟩ ⟨l, b, -f⟩
        (by rw [c3]; exact normSq_ne_zero_of_x _ _ _ (neg_ne_zero.mpr (mul_ne_zero d1 h2'))),
    plane_link_affine tmin tmax sqrt hlen M hM hdet ⟨l, b, -n⟩ ⟨r, b, -n⟩ ⟨r, t, -n⟩
        (by rw [cross_near n l r t b]; exact normSq_ne_zero_of_z _ _ _ (mul_ne_zero h1' h2')),
    plane_link_affine tmin tmax sqrt hlen M hM hdet ⟨l, b, -f⟩ ⟨l, t, -f⟩ ⟨r, t, -f⟩
        (by rw [cross_far f l r t b]; exact normSq_ne_zero_of_z _ _ _ (neg_ne_zero.mpr (mul_ne_zero h1' h2')))]


/-! ## arbitrary 4×4 matrices (projective): as far as it goes -/
/-- the triple product of the de-homogenised images of four points is `det4 M` times the original one, up to the product of the `w`s
(C15's `triple_homog`, `det4rows_mul`, `det4rows_affine` in C16's vocabulary) -/
theorem triple_projective (M : M44 α) (p1 p2 p3 q : V3 α) (h1 : Geo.wOf p1 M ≠ 0) (h2 : Geo.wOf p2 M ≠ 0) (h3 : Geo.wOf p3 M ≠ 0)
    (hq : Geo.wOf q M ≠ 0) :
    vdot (cross (vsub (Gen.V3.mulM44 p2 M) (Gen.V3.mulM44 p1 M)) (vsub (Gen.V3.mulM44 p3 M) (Gen.V3.mulM44 p1 M)))
        (vsub (Gen.V3.mulM44 q M) (Gen.V3.mulM44 p1 M)) * (Geo.wOf q M * Geo.wOf p1 M * Geo.wOf p2 M * Geo.wOf p3 M)
      = Geo.det4 M * vdot (cross (vsub p2 p1) (vsub p3 p1)) (vsub q p1) := by
  have h := Geo.triple_homog (Geo.numM44 p1 M) (Geo.numM44 p2 M) (Geo.numM44 p3 M) (Geo.numM44 q M) _ _ _ _ h1 h2 h3 hq
  rw [Geo.det4rows_mul, Geo.det4rows_affine] at h
  have e1 : ∀ p : V3 α, Geo.divS (Geo.numM44 p M) (Geo.wOf p M) = Gen.V3.mulM44 p M := fun p => rfl
  simp only [e1] at h
  calc _ = _ := h
    _ = _ := by rw [mul_comm]; rfl
/-- a plane set from three points, moved by ANY 4×4 matrix: for every point `q` whose homogeneous `w` (and those of the three points) does
not vanish, the plane equation at `q * M` times the product of the four `w`s is `κ · det4 M` times the original equation at `q` (`κ > 0`),
provided neither triangle is degenerate -/
theorem planeThroughIf_projective {len : V3 α → α} (hl : LenSpec len) (M : M44 α) (p1 p2 p3 : V3 α)
    (h1 : Geo.wOf p1 M ≠ 0) (h2 : Geo.wOf p2 M ≠ 0) (h3 : Geo.wOf p3 M ≠ 0)
    (hc : normSq (cross (vsub p2 p1) (vsub p3 p1)) ≠ 0)
    (hc' : normSq (cross (vsub (Gen.V3.mulM44 p2 M) (Gen.V3.mulM44 p1 M)) (vsub (Gen.V3.mulM44 p3 M) (Gen.V3.mulM44 p1 M))) ≠ 0) :
    ∃ κ : α, 0 < κ ∧ ∀ q : V3 α, Geo.wOf q M ≠ 0 →
      planeEval (planeThroughIf len (Gen.V3.mulM44 p1 M) (Gen.V3.mulM44 p2 M) (Gen.V3.mulM44 p3 M)) (Gen.V3.mulM44 q M)
          * (Geo.wOf q M * (Geo.wOf p1 M * Geo.wOf p2 M * Geo.wOf p3 M))
        = κ * Geo.det4 M * planeEval (planeThroughIf len p1 p2 p3) q := by
  have l0 := lenSpec_pos hl _ hc
  have l1 := lenSpec_pos hl _ hc'
  refine ⟨len (cross (vsub p2 p1) (vsub p3 p1)) /
    len (cross (vsub (Gen.V3.mulM44 p2 M) (Gen.V3.mulM44 p1 M)) (vsub (Gen.V3.mulM44 p3 M) (Gen.V3.mulM44 p1 M))), div_pos l0 l1, ?_⟩
  intro q hq
  have ht := triple_projective M p1 p2 p3 q h1 h2 h3 hq
  rw [planeThroughIf_eq _ _ _ (ne_of_gt l0), planeThroughIf_eq _ _ _ (ne_of_gt l1), planeThrough_eval hl _ _ _ hc,
    planeThrough_eval hl _ _ _ hc']
  have := ne_of_gt l0; have := ne_of_gt l1
  field_simp
  linear_combination ht
/-- **one plane, arbitrary `M`**: `pl = Plane3::set (p1, p2, p3)`; on every image point `q * M` with `w ≠ 0` the equation of the plane set from
the three TRANSFORMED points and the equation of `pl * M` (`Plane3::operator*`) are proportional: with `W` the product of the `w`s of
`p1, p2, p3` (the route of `planes (p, M)`) and `W'` the product of the `w`s of the three points `operator*` constructs,
`eval_A · (W · κ') = eval_B · (W' · κ)` with `κ, κ' > 0`.  Same zero set; same side iff `W · W' > 0` (always for affine `M`) -/
theorem plane_link_projective (tmin tmax : α) (sqrt : α → α) (hlen : LenSpec (Gen.V3.length tmin tmax sqrt)) (M : M44 α)
    (p1 p2 p3 : V3 α) (h1 : Geo.wOf p1 M ≠ 0) (h2 : Geo.wOf p2 M ≠ 0) (h3 : Geo.wOf p3 M ≠ 0)
    (hc : normSq (cross (vsub p2 p1) (vsub p3 p1)) ≠ 0)
    (hc' : normSq (cross (vsub (Gen.V3.mulM44 p2 M) (Gen.V3.mulM44 p1 M)) (vsub (Gen.V3.mulM44 p3 M) (Gen.V3.mulM44 p1 M))) ≠ 0)
    (hw : Geo.MulM44Defined (planeThroughIf (Gen.V3.length tmin tmax sqrt) p1 p2 p3) M) (hdet : Geo.det4 M ≠ 0) :
    ∃ κ κ' W' : α, 0 < κ ∧ 0 < κ' ∧ W' ≠ 0 ∧ ∀ q : V3 α, Geo.wOf q M ≠ 0 →
      planeEval (planeThroughIf (Gen.V3.length tmin tmax sqrt) (Gen.V3.mulM44 p1 M) (Gen.V3.mulM44 p2 M) (Gen.V3.mulM44 p3 M)) (Gen.V3.mulM44 q M)
          * (Geo.wOf p1 M * Geo.wOf p2 M * Geo.wOf p3 M * κ')
        = planeEval (Gen.Plane3.mulM44 tmin tmax sqrt (planeThroughIf (Gen.V3.length tmin tmax sqrt) p1 p2 p3) M) (Gen.V3.mulM44 q M)
          * (W' * κ) := by
  have hu : normSq (planeThroughIf (Gen.V3.length tmin tmax sqrt) p1 p2 p3).normal = 1 := by
    simp only [planeThroughIf]; exact normalizeIf_normSq hlen _ hc
  obtain ⟨_, κ', W', _, hW', hpos, hB⟩ := C15.Plane3_mulM44_projective tmin tmax sqrt (geo_lenSpec hlen)
    (planeThroughIf (Gen.V3.length tmin tmax sqrt) p1 p2 p3) M hu hw
  obtain ⟨κ, hκ, hA⟩ := planeThroughIf_projective hlen M p1 p2 p3 h1 h2 h3 hc hc'
  refine ⟨κ, κ', W', hκ, (hpos hdet).1, hW', fun q hq => ?_⟩
  have a := hA q hq
  have b := hB q hq
  rw [geo_mulM44, geo_signedDist, geo_signedDist] at b
  have hq' := hq
  apply mul_left_cancel₀ hq'
  linear_combination κ' * a - κ * b

/-! ## witness over ℚ: both routes evaluated independently (the `sqrt` of the witness is exact on the squared lengths that occur but is NOT a
square root everywhere, so this is not an instance of the theorem): Pythagorean perspective frustum `n=4, f=8, [-3,3]²`, camera = rotation
by 90° about z followed by the translation (5, 6, 7) -/
def witnessM : M44 ℚ := ⟨0, 1, 0, 0, -1, 0, 0, 0, 0, 0, 1, 0, 5, 6, 7, 1⟩
theorem witness_planes_persp : Gen.Frustum.planes_persp (0 : ℚ) 1000000 wsqrt 4 8 (-3) 3 3 (-3) =
    (⟨⟨0, 4/5, 3/5⟩, 0⟩, ⟨⟨4/5, 0, 3/5⟩, 0⟩, ⟨⟨0, -4/5, 3/5⟩, 0⟩, ⟨⟨-4/5, 0, 3/5⟩, 0⟩, ⟨⟨0, 0, 1⟩, -4⟩, ⟨⟨0, 0, -1⟩, 8⟩) := by
  norm_num [Gen.Frustum.planes_persp, Gen.V3.length, wsqrt]
theorem witness_planesM_rot : planesM_persp (0 : ℚ) 1000000 wsqrt 4 8 (-3) 3 3 (-3) witnessM =
    (⟨⟨-4/5, 0, 3/5⟩, 1/5⟩, ⟨⟨0, 4/5, 3/5⟩, 9⟩, ⟨⟨4/5, 0, 3/5⟩, 41/5⟩, ⟨⟨0, -4/5, 3/5⟩, -3/5⟩, ⟨⟨0, 0, 1⟩, 3⟩, ⟨⟨0, 0, -1⟩, 1⟩) := by
  obtain ⟨h0, h1, h2, h3, h4, h5⟩ := planesM_persp_struct (0 : ℚ) 1000000 wsqrt 4 8 (-3) 3 3 (-3) witnessM
  simp only [planesM_persp, h0, h1, h2, h3, h4, h5]
  norm_num [planeThroughIf, normalizeIf, cross, vsub, vdot, Gen.V3.length, Gen.V3.mulM44, wsqrt, witnessM]
/-- `Plane3::operator* (witnessM)` on each of the six planes of `planes (p)`, evaluated -/
theorem witness_planeMul_0 : Gen.Plane3.mulM44 (0 : ℚ) 1000000 wsqrt ⟨⟨0, 4/5, 3/5⟩, 0⟩ witnessM = ⟨⟨-4/5, 0, 3/5⟩, 1/5⟩ := by
  norm_num [Gen.Plane3.mulM44, Gen.Plane3.setPoints, Gen.V3.length, wsqrt, witnessM]
theorem witness_planeMul_1 : Gen.Plane3.mulM44 (0 : ℚ) 1000000 wsqrt ⟨⟨4/5, 0, 3/5⟩, 0⟩ witnessM = ⟨⟨0, 4/5, 3/5⟩, 9⟩ := by
  norm_num [Gen.Plane3.mulM44, Gen.Plane3.setPoints, Gen.V3.length, wsqrt, witnessM]
theorem witness_planeMul_2 : Gen.Plane3.mulM44 (0 : ℚ) 1000000 wsqrt ⟨⟨0, -4/5, 3/5⟩, 0⟩ witnessM = ⟨⟨4/5, 0, 3/5⟩, 41/5⟩ := by
  norm_num [Gen.Plane3.mulM44, Gen.Plane3.setPoints, Gen.V3.length, wsqrt, witnessM]
theorem witness_planeMul_3 : Gen.Plane3.mulM44 (0 : ℚ) 1000000 wsqrt ⟨⟨-4/5, 0, 3/5⟩, 0⟩ witnessM = ⟨⟨0, -4/5, 3/5⟩, -3/5⟩ := by
  norm_num [Gen.Plane3.mulM44, Gen.Plane3.setPoints, Gen.V3.length, wsqrt, witnessM]
theorem witness_planeMul_4 : Gen.Plane3.mulM44 (0 : ℚ) 1000000 wsqrt ⟨⟨0, 0, 1⟩, -4⟩ witnessM = ⟨⟨0, 0, 1⟩, 3⟩ := by
  norm_num [Gen.Plane3.mulM44, Gen.Plane3.setPoints, Gen.V3.length, wsqrt, witnessM]
theorem witness_planeMul_5 : Gen.Plane3.mulM44 (0 : ℚ) 1000000 wsqrt ⟨⟨0, 0, -1⟩, 8⟩ witnessM = ⟨⟨0, 0, -1⟩, 1⟩ := by
  norm_num [Gen.Plane3.mulM44, Gen.Plane3.setPoints, Gen.V3.length, wsqrt, witnessM]
/-- `Plane3::operator*` applied to the six planes of `planes (p)` gives the same six planes as `planes (p, M)` -/
theorem witness_planeLink :
    mapPlanes (fun pl => Gen.Plane3.mulM44 (0 : ℚ) 1000000 wsqrt pl witnessM) (Gen.Frustum.planes_persp (0 : ℚ) 1000000 wsqrt 4 8 (-3) 3 3 (-3)) =
      planesM_persp (0 : ℚ) 1000000 wsqrt 4 8 (-3) 3 3 (-3) witnessM := by
  rw [witness_planes_persp, witness_planesM_rot]
  simp only [mapPlanes, witness_planeMul_0, witness_planeMul_1, witness_planeMul_2, witness_planeMul_3, witness_planeMul_4, witness_planeMul_5]
/-- the hypotheses of the link theorems hold for the witness -/
example : IsAffine witnessM ∧ det3 witnessM ≠ 0 ∧ Geo.det4 witnessM ≠ 0 := by
  refine ⟨⟨rfl, rfl, rfl, rfl⟩, ?_, ?_⟩ <;> norm_num [det3, Geo.det4, witnessM]

end ImathVerif.C16
