import ImathVerif.Props.C01Preds
import ImathVerif.Enum.C01.All
import ImathVerif.Props.C01
/-!
# C02 — every half-conversion back-end and language mode returns identical bits

Property theorems only.  What is *proved* here concerns the three software
artefacts whose agreement is a mathematical statement:

* the checked-in table `toFloat.h` (regenerated into `Gen.tableEntry` by
  tools/gen_half.py on every run),
* the table generator `toFloat.cpp::halfToFloat` (model `h2fGen`, whose
  `while (!(m & 0x400))` loop is given fuel 10 — shown adequate below),
* the shift/rebias branch of `imath_half_to_float` (model `h2f`).

That each *compiled configuration* (table, no-table, F16C, C, C++14/17/20)
computes these functions is established by tools/props/c02.py: exhaustive
comparison of every configuration with the model over all 2^32 floats and all
2^16 halves (F16C: modulo NaN payload), and a run of the real generator program
diffed against toFloat.h.  The per-pattern facts are the kernel enumerations
of `ImathVerif/Enum/C01` (shared with C01).

`f2h_canon_is_ieee` states what the F16C comparison (NaN payload canonicalised) compares the
hardware with: not merely "our model", but the unique IEEE-754 round-to-nearest-even result
(`C01.f2h_is_the_rne`), signed infinity for infinities and sign|quiet-NaN for NaNs.
-/
namespace ImathVerif.Half.C02
open ImathVerif ImathVerif.Half ImathVerif.Gen ImathVerif.Enum.C01

/-- the shipped table has 65,536 entries and each equals the shift/rebias path -/
theorem table_eq_shift : toFloatCount = 65536 ∧ ∀ h, h < 65536 → tableEntry h = h2f h := by
  refine ⟨by decide +kernel, ?_⟩
  intro h hh
  simpa [p_table] using p_table_all h hh

/-- the generator program's function equals the shift/rebias path -/
theorem generator_eq_shift : ∀ h, h < 65536 → h2fGen h = h2f h := by
  intro h hh
  simpa [p_gen] using p_gen_all h hh

/-- "the shipped 65,536-entry table is exactly what its generator prints" -/
theorem table_eq_generator : toFloatCount = 65536 ∧ ∀ h, h < 65536 → tableEntry h = h2fGen h := by
  refine ⟨table_eq_shift.1, ?_⟩
  intro h hh
  rw [table_eq_shift.2 h hh, generator_eq_shift h hh]

/-- all three software back-ends of half->float agree on every pattern -/
theorem h2f_backends_agree : ∀ h, h < 65536 →
    tableEntry h = h2f h ∧ h2fGen h = h2f h ∧ tableEntry h = h2fGen h :=
  fun h hh => ⟨table_eq_shift.2 h hh, generator_eq_shift h hh, table_eq_generator.2 h hh⟩

/-! ### fuel adequacy of the generator's renormalisation loop -/

def p_fuel (m : Nat) : Bool := m == 0 || decide ((genNormalize 10 m 0).1 &&& 0x400 ≠ 0)

/-- `while (!(m & 0x400)) { m <<= 1; e -= 1; }` has terminated after at most ten
iterations for every non-zero 10-bit significand: the fuel-10 model ends with
bit 10 set, i.e. it stopped because the loop condition became false, not
because it ran out of fuel. -/
theorem genNormalize_terminates : ∀ m, 0 < m → m < 1024 → (genNormalize 10 m 0).1 &&& 0x400 ≠ 0 := by
  intro m h0 h1
  have hall : allBits 10 0 p_fuel = true := by decide +kernel
  have := forall_lt_of_allBits 10 p_fuel hall m (by simpa using h1)
  unfold p_fuel at this
  have hm : (m == 0) = false := by
    cases h : (m == 0)
    · rfl
    · have : m = 0 := by simpa using h
      omega
  simpa [hm] using this

/-- once the loop has stopped on its condition, more fuel changes nothing, and
the exit does not depend on the exponent accumulator -/
theorem genNormalize_stable : ∀ (fuel k m : Nat) (e : Int),
    (genNormalize fuel m e).1 &&& 0x400 ≠ 0 → genNormalize (fuel + k) m e = genNormalize fuel m e := by
  intro fuel
  induction fuel with
  | zero =>
    intro k m e h
    simp only [genNormalize] at h
    cases k with
    | zero => rfl
    | succ k =>
      have : ¬ (m &&& 0x400 = 0) := h
      simp [genNormalize, this]
  | succ f ih =>
    intro k m e h
    have e1 : f + 1 + k = (f + k) + 1 := by omega
    rw [e1]
    by_cases hm : m &&& 0x400 = 0
    · simp only [genNormalize, hm, if_true] at h ⊢
      exact ih k (m <<< 1) (e - 1) h
    · simp [genNormalize, hm]

/-- the first component (significand) computed by the loop does not depend on `e` -/
theorem genNormalize_fst_indep : ∀ (fuel m : Nat) (e e' : Int),
    (genNormalize fuel m e).1 = (genNormalize fuel m e').1 := by
  intro fuel
  induction fuel with
  | zero => intro m e e'; rfl
  | succ f ih =>
    intro m e e'
    by_cases hm : m &&& 0x400 = 0
    · simp only [genNormalize, hm, if_true]; exact ih _ _ _
    · simp [genNormalize, hm]

/-- fuel adequacy: for every denormal significand the fuel-10 model of the loop
equals the model with any larger amount of fuel (hence the unbounded C loop). -/
theorem genNormalize_fuel_adequate : ∀ m, 0 < m → m < 1024 → ∀ (k : Nat) (e : Int),
    genNormalize (10 + k) m e = genNormalize 10 m e := by
  intro m h0 h1 k e
  apply genNormalize_stable
  rw [genNormalize_fst_indep 10 m e 0]
  exact genNormalize_terminates m h0 h1

-- non-vacuity: a concrete denormal significand, normalised in 10 steps
example : (genNormalize 10 1 0) = (0x400, -10) := by decide
example : (0 : Nat) < 1 ∧ (1 : Nat) < 1024 := by decide

/-! ### what the F16C comparison compares the hardware with -/

def p_canon (h : Nat) : Bool :=
  canon16 h == (if (h / 1024) % 32 = 31 ∧ h % 1024 ≠ 0 then (h / 32768) * 32768 + 0x7e00 else h)

/-- `canon16` in arithmetic form: NaN patterns become sign|0x7e00, everything else is kept -/
theorem canon16_eq : ∀ h, h < 65536 →
    canon16 h = if (h / 1024) % 32 = 31 ∧ h % 1024 ≠ 0 then (h / 32768) * 32768 + 0x7e00 else h := by
  intro h hh
  have hall : allBits 16 0 p_canon = true := by decide +kernel
  have := forall_lt_of_allBits 16 p_canon hall h (by simpa using hh)
  unfold p_canon at this
  simpa using this

/-- The software float->half with NaN results canonicalised — the left-hand side of the
exhaustive F16C comparison — is the function IEEE-754 prescribes for a binary32->binary16
conversion under round-to-nearest-even: sign|quiet-NaN for NaNs, signed infinity for
infinities, and for every finite float the sign followed by THE round-to-nearest-even
magnitude (`IsRNE16` has a unique solution).  So the `f16c` sweep tests the CPU's
`vcvtps2ph` against IEEE-754, not against a private convention of the model. -/
theorem f2h_canon_is_ieee : ∀ v, v < 4294967296 →
    (0x7f800000 < v % 2147483648 → canon16 (f2h v) = (v / 2147483648) * 32768 + 0x7e00) ∧
    (v % 2147483648 = 0x7f800000 → canon16 (f2h v) = (v / 2147483648) * 32768 + 0x7c00) ∧
    (v % 2147483648 < 0x7f800000 → ∀ r, IsRNE16 (fval (v % 2147483648)) r →
        canon16 (f2h v) = (v / 2147483648) * 32768 + r) := by
  intro v hv
  obtain ⟨hlt, hsg⟩ := C01.f2h_sign v hv
  rw [canon16_eq _ hlt]
  refine ⟨fun hn => ?_, fun hi => ?_, fun hf r hr => ?_⟩
  · obtain ⟨a, b, _⟩ := C01.f2h_nan v hv hn
    rw [if_pos ⟨a, b⟩, hsg]
  · have := C01.f2h_inf v hv hi
    rw [if_neg (by omega)]; exact this
  · have e := C01.f2h_is_the_rne v hv hf r hr
    have hr1 := hr.1
    rw [if_neg (by omega)]; omega


-- non-vacuity: one input of each class (signalling NaN, -inf, a tie)
example : canon16 (f2h 0xff800001) = 0xfe00 ∧ canon16 (f2h 0xff800000) = 0xfc00 ∧
    canon16 (f2h 0x38803000) = 0x0402 := by decide

/-! ### the half->float side of the F16C comparison -/

/-- NaN float patterns -> sign|0x7fc00000 (what tools/halfspec.py `canon32` and the harness apply to half->float
results before the F16C comparison) -/
def canon32 (f : Nat) : Nat :=
  if (f / 8388608) % 256 = 255 ∧ f % 8388608 ≠ 0 then (f / 2147483648) * 2147483648 + 0x7fc00000 else f

def p_canon32 (h : Nat) : Bool :=
  if isNan h then canon32 (h2f h) == (h / 32768) * 2147483648 + 0x7fc00000 else canon32 (h2f h) == h2f h

/-- The software half->float with NaN results canonicalised — the left-hand side of the exhaustive F16C half->float
comparison — is what IEEE-754 prescribes for a binary16->binary32 conversion: sign|quiet-NaN for NaNs, and for every
other pattern the float itself, which by `C01.h2f_exact` has the same sign and denotes exactly the same number (infinity
for infinity).  Twin of `f2h_canon_is_ieee`. -/
theorem h2f_canon_is_ieee : ∀ h, h < 65536 →
    (isNan h = true → canon32 (h2f h) = (h / 32768) * 2147483648 + 0x7fc00000) ∧
    (isNan h = false → canon32 (h2f h) = h2f h ∧ h2f h / 2147483648 = h / 32768 ∧
        (isInfinity h = true → h2f h % 2147483648 = 0x7f800000) ∧
        (isInfinity h = false → h2f h % 2147483648 < 0x7f800000 ∧ fval (h2f h % 2147483648) = hval149 (h % 32768))) := by
  intro h hh
  have hall : allBits 16 0 p_canon32 = true := by decide +kernel
  have hp := forall_lt_of_allBits 16 p_canon32 hall h (by simpa using hh)
  unfold p_canon32 at hp
  refine ⟨fun hn => ?_, fun hn => ?_⟩
  · simpa [hn] using hp
  · obtain ⟨_, b, c, d⟩ := C01.h2f_exact h hh hn
    exact ⟨by simpa [hn] using hp, b, c, d⟩

example : canon32 (h2f 0xfc01) = 0xffc00000 ∧ canon32 (h2f 0xfc00) = 0xff800000 ∧ canon32 (h2f 0x8001) = 0xb3800000 := by decide

end ImathVerif.Half.C02
