import ImathVerif.Basic.Types
import ImathVerif.Gen.C13Box
import ImathVerif.Gen.C13Algo
/-!
# Hand model of `transform` / `affineTransform` (ImathBoxAlgo.h 112-354), CORE LEAN ONLY

All FOUR overloads, mirrored statement by statement:

* `transform (box, m)`            → `transform`           (returns the box)
* `transform (box, m, result)`    → `transformOut`        (old `result` is an input; every path overwrites it)
* `affineTransform (box, m)`      → `affineTransform`
* `affineTransform (box, m, res)` → `affineTransformOut`  (old `result` is an input; every path overwrites it)

Pieces that are themselves Imath members are NOT re-modelled: `isEmpty`, `isInfinite`, the default
constructor, `makeEmpty`, `makeInfinite`, `extendBy(point)` and `Vec3 * Matrix44` (homogeneous divide)
are the definitions regenerated from the headers by the translator (`Gen.Box3.*`, `Gen.BoxAlgo.vecTimesM44`).
Hand-written here: the control flow (early returns, affine test), the Arvo accumulation loop and the
enumeration of the eight corners.  Generic scalar `α` (executed at `Rat`/`Int` by `Driver/BoxTransform.lean`,
reasoned about over an ordered field in `Lemmas/BoxTransformLemmas.lean`).  `S = T` (box and matrix have
the same element type; the casts `(S) m[j][i]` are identities; `S ≠ T` is run by the harness on values exact in both types).

Since the strengthening round this model is no longer only sampled against the code: `Props/C13Transform.lean` proves it
EQUAL, for every box and matrix, to the four overloads as regenerated from the header (`Gen/C13Transform.lean`).
-/
namespace ImathVerif.BoxTransform
open ImathVerif

section
variable {α : Type} [Add α] [Mul α] [Div α] [LT α] [DecidableLT α] [DecidableEq α] [OfNat α 0] [OfNat α 1]

/-- `if (box.isEmpty () || box.isInfinite ())` -/
def emptyOrInfinite (tmax tlowest : α) (b : Box3 α) : Bool :=
  Gen.Box3.isEmpty b || Gen.Box3.isInfinite tmax tlowest b

/-- `if (m[0][3] == 0 && m[1][3] == 0 && m[2][3] == 0 && m[3][3] == 1)` -/
def isAffine (m : M44 α) : Bool :=
  decide (m.x03 = 0) && decide (m.x13 = 0) && decide (m.x23 = 0) && decide (m.x33 = 1)

/-- `m` with its last column replaced by `(0,0,0,1)`: what the `*_affine` extraction entries (harness/sym/ops_c13t.h) pass to
the real code, so that the affine test folds -/
def affineCol (m : M44 α) : M44 α := { m with x03 := 0, x13 := 0, x23 := 0, x33 := 1 }

/-- body of the inner `j` loop: `a = m[j][i]*box.min[j]; b = m[j][i]*box.max[j];
if (a < b) { min[i] += a; max[i] += b; } else { min[i] += b; max[i] += a; }`; `acc = (min[i], max[i])` -/
def arvoStep (acc : α × α) (mji lo hi : α) : α × α :=
  let a := mji * lo
  let b := mji * hi
  if a < b then (acc.1 + a, acc.2 + b) else (acc.1 + b, acc.2 + a)

/-- one iteration of the outer `i` loop: `min[i] = max[i] = m[3][i]`, then `j = 0, 1, 2` -/
def arvoAxis (m3i m0i m1i m2i : α) (b : Box3 α) : α × α :=
  arvoStep (arvoStep (arvoStep (m3i, m3i) m0i b.min.x b.max.x) m1i b.min.y b.max.y) m2i b.min.z b.max.z

/-- the Arvo loop nest `for i in 0..2 { ...; for j in 0..2 {...} }` (column `i` of `m` feeds output axis `i`) -/
def arvo (b : Box3 α) (m : M44 α) : Box3 α :=
  let x := arvoAxis m.x30 m.x00 m.x10 m.x20 b
  let y := arvoAxis m.x31 m.x01 m.x11 m.x21 b
  let z := arvoAxis m.x32 m.x02 m.x12 m.x22 b
  ⟨⟨x.1, y.1, z.1⟩, ⟨x.2, y.2, z.2⟩⟩

/-- `points[0..7]`: index bit 2 selects `max.x`, bit 1 `max.y`, bit 0 `max.z` -/
def corners (b : Box3 α) : List (V3 α) :=
  [⟨b.min.x, b.min.y, b.min.z⟩, ⟨b.min.x, b.min.y, b.max.z⟩, ⟨b.min.x, b.max.y, b.min.z⟩, ⟨b.min.x, b.max.y, b.max.z⟩,
   ⟨b.max.x, b.min.y, b.min.z⟩, ⟨b.max.x, b.min.y, b.max.z⟩, ⟨b.max.x, b.max.y, b.min.z⟩, ⟨b.max.x, b.max.y, b.max.z⟩]

/-- `for (int i = 0; i < 8; i++) acc.extendBy (points[i] * m);` starting from `start` -/
def projective (start : Box3 α) (b : Box3 α) (m : M44 α) : Box3 α :=
  (corners b).foldl (fun acc c => Gen.Box3.extendByPoint acc (Gen.BoxAlgo.vecTimesM44 c m)) start

/-- `Box<Vec3<S>> transform (const Box<Vec3<S>>& box, const Matrix44<T>& m)` -/
def transform (tmax tlowest : α) (b : Box3 α) (m : M44 α) : Box3 α :=
  if emptyOrInfinite tmax tlowest b then b
  else if isAffine m then arvo b m                       -- `Box newBox;` every member is then overwritten
  else projective (Gen.Box3.default tmax tlowest) b m    -- `Box newBox;` (default = empty), extended 8 times

/-- `void transform (const Box<Vec3<S>>& box, const Matrix44<T>& m, Box<Vec3<S>>& result)`:
returns the final value of `result` (the old value is an input; after the repair 6dca912 every path overwrites it) -/
def transformOut (tmax tlowest : α) (b : Box3 α) (m : M44 α) (result : Box3 α) : Box3 α :=
  if emptyOrInfinite tmax tlowest b then b                 -- `{ result = box; return; }`
  else if isAffine m then arvo b m                         -- result.min[i] = result.max[i] = m[3][i]; += ...
  else projective (Gen.Box3.makeEmpty tmax tlowest result) b m   -- `result.makeEmpty ();` then `result.extendBy (points[i] * m)`

/-- `Box<Vec3<S>> affineTransform (const Box<Vec3<S>>& box, const Matrix44<T>& m)` -/
def affineTransform (tmax tlowest : α) (b : Box3 α) (m : M44 α) : Box3 α :=
  if emptyOrInfinite tmax tlowest b then b else arvo b m

/-- `void affineTransform (const Box<Vec3<S>>& box, const Matrix44<T>& m, Box<Vec3<S>>& result)` -/
def affineTransformOut (tmax tlowest : α) (b : Box3 α) (m : M44 α) (result : Box3 α) : Box3 α :=
  if Gen.Box3.isEmpty b then Gen.Box3.makeEmpty tmax tlowest result
  else if Gen.Box3.isInfinite tmax tlowest b then Gen.Box3.makeInfinite tmax tlowest result
  else arvo b m

end
end ImathVerif.BoxTransform
