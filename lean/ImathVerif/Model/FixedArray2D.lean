import ImathVerif.Model.FixedArray
/-!
# Hand models of `FixedArray2D<T>` and `FixedMatrix<T>` (C19) — core Lean only

Sources: `/repo/src/python/PyImath/PyImathFixedArray2D.h` (lines 156-372, 423-450),
`/repo/src/python/PyImath/PyImathFixedMatrix.h` (lines 95-200).  Both share the
heap of `Model/FixedArray.lean`; a matrix row (`FixedMatrix::getitem`) is a
1-D `View` into the matrix' allocation.
-/
namespace ImathVerif.FixedArray2D
open ImathVerif.FixedArray

/-- data members of `FixedArray2D<T>`: `_ptr`, `_length`, `_stride` -/
structure View2D where
  buf : Nat
  lenX : Nat
  lenY : Nat
  strideX : Nat
  strideY : Nat
  deriving DecidableEq, Repr, Inhabited

/-- `operator()(i,j)`: `_ptr[_stride.x*(j*_stride.y + i)]` -/
def View2D.pos (v : View2D) (i j : Nat) : Nat := v.strideX * (j * v.strideY + i)

def View2D.get (h : Heap) (v : View2D) (i j : Nat) : Except Err Int := h.rd v.buf (v.pos i j)
def View2D.set (h : Heap) (v : View2D) (i j : Nat) (x : Int) : Except Err Heap := h.wr v.buf (v.pos i j) x

/-- `FixedArray2D(lengthX, lengthY)` filled with `vals` (row-major in `j`) -/
def alloc2D (h : Heap) (lenX lenY : Nat) (vals : List Int) : Heap × View2D :=
  (h ++ [vals], { buf := h.length, lenX := lenX, lenY := lenY, strideX := 1, strideY := lenX })

/-- `extract_slice_indices` of FixedArray2D: rejects `e < 0` (so a backward slice reaching index 0 raises) -/
def extract2D (len : Nat) (idx : PyIdx) : Except Err SliceIdx := extractSliceIndices len idx 0 0

/-- `getitem(i, j)` (exposed as `.item`) -/
def item (h : Heap) (v : View2D) (i j : Int) : Except Err Int :=
  match canonicalIndex v.lenX i with
  | .error e => .error e
  | .ok ci =>
    match canonicalIndex v.lenY j with
    | .error e => .error e
    | .ok cj => v.get h ci cj

/-- the pairs `(i,j)` in the order `for j ... for i ...` -/
def pairsJI (nx ny : Nat) : List (Nat × Nat) :=
  (List.range ny).flatMap (fun j => (List.range nx).map (fun i => (i, j)))

/-- `getslice(index)` with a 2-tuple -/
def getslice2D (h : Heap) (v : View2D) (ix iy : PyIdx) : Except Err (Heap × View2D) :=
  match extract2D v.lenX ix with
  | .error e => .error e
  | .ok sx =>
    match extract2D v.lenY iy with
    | .error e => .error e
    | .ok sy =>
      match mapE (fun p => v.get h (sx.at p.1) (sy.at p.2)) (pairsJI sx.slicelength sy.slicelength) with
      | .error e => .error e
      | .ok vals => .ok (alloc2D h sx.slicelength sy.slicelength vals)

/-- nested loop `for (a = 0; a < na; ++a) for (b = 0; b < nb; ++b) body(a, b)` -/
def forLoop2 (body : Nat → Nat → Heap → Except Err Heap) (na nb : Nat) (h : Heap) : Except Err Heap :=
  forLoop (fun a h => forLoop (fun b h => body a b h) nb 0 h) na 0 h

/-- `setitem_scalar` -/
def setitemScalar2D (h : Heap) (v : View2D) (ix iy : PyIdx) (data : Int) : Except Err Heap :=
  match extract2D v.lenX ix with
  | .error e => .error e
  | .ok sx =>
    match extract2D v.lenY iy with
    | .error e => .error e
    | .ok sy =>
      forLoop2 (fun j i h => v.set h (sx.at i) (sy.at j) data) sy.slicelength sx.slicelength h

/-- `setitem_vector` (2-D source): loops `i` outer, `j` inner -/
def setitemVector2D (h : Heap) (v : View2D) (ix iy : PyIdx) (data : View2D) : Except Err Heap :=
  match extract2D v.lenX ix with
  | .error e => .error e
  | .ok sx =>
    match extract2D v.lenY iy with
    | .error e => .error e
    | .ok sy =>
      if data.lenX ≠ sx.slicelength ∨ data.lenY ≠ sy.slicelength then .error .srcDimMismatch else
      forLoop2 (fun i j h =>
        match data.get h i j with
        | .ok x => v.set h (sx.at i) (sy.at j) x
        | .error e => .error e) sx.slicelength sy.slicelength h

/-- `setitem_array1d`: `data[z]`, `z` counting `j`-major -/
def setitemArray1D (h : Heap) (v : View2D) (ix iy : PyIdx) (data : View) : Except Err Heap :=
  match extract2D v.lenX ix with
  | .error e => .error e
  | .ok sx =>
    match extract2D v.lenY iy with
    | .error e => .error e
    | .ok sy =>
      if data.length ≠ sx.slicelength * sy.slicelength then .error .srcDimMismatch else
      forLoop2 (fun j i h =>
        match data.get h (j * sx.slicelength + i) with
        | .ok x => v.set h (sx.at i) (sy.at j) x
        | .error e => .error e) sy.slicelength sx.slicelength h

/-- `match_dimension` of FixedArray2D (raises IndexError) -/
def matchDimension2D (v : View2D) (ox oy : Nat) : Except Err (Nat × Nat) :=
  if v.lenX ≠ ox ∨ v.lenY ≠ oy then .error .srcDimMismatch else .ok (v.lenX, v.lenY)

/-- `getslice_mask`: a full-size copy holding the selected elements, default value elsewhere -/
def getsliceMask2D (h : Heap) (v mask : View2D) : Except Err (Heap × View2D) :=
  match matchDimension2D v mask.lenX mask.lenY with
  | .error e => .error e
  | .ok (lx, ly) =>
    match mapE (fun p => (
        match mask.get h p.1 p.2 with
        | .error e => .error e
        | .ok m => if m != 0 then v.get h p.1 p.2 else .ok 0 : Except Err Int)) (pairsJI lx ly) with
    | .error e => .error e
    | .ok vals => .ok (alloc2D h lx ly vals)

/-- `setitem_scalar_mask` -/
def setitemScalarMask2D (h : Heap) (v mask : View2D) (data : Int) : Except Err Heap :=
  match matchDimension2D v mask.lenX mask.lenY with
  | .error e => .error e
  | .ok (lx, ly) =>
    forLoop2 (fun j i h =>
      match mask.get h i j with
      | .error e => .error e
      | .ok m => if m != 0 then v.set h i j data else .ok h) ly lx h

/-- `setitem_vector_mask` -/
def setitemVectorMask2D (h : Heap) (v mask data : View2D) : Except Err Heap :=
  match matchDimension2D v mask.lenX mask.lenY with
  | .error e => .error e
  | .ok (lx, ly) =>
    if data.lenX = lx ∧ data.lenY = ly then
      forLoop2 (fun j i h =>
        match mask.get h i j with
        | .error e => .error e
        | .ok m =>
          if m != 0 then
            match data.get h i j with
            | .ok x => v.set h i j x
            | .error e => .error e
          else .ok h) ly lx h
    else .error .srcDimMismatch

/-! ## FixedMatrix -/

/-- packed branch of `setitem_array1d_mask`: `data[z++]` for every selected `(i,j)`, `j`-major -/
def packLoop2D (v mask : View2D) (data : View) : List (Nat × Nat) → Nat → Heap → Except Err Heap
  | [], _, h => .ok h
  | (i, j) :: rest, z, h =>
    match mask.get h i j with
    | .error e => .error e
    | .ok m =>
      if m != 0 then
        match data.get h z with
        | .error e => .error e
        | .ok x =>
          match v.set h i j x with
          | .error e => .error e
          | .ok h' => packLoop2D v mask data rest (z + 1) h'
      else packLoop2D v mask data rest z h

/-- `setitem_array1d_mask`: a 1-D right-hand side of `lenX*lenY` elements (read at `z = j*lenX + i`) or of exactly
    the number of selected elements (read in order) -/
def setitemArray1DMask (h : Heap) (v mask : View2D) (data : View) : Except Err Heap :=
  match matchDimension2D v mask.lenX mask.lenY with
  | .error e => .error e
  | .ok (lx, ly) =>
    if data.length = lx * ly then
      forLoop2 (fun j i h =>
        match mask.get h i j with
        | .error e => .error e
        | .ok m =>
          if m != 0 then
            match data.get h (j * lx + i) with
            | .ok x => v.set h i j x
            | .error e => .error e
          else .ok h) ly lx h
    else
      match mapE (fun p => mask.get h p.1 p.2) (pairsJI lx ly) with
      | .error e => .error e
      | .ok bits =>
        if data.length ≠ (bits.filter (· != 0)).length then .error .srcDimMismatch
        else packLoop2D v mask data (pairsJI lx ly) 0 h

/-- `ifelse_vector`: `choice(i,j) ? (*this)(i,j) : other(i,j)` into a fresh array -/
def ifelseVector2D (h : Heap) (v choice other : View2D) : Except Err (Heap × View2D) :=
  match matchDimension2D v choice.lenX choice.lenY with
  | .error e => .error e
  | .ok (lx, ly) =>
    match matchDimension2D v other.lenX other.lenY with
    | .error e => .error e
    | .ok _ =>
      match mapE (fun p => (
          match choice.get h p.1 p.2 with
          | .error e => .error e
          | .ok c => if c != 0 then v.get h p.1 p.2 else other.get h p.1 p.2 : Except Err Int)) (pairsJI lx ly) with
      | .error e => .error e
      | .ok vals => .ok (alloc2D h lx ly vals)

/-- `ifelse_scalar` -/
def ifelseScalar2D (h : Heap) (v choice : View2D) (other : Int) : Except Err (Heap × View2D) :=
  match matchDimension2D v choice.lenX choice.lenY with
  | .error e => .error e
  | .ok (lx, ly) =>
    match mapE (fun p => (
        match choice.get h p.1 p.2 with
        | .error e => .error e
        | .ok c => if c != 0 then v.get h p.1 p.2 else .ok other : Except Err Int)) (pairsJI lx ly) with
    | .error e => .error e
    | .ok vals => .ok (alloc2D h lx ly vals)

/-- `__len__` = `totalLen()` = `_size` -/
def View2D.totalLen (v : View2D) : Nat := v.lenX * v.lenY

/-- data members of `FixedMatrix<T>` -/
structure MatView where
  buf : Nat
  off : Nat
  rows : Nat
  cols : Nat
  rowStride : Nat
  colStride : Nat
  deriving DecidableEq, Repr, Inhabited

/-- `element(i,j)`: `_ptr[i*_rowStride*_cols*_colStride + j*_colStride]` -/
def MatView.pos (m : MatView) (i j : Nat) : Nat :=
  m.off + (i * m.rowStride * m.cols * m.colStride + j * m.colStride)

def MatView.get (h : Heap) (m : MatView) (i j : Nat) : Except Err Int := h.rd m.buf (m.pos i j)
def MatView.set (h : Heap) (m : MatView) (i j : Nat) (x : Int) : Except Err Heap := h.wr m.buf (m.pos i j) x

def allocMat (h : Heap) (rows cols : Nat) (vals : List Int) : Heap × MatView :=
  (h ++ [vals], { buf := h.length, off := 0, rows := rows, cols := cols, rowStride := 1, colStride := 1 })

/-- `extract_slice_indices` of FixedMatrix: signed `Py_ssize_t` throughout, no validity test -/
structure MatSlice where
  start : Int
  step : Int
  slicelength : Int
  deriving DecidableEq, Repr

def extractMat (rows : Nat) (idx : PyIdx) : Except Err MatSlice :=
  match idx with
  | .slice a b c =>
    match sliceUnpack a b c with
    | .error e => .error e
    | .ok (s, e, st) =>
      let (s, _, sl) := sliceAdjust rows s e st
      .ok ⟨s, st, sl⟩
  | .int i =>
    match canonicalIndex rows i with     -- convert_index
    | .error e => .error e
    | .ok i => .ok ⟨i, 1, 1⟩

/-- row number `start + i*step` (signed arithmetic); a negative value would index before the buffer -/
def MatSlice.row (s : MatSlice) (i : Nat) : Except Err Nat :=
  let r := s.start + i * s.step
  if r < 0 then .error .oob else .ok r.toNat

/-- `getitem(int index)`: a writable 1-D view on one row (return_internal_reference) -/
def matRow (m : MatView) (index : Int) : Except Err View :=
  match canonicalIndex m.rows index with
  | .error e => .error e
  | .ok i => .ok { buf := m.buf, off := m.off + i * m.rowStride * m.cols * m.colStride, length := m.cols,
                   stride := m.colStride, writable := true, indices := none, unmaskedLength := 0 }

def pairsIJ (ni nj : Nat) : List (Nat × Nat) :=
  (List.range ni).flatMap (fun i => (List.range nj).map (fun j => (i, j)))

/-- `getslice`: a fresh matrix -/
def getsliceMat (h : Heap) (m : MatView) (idx : PyIdx) : Except Err (Heap × MatView) :=
  match extractMat m.rows idx with
  | .error e => .error e
  | .ok s =>
    match mapE (fun p => (
        match s.row p.1 with
        | .error e => .error e
        | .ok r => m.get h r p.2 : Except Err Int)) (pairsIJ s.slicelength.toNat m.cols) with
    | .error e => .error e
    | .ok vals => .ok (allocMat h s.slicelength.toNat m.cols vals)

/-- `setitem_scalar` -/
def setitemScalarMat (h : Heap) (m : MatView) (idx : PyIdx) (data : Int) : Except Err Heap :=
  match extractMat m.rows idx with
  | .error e => .error e
  | .ok s =>
    forLoop2 (fun i j h =>
      match s.row i with
      | .error e => .error e
      | .ok r => m.set h r j data) s.slicelength.toNat m.cols h

/-- `setitem_vector`: every selected row := `data` -/
def setitemVectorMat (h : Heap) (m : MatView) (idx : PyIdx) (data : View) : Except Err Heap :=
  match extractMat m.rows idx with
  | .error e => .error e
  | .ok s =>
    if data.length ≠ m.cols then .error .srcDimMismatch else
    forLoop2 (fun i j h =>
      match s.row i with
      | .error e => .error e
      | .ok r =>
        match data.get h j with
        | .error e => .error e
        | .ok x => m.set h r j x) s.slicelength.toNat m.cols h

/-- `setitem_matrix` -/
def setitemMatrixMat (h : Heap) (m : MatView) (idx : PyIdx) (data : MatView) : Except Err Heap :=
  match extractMat m.rows idx with
  | .error e => .error e
  | .ok s =>
    if (data.rows : Int) ≠ s.slicelength ∨ data.cols ≠ m.cols then .error .srcDimMismatch else
    forLoop2 (fun i j h =>
      match s.row i with
      | .error e => .error e
      | .ok r =>
        match data.get h i j with
        | .error e => .error e
        | .ok x => m.set h r j x) s.slicelength.toNat m.cols h

end ImathVerif.FixedArray2D
