/-!
# Hand model of `StringTableT<T>` and the string part of `StringArrayT<T>` (C19) — core Lean only

Sources: `/repo/src/python/PyImath/PyImathStringTable.cpp:16-70`,
`PyImathStringTable.h:83-140` (a `boost::multi_index_container` with two
`ordered_unique` keys: the index and the string), `PyImathStringArray.cpp`
(`getitem_string`, `setitem_string_scalar`).

The container is a list of entries `(index, string)`.  `insert` mirrors
`ordered_unique` semantics: it is refused when either key is already present.
-/
namespace ImathVerif.StringTable

structure Entry where
  i : Nat
  s : String
  deriving DecidableEq, Repr

abbrev Table := List Entry

/-- `strings.find(s)` -/
def findStr (t : Table) (s : String) : Option Entry := t.find? (fun e => e.s == s)
/-- `indices.find(index)` -/
def findIdx (t : Table) (i : Nat) : Option Entry := t.find? (fun e => e.i == i)

/-- `_table.insert(entry)`: both keys are `ordered_unique` -/
def insert (t : Table) (e : Entry) : Table :=
  if (findStr t e.s).isSome || (findIdx t e.i).isSome then t else t ++ [e]

/-- `lookup(const T& s)`: `none` is the `std::domain_error` -/
def lookupStr (t : Table) (s : String) : Option Nat := (findStr t s).map (·.i)
/-- `lookup(StringTableIndex)` -/
def lookupIdx (t : Table) (i : Nat) : Option String := (findIdx t i).map (·.s)

def indexMax : Nat := 4294967295   -- std::numeric_limits<uint32_t>::max()

/-- `intern(s)`; `none` is the "would exceed maximum size" error -/
def intern (t : Table) (s : String) : Option (Table × Nat) :=
  match findStr t s with
  | some e => some (t, e.i)
  | none =>
    let next := t.length
    if next > indexMax then none
    else some (insert t ⟨next, s⟩, next)

/-- `StringArrayT`: a table and one table index per element -/
structure ArrState where
  table : Table
  idx : List Nat
  deriving DecidableEq, Repr

def ArrState.empty : ArrState := ⟨[], []⟩

/-- `createUniformArray(initialValue, length)` -/
def createUniform (s : String) (n : Nat) : Option ArrState :=
  match intern [] s with
  | some (t, i) => some ⟨t, List.replicate n i⟩
  | none => none

/-- `getitem_string(i)` for a canonical index: `_table.lookup((*this)[i])` -/
def getitemString (a : ArrState) (i : Nat) : Option String :=
  match a.idx[i]? with
  | some k => lookupIdx a.table k
  | none => none

/-- `setitem_string_scalar` on one canonical index: `di = _table.intern(data); (*this)[i] = di` -/
def setitemString (a : ArrState) (i : Nat) (s : String) : Option ArrState :=
  if i < a.idx.length then
    match intern a.table s with
    | some (t, di) => some ⟨t, a.idx.set i di⟩
    | none => none
  else none

/-- a whole sequence of element assignments -/
def setMany : ArrState → List (Nat × String) → Option ArrState
  | a, [] => some a
  | a, (i, s) :: rest =>
    match setitemString a i s with
    | some a' => setMany a' rest
    | none => none


/-! ## slice / mask / array forms (`setitem_string_scalar` with a slice, `setitem_string_scalar_mask`,
`setitem_string_vector`, `setitem_string_vector_mask`, `getslice_string`, `==` / `!=`)

`pos` is the list of (canonical) positions the subscript selects — `start + i*step` of `extract_slice_indices`, or
the positions where the mask is non-zero — computed by the index machinery of `Model/FixedArray.lean`. -/

/-- `di = _table.intern(data); for p in pos: (*this)[p] = di` -/
def setPositions (a : ArrState) (pos : List Nat) (s : String) : Option ArrState :=
  if pos.all (· < a.idx.length) then
    match intern a.table s with
    | some (t, di) => some ⟨t, pos.foldl (fun l p => l.set p di) a.idx⟩
    | none => none
  else none

/-- `for (p, i) in zip(pos, 0..): (*this)[p] = _table.intern(data._table.lookup(data[i]))` — the string is looked up
    in the SOURCE's table and re-interned in the destination's; `data` may be the array itself (it is read as the
    loop goes) -/
def setFromArray : ArrState → (Nat → ArrState → Option String) → List (Nat × Nat) → Option ArrState
  | a, _, [] => some a
  | a, rd, (p, i) :: rest =>
    match rd i a with
    | none => none
    | some s =>
      match setitemString a p s with
      | none => none
      | some a' => setFromArray a' rd rest

/-- `a[pos] = b` for another array `b` -/
def setVecString (a b : ArrState) (pos : List Nat) : Option ArrState :=
  setFromArray a (fun i _ => getitemString b i) (pos.zip (List.range pos.length))

/-- `getslice_string`: a new array with its OWN table, interning the selected strings in order -/
def getSliceString (a : ArrState) (pos : List Nat) : Option ArrState :=
  pos.foldl (fun acc p =>
    match acc, getitemString a p with
    | some r, some s =>
      match intern r.table s with
      | some (t, di) => some ⟨t, r.idx ++ [di]⟩
      | none => none
    | _, _ => none) (some ⟨[], []⟩)

/-- one step of `a == b`: both strings are looked up, each in its own table -/
def eqStep (a b : ArrState) (i : Nat) (acc : Option (List Bool)) : Option (List Bool) :=
  match getitemString a i, getitemString b i, acc with
  | some x, some y, some l => some ((x == y) :: l)
  | _, _, _ => none

/-- `a == b` element-wise (strings compared through BOTH tables); `none`: a lookup failed -/
def eqArrays (a b : ArrState) : Option (List Bool) :=
  (List.range a.idx.length).foldr (eqStep a b) (some [])

/-- `a == s`: `hasString` then index comparison -/
def eqString (a : ArrState) (s : String) : List Bool :=
  match lookupStr a.table s with
  | some k => a.idx.map (· == k)
  | none => a.idx.map (fun _ => false)

end ImathVerif.StringTable
