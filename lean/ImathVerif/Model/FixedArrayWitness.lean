import ImathVerif.Model.FixedArray
/-!
Concrete witness programs for C19 (core only: the driver prints them as op lines so that the
check replays EXACTLY the programs the theorems in `Props/C19.lean` are about against the real module).
-/
namespace ImathVerif.FixedArray

/-- `a = IntArray([10,11,12]); a.makeReadOnly(); m = IntArray([1,0,1]); v = a[m]` -/
def witnessSetup : List Op :=
  [.alloc [10, 11, 12], .makeReadOnly 0, .alloc [1, 0, 1], .getmask 0 1]

/-- `v += 5` through the masked reference of the read-only array -/
def witnessMaskedInplaceScalar : List Op := [.iaddScalar 2 5]

/-- `v += IntArray([7,8])` -/
def witnessMaskedInplaceVector : List Op := [.alloc [7, 8], .iaddVector 2 3]

/-- `b = IntArray([10,11]); m = IntArray([0,1]); f = FloatArray(b[m]); f[0]` -/
def witnessConvert : List Op :=
  [.alloc [10, 11], .alloc [0, 1], .getmask 0 1, .convert 2, .getitem 3 0]

/-- `a = IntArray([1,2]); a.makeReadOnly(); a.ifelse(IntArray([0,1]), 9)` -/
def witnessIfelseReadOnly : List Op := [.alloc [1, 2], .makeReadOnly 0, .alloc [0, 1], .ifelseScalar 0 1 9]

/-- `a = IntArray([10,11,12]); m = a[IntArray([1,1,0])]; m[IntArray([1,0])] = 7` -/
def witnessMaskOnMasked : List Op :=
  [.alloc [10, 11, 12], .alloc [1, 1, 0], .getmask 0 1, .alloc [1, 0], .setScalarMask 2 3 7]

/-- `IntArray(0)[::-1]` -/
def witnessEmptyBackward : List Op := [.alloc [], .getslice 0 (.slice none none (some (-1)))]

def idxLine : PyIdx → String
  | .int i => s!"i:{i}"
  | .slice a b c =>
    let f : Option Int → String := fun x => match x with | none => "N" | some v => toString v
    s!"s:{f a}:{f b}:{f c}"

def valsLine (l : List Int) : String := if l.isEmpty then "-" else ",".intercalate (l.map toString)

/-- the op line of the driver / harness protocol -/
def Op.line : Op → String
  | .alloc vals => s!"alloc {valsLine vals}"
  | .len v => s!"len {v}"
  | .getitem v i => s!"getitem {v} {i}"
  | .getslice v idx => s!"getslice {v} {idxLine idx}"
  | .getmask v m => s!"getmask {v} {m}"
  | .copy v => s!"copy {v}"
  | .convert v => s!"convert {v}"
  | .setScalar v idx x => s!"setscalar {v} {idxLine idx} {x}"
  | .setScalarMask v m x => s!"setscalarmask {v} {m} {x}"
  | .setVector v idx d => s!"setvector {v} {idxLine idx} {d}"
  | .setVectorMask v m d => s!"setvectormask {v} {m} {d}"
  | .ifelseScalar v c x => s!"ifelses {v} {c} {x}"
  | .ifelseVector v c o => s!"ifelsev {v} {c} {o}"
  | .makeReadOnly v => s!"ro {v}"
  | .iaddScalar v x => s!"iadds {v} {x}"
  | .iaddVector v d => s!"iaddv {v} {d}"
  | .allocWide w cells => s!"allocw {w} {valsLine cells}"
  | .comp v k => s!"comp {v} {k}"

/-- `a = V3iArray([(0,10,20),(1,11,21),(2,12,22),(3,13,23)]); v = a[IntArray([0,1,0,1])]; c = v.x; c[1]; c[1] = 99; a[3].x`
    (op lines: the component operations are not part of `Op`) -/
def witnessComponentOps : List Op :=
  [.allocWide 3 [0, 10, 20, 1, 11, 21, 2, 12, 22, 3, 13, 23], .alloc [0, 1, 0, 1], .getmask 0 1, .comp 2 0, .getitem 3 1,
   .setScalar 3 (.int 1) 99, .getitem 0 3, .getitem 0 2]

/-- the same program on the model functions: (x components seen through `v.x`, whole storage after `v.x[1] = 99`) -/
def witnessComponent (keepsMask : Bool) : Except Err (List Int × List Int) :=
  let (h0, a) := allocWide [] 3 [0, 10, 20, 1, 11, 21, 2, 12, 22, 3, 13, 23]
  let (h1, m) := alloc h0 [0, 1, 0, 1]
  match getsliceMask h1 a m with
  | .error e => .error e
  | .ok v =>
    match compView keepsMask v 0 with
    | .error e => .error e
    | .ok c =>
      match c.readAll h1 c.length with
      | .error e => .error e
      | .ok xs =>
        match setitemScalar h1 c (.int 1) 99 with
        | .error e => .error e
        | .ok h2 => .ok (xs, (h2[0]?).getD [])

/-- `va = VIntArray(2); va.size[1] = 3; va.size[1]; va.size[IntArray([0,1])]` — an int and a list of sizes are intended;
    as registered `SizeHelper.__getitem__` resolves every key to `getitem_slice (PyObject*)` -/
def witnessVSizeLines : List String := ["v new 2", "v setsize 0 i:1 3", "v size 0 1", "alloci 0,1", "v sizemask 0 0"]

def witnesses : List (String × List Op) :=
  [("masked-inplace-scalar", witnessSetup ++ witnessMaskedInplaceScalar),
   ("masked-inplace-vector", witnessSetup ++ witnessMaskedInplaceVector),
   ("convert-from-masked", witnessConvert),
   ("slice-empty-backward", witnessEmptyBackward),
   ("ifelse-readonly", witnessIfelseReadOnly),
   ("mask-on-masked", witnessMaskOnMasked),
   ("component-of-masked", witnessComponentOps)]

end ImathVerif.FixedArray
