import ImathVerif.Model.FixedArray
/-!
# Hand model of `PyImath::FixedVArray<T>` (C19) — core Lean only

Source: `/repo/src/python/PyImath/PyImathFixedVArray.cpp` / `.h`: an array of ITEMS, each a `std::vector<T>` (a row of
variable length).  The Python classes `VIntArray`, `VFloatArray`, `VV2iArray`, `VV2fArray`.

* The heap is a list of allocations (`boost::shared_array<std::vector<T>>`), each a list of rows.
* A view mirrors `_ptr` (always the start of the allocation and `_stride` always 1 for objects made from Python),
  `_length`, `_writable`, `_indices`, `_unmaskedLength`.
* Index machinery is the one of `Model/FixedArray.lean` (`canonicalIndex`, `extractSliceIndices`, `maskIndices`); the
  anonymous-namespace copy of `extract_slice_indices` in FixedVArray.cpp still tests `s < 0` (`minStart = 0`).
* Write loops may raise in the middle (`length of data does not match length of array element`): the rows written before
  stay written, so every write returns the heap AND an optional error (`WRes`).
* `va[i]` hands out a `FixedArray<T>` on `&row[0]`; the model offers the two things Python does with it at once:
  read all its elements (`getRow`) and store one element (`setElem`).
-/
namespace ImathVerif.FixedVArray
open ImathVerif.FixedArray

abbrev VHeap := List (List (List Int))

structure VView where
  buf : Nat
  length : Nat
  writable : Bool
  indices : Option (List Nat)
  unmaskedLength : Nat
  deriving DecidableEq, Repr, Inhabited

def VHeap.rd (h : VHeap) (b p : Nat) : Except Err (List Int) :=
  match h[b]? with
  | some rows => match rows[p]? with
    | some r => .ok r
    | none => .error .oob
  | none => .error .oob

def VHeap.wr (h : VHeap) (b p : Nat) (r : List Int) : Except Err VHeap :=
  match h[b]? with
  | some rows => if p < rows.length then .ok (h.set b (rows.set p r)) else .error .oob
  | none => .error .oob

/-- `(_indices ? raw_ptr_index(i) : i) * _stride` -/
def VView.slot (v : VView) (i : Nat) : Except Err Nat :=
  match v.indices with
  | none => .ok i
  | some idx => match idx[i]? with
    | some r => .ok r
    | none => .error .oob

def VView.isMasked (v : VView) : Bool := v.indices.isSome

/-- a fresh allocation and the dense writable view on it -/
def allocV (h : VHeap) (rows : List (List Int)) : VHeap × VView :=
  (h ++ [rows], ⟨h.length, rows.length, true, none, 0⟩)

/-- `FixedVArray(const FixedArray<int>& size, const T& initialValue)` -/
def newSizes (h : VHeap) (sizes : List Int) (x : Int) : Except Err (VHeap × VView) :=
  if sizes.any (· < 0) then .error .domainError
  else .ok (allocV h (sizes.map (fun k => List.replicate k.toNat x)))

/-- the row behind `va[index]` -/
def rowSlot (v : VView) (index : Int) : Except Err Nat :=
  match canonicalIndex v.length index with
  | .error e => .error e
  | .ok i => v.slot i

/-- `list(va[index])` -/
def getRow (h : VHeap) (v : VView) (index : Int) : Except Err (List Int) :=
  match rowSlot v index with
  | .error e => .error e
  | .ok p => h.rd v.buf p

/-- `va[i][j] = x`: the row view inherits `_writable`; `FixedArray::setitem_scalar` tests it before the index -/
def setElem (h : VHeap) (v : VView) (i j : Int) (x : Int) : Except Err VHeap :=
  match rowSlot v i with
  | .error e => .error e
  | .ok p =>
    match h.rd v.buf p with
    | .error e => .error e
    | .ok row =>
      if !v.writable then .error .readOnly else
      match canonicalIndex row.length j with
      | .error e => .error e
      | .ok k => h.wr v.buf p (row.set k x)

/-- `_ptr[raw_ptr_index(start + i*step)*_stride]` resp. `_ptr[(start + i*step)*_stride]` -/
def VView.sliceSlot (v : VView) (s : SliceIdx) (i : Nat) : Except Err Nat := v.slot (s.at i)

def VView.readSliceRow (h : VHeap) (v : VView) (s : SliceIdx) (i : Nat) : Except Err (List Int) :=
  match v.sliceSlot s i with
  | .error e => .error e
  | .ok p => h.rd v.buf p

/-- `extract_slice_indices` of FixedVArray.cpp: `s < 0 || e < -1 || sl < 0` -/
def extractV (len : Nat) (idx : PyIdx) : Except Err SliceIdx := extractSliceIndices len idx (-1) 0

/-- `getslice`: a fresh array holding copies of the selected rows -/
def getsliceV (h : VHeap) (v : VView) (idx : PyIdx) : Except Err (VHeap × VView) :=
  match extractV v.length idx with
  | .error e => .error e
  | .ok s =>
    match mapE (v.readSliceRow h s) (List.range s.slicelength) with
    | .error e => .error e
    | .ok rows => .ok (allocV h rows)

/-- masked-reference constructor `FixedVArray(FixedVArray& f, const FixedArray<int>& mask)` (mask already read) -/
def getmaskV (v : VView) (bits : List Int) : Except Err VView :=
  if v.isMasked then .error .maskedMask
  else if v.length ≠ bits.length then .error .dimMismatch
  else
    let idx := maskIndices bits
    .ok ⟨v.buf, idx.length, v.writable, some idx, v.length⟩

/-- `match_dimension(mask, strictComparison)` -/
def matchDim (v : VView) (otherLen : Nat) (strict : Bool) : Except Err Nat :=
  if v.length = otherLen then .ok v.length
  else if strict then .error .dimMismatch
  else if v.isMasked ∧ v.unmaskedLength = otherLen then .ok v.length
  else .error .dimMismatch

/-- result of a write: the heap (possibly partially written) and the exception raised, if any -/
abbrev WRes := VHeap × Option Err

def loopV (body : Nat → VHeap → Except Err VHeap) : Nat → Nat → VHeap → WRes
  | 0, _, h => (h, none)
  | n+1, i, h =>
    match body i h with
    | .ok h' => loopV body n (i+1) h'
    | .error e => (h, some e)

/-- `d[j] = data[j]` for every `j` after the length test -/
def assignRow (b : Nat) (data : List Int) (p : Nat) (h : VHeap) : Except Err VHeap :=
  match h.rd b p with
  | .error e => .error e
  | .ok d => if data.length ≠ d.length then .error .rowLenMismatch else h.wr b p data

/-- `setitem_scalar (index, FixedArray<T> data)`: every selected item receives the elements of `data` -/
def setRow (h : VHeap) (v : VView) (idx : PyIdx) (data : List Int) : WRes :=
  if !v.writable then (h, some .readOnly) else
  match extractV v.length idx with
  | .error e => (h, some e)
  | .ok s =>
    loopV (fun i h1 => match v.sliceSlot s i with
                       | .error e => .error e
                       | .ok p => assignRow v.buf data p h1) s.slicelength 0 h

/-- `setitem_scalar_mask`: on a masked reference the mask is not looked at -/
def setRowMask (h : VHeap) (v : VView) (bits : List Int) (data : List Int) : WRes :=
  if !v.writable then (h, some .readOnly) else
  match matchDim v bits.length false with
  | .error e => (h, some e)
  | .ok len =>
    if v.isMasked then
      loopV (fun i h1 => match v.slot i with
                         | .error e => .error e
                         | .ok p => assignRow v.buf data p h1) len 0 h
    else
      loopV (fun i h1 => if bits[i]! != 0 then assignRow v.buf data i h1 else .ok h1) len 0 h

/-- `data[i]` through the const `operator[]` of a `FixedVArray` -/
def VView.getItem (h : VHeap) (d : VView) (i : Nat) : Except Err (List Int) :=
  match d.slot i with
  | .error e => .error e
  | .ok p => h.rd d.buf p

/-- `setitem_vector (index, FixedVArray data)` -/
def setVec (h : VHeap) (v : VView) (idx : PyIdx) (d : VView) : WRes :=
  if !v.writable then (h, some .readOnly) else
  match extractV v.length idx with
  | .error e => (h, some e)
  | .ok s =>
    if d.length ≠ s.slicelength then (h, some .srcDimMismatch) else
    loopV (fun i h1 => match d.getItem h1 i with
                       | .error e => .error e
                       | .ok r => match v.sliceSlot s i with
                         | .error e => .error e
                         | .ok p => h1.wr v.buf p r) s.slicelength 0 h

/-- the packed branch of the `*_vector_mask` functions: `dataIndex` advances with every selected `i` -/
def packLoopV (sel : Nat → Bool) (wr : Nat → Nat → VHeap → Except Err VHeap) : Nat → Nat → Nat → VHeap → WRes
  | 0, _, _, h => (h, none)
  | n+1, i, di, h =>
    if sel i then
      match wr i di h with
      | .ok h' => packLoopV sel wr n (i+1) (di+1) h'
      | .error e => (h, some e)
    else packLoopV sel wr n (i+1) di h

/-- `setitem_vector_mask (mask, FixedVArray data)` -/
def setVecMask (h : VHeap) (v : VView) (bits : List Int) (d : VView) : WRes :=
  if !v.writable then (h, some .readOnly) else
  if v.isMasked then (h, some .maskedSetMask) else
  match matchDim v bits.length true with
  | .error e => (h, some e)
  | .ok len =>
    let put (i di : Nat) (h1 : VHeap) : Except Err VHeap :=
      match d.getItem h1 di with
      | .error e => .error e
      | .ok r => h1.wr v.buf i r
    if d.length = len then
      loopV (fun i h1 => if bits[i]! != 0 then put i i h1 else .ok h1) len 0 h
    else if d.length ≠ (bits.filter (· != 0)).length then (h, some .maskDataMismatch)
    else packLoopV (fun i => bits[i]! != 0) put len 0 0 h

/-! ## `SizeHelper` (`va.size`) -/

/-- `std::vector::resize(k)`: truncate, or extend with `T()` -/
def resizeRow (r : List Int) (k : Nat) : List Int := (r ++ List.replicate (k - r.length) 0).take k

def resizeAt (b : Nat) (k : Nat) (p : Nat) (h : VHeap) : Except Err VHeap :=
  match h.rd b p with
  | .error e => .error e
  | .ok r => h.wr b p (resizeRow r k)

/-- `va.size[index]` -/
def sizeGet (h : VHeap) (v : VView) (index : Int) : Except Err Nat :=
  match getRow h v index with
  | .error e => .error e
  | .ok r => .ok r.length

/-- `va.size[slice]`: the values of the fresh `IntArray` -/
def sizeSlice (h : VHeap) (v : VView) (idx : PyIdx) : Except Err (List Int) :=
  match extractV v.length idx with
  | .error e => .error e
  | .ok s =>
    match mapE (v.readSliceRow h s) (List.range s.slicelength) with
    | .error e => .error e
    | .ok rows => .ok (rows.map (fun r => (r.length : Int)))

/-- `va.size[mask]` -/
def sizeMask (h : VHeap) (v : VView) (bits : List Int) : Except Err (List Int) :=
  if bits.length ≠ v.length then .error .dimMismatch else
  match mapE (v.getItem h) (maskIndices bits) with
  | .error e => .error e
  | .ok rows => .ok (rows.map (fun r => (r.length : Int)))

/-- `va.size[index] = k` -/
def setSize (h : VHeap) (v : VView) (idx : PyIdx) (k : Nat) : WRes :=
  if !v.writable then (h, some .readOnly) else
  match extractV v.length idx with
  | .error e => (h, some e)
  | .ok s =>
    loopV (fun i h1 => match v.sliceSlot s i with
                       | .error e => .error e
                       | .ok p => resizeAt v.buf k p h1) s.slicelength 0 h

/-- `va.size[mask] = k` -/
def setSizeMask (h : VHeap) (v : VView) (bits : List Int) (k : Nat) : WRes :=
  if !v.writable then (h, some .readOnly) else
  match matchDim v bits.length false with
  | .error e => (h, some e)
  | .ok len =>
    if v.isMasked then
      loopV (fun i h1 => match v.slot i with
                         | .error e => .error e
                         | .ok p => resizeAt v.buf k p h1) len 0 h
    else
      loopV (fun i h1 => if bits[i]! != 0 then resizeAt v.buf k i h1 else .ok h1) len 0 h

/-- `va.size[index] = IntArray` -/
def setSizeVec (h : VHeap) (v : VView) (idx : PyIdx) (sizes : List Int) : WRes :=
  if !v.writable then (h, some .readOnly) else
  match extractV v.length idx with
  | .error e => (h, some e)
  | .ok s =>
    if sizes.length ≠ s.slicelength then (h, some .srcDimMismatch) else
    loopV (fun i h1 => match v.sliceSlot s i with
                       | .error e => .error e
                       | .ok p => resizeAt v.buf (sizes[i]!).toNat p h1) s.slicelength 0 h

/-- `va.size[mask] = IntArray` -/
def setSizeVecMask (h : VHeap) (v : VView) (bits : List Int) (sizes : List Int) : WRes :=
  if !v.writable then (h, some .readOnly) else
  if v.isMasked then (h, some .maskedSetMask) else
  match matchDim v bits.length true with
  | .error e => (h, some e)
  | .ok len =>
    let put (i di : Nat) (h1 : VHeap) : Except Err VHeap := resizeAt v.buf (sizes[di]!).toNat i h1
    if sizes.length = len then
      loopV (fun i h1 => if bits[i]! != 0 then put i i h1 else .ok h1) len 0 h
    else if sizes.length ≠ (bits.filter (· != 0)).length then (h, some .maskDataMismatch)
    else packLoopV (fun i => bits[i]! != 0) put len 0 0 h

/-- all rows of a view, as Python sees them (`[list(va[i]) for i in range(len(va))]`) -/
def VView.readAll (h : VHeap) (v : VView) : Except Err (List (List Int)) :=
  mapE (v.getItem h) (List.range v.length)

end ImathVerif.FixedVArray
