/-!
# Hand model of `PyImath::FixedArray<T>` (C19)  — core Lean only

Source: `/repo/src/python/PyImath/PyImathFixedArray.h`, in-place operators
through `PyImathAutovectorize.h` (`VectorizedVoidMemberFunction1`,
`VectorizedVoidMaskableMemberFunction1`), slice normalisation as CPython 3.11
`PySlice_Unpack` + `PySlice_AdjustIndices` (what the macro
`PySlice_GetIndicesEx` expands to).

* The heap is a list of buffers (`boost::shared_array<T>` allocations); a view
  mirrors the data members `_ptr` (`buf`,`off`), `_length`, `_stride`,
  `_writable`, `_indices`, `_unmaskedLength`.
* Every memory access goes through `Heap.rd` / `Heap.wr`, which return the
  model-only error `Err.oob` when the position is outside the buffer (undefined
  behaviour in C++).  "No access outside the buffer" is the statement that
  `oob` is unreachable.
* Loops that write into an EXISTING buffer are modelled as loops
  (`forLoop`), because the right-hand side may alias the destination.  Loops
  that fill a FRESH allocation (`getslice`, `ifelse`, converting constructor)
  are modelled by `mapE` over `0..n-1`: the fresh buffer cannot alias.
* `size_t` index arithmetic `start + i*step` with a negative `Py_ssize_t` step
  is modelled modulo 2^64 (`wrap64`).
* The model is parametrised by `Cfg`: each flag selects between the code AS IT
  IS and the evidently intended behaviour at one site.  Which variant the
  current tree corresponds to is decided by the correspondence run, never
  assumed.
-/
namespace ImathVerif.FixedArray

/-- error kinds; `pyClass` is the Python exception class Boost.Python raises -/
inductive Err
  | indexError       -- PyExc_IndexError "Index out of range"
  | srcDimMismatch   -- PyExc_IndexError "Dimensions of source do not match destination" (setitem_vector)
  | readOnly         -- std::invalid_argument "... read-only ..."
  | dimMismatch      -- std::invalid_argument "Dimensions of source do not match destination" (match_dimension)
  | maskDataMismatch -- std::invalid_argument "... either masked or unmasked"
  | maskedMask       -- std::invalid_argument "Masking an already-masked FixedArray ..."
  | maskedSetMask    -- std::invalid_argument "We don't support setting item masks for masked reference arrays."
  | isMasked         -- ReadOnlyDirectAccess on a masked array
  | notMasked        -- ReadOnlyMaskedAccess on an unmasked array
  | stepZero         -- ValueError "slice step cannot be zero"
  | domainError      -- std::domain_error "Slice extraction produced invalid ..."
  | rowLenMismatch   -- std::invalid_argument "FixedVArray::setitem: length of data does not match length of array element"
  | badRef           -- model only: the op names a view that does not exist
  | oob              -- model only: access outside the buffer (C++ undefined behaviour)
  deriving DecidableEq, Repr, Inhabited

def Err.name : Err → String
  | .indexError => "indexError" | .srcDimMismatch => "srcDimMismatch" | .readOnly => "readOnly"
  | .dimMismatch => "dimMismatch" | .maskDataMismatch => "maskDataMismatch" | .maskedMask => "maskedMask"
  | .maskedSetMask => "maskedSetMask" | .isMasked => "isMasked" | .notMasked => "notMasked"
  | .stepZero => "stepZero" | .domainError => "domainError" | .rowLenMismatch => "rowLenMismatch" | .badRef => "badRef" | .oob => "oob"

def Err.pyClass : Err → String
  | .indexError | .srcDimMismatch => "IndexError"
  | .domainError => "RuntimeError"
  | .badRef => "badRef" | .oob => "oob"
  | _ => "ValueError"

/-- which variant of the code is modelled -/
structure Cfg where
  /-- `WritableMaskedAccess` constructor throws on a read-only array (false: the
      `std::invalid_argument` temporary is constructed and discarded, as written) -/
  maskedAccessThrows : Bool
  /-- converting constructor `FixedArray(const FixedArray<S>&)` yields a dense array
      (false: copies `_unmaskedLength` and the source's raw indices over the dense copy, as written) -/
  convertDense : Bool
  /-- `extract_slice_indices` accepts the start `-1` CPython reports for an EMPTY backward slice
      (false: `s < 0` raises `std::domain_error`, as written — `a[::-1]` on an empty array) -/
  sliceEmptyBackward : Bool := true
  /-- `ifelse_*` read `(*this)[i]` through the const `operator[]` (false: the non-const one, which raises on a
      read-only array, as written) -/
  ifelseConstRead : Bool := true
  /-- `setitem_scalar_mask` on a masked reference looks at a mask of the reference's own length
      (false: writes every referenced element, as written) -/
  maskOnMaskedHonoured : Bool := false
  /-- the component getters (`Vec3Array_get` and its copies) keep the mask of a masked reference
      (false: `_indices` is dropped, as first examined) -/
  componentKeepsMask : Bool := true
  deriving DecidableEq, Repr

/-- the code as first examined (every defect present) — kept to document the former defects -/
def Cfg.asWritten : Cfg := ⟨false, false, false, false, false, false⟩
/-- every site as evidently intended -/
def Cfg.repaired : Cfg := ⟨true, true, true, true, true, true⟩
/-- THE CODE AS IT IS NOW (decided by the correspondence run of tools/props/c19.py on every run): the four
    defects are fixed upstream-side in /repo; `setitem_scalar_mask` on a masked reference still ignores the
    mask (recorded known finding) -/
def Cfg.current : Cfg := ⟨true, true, true, true, false, true⟩

/-- lowest admissible normalised start in `extract_slice_indices` -/
def Cfg.minStart (c : Cfg) : Int := if c.sliceEmptyBackward then -1 else 0

abbrev Heap := List (List Int)

def Heap.rd (h : Heap) (b p : Nat) : Except Err Int :=
  match h[b]? with
  | some buf => match buf[p]? with
    | some x => .ok x
    | none => .error .oob
  | none => .error .oob

def Heap.wr (h : Heap) (b p : Nat) (x : Int) : Except Err Heap :=
  match h[b]? with
  | some buf => if p < buf.length then .ok (h.set b (buf.set p x)) else .error .oob
  | none => .error .oob

/-- data members of `FixedArray<T>` -/
structure View where
  buf : Nat                      -- which allocation `_ptr` points into (`_handle`)
  off : Nat                      -- `_ptr` minus the start of the allocation
  length : Nat                   -- `_length`
  stride : Nat                   -- `_stride`
  writable : Bool                -- `_writable`
  indices : Option (List Nat)    -- `_indices` (non-null iff masked reference)
  unmaskedLength : Nat           -- `_unmaskedLength`
  deriving DecidableEq, Repr, Inhabited

def View.isMasked (v : View) : Bool := v.indices.isSome

/-- `raw_ptr_index(i)`: `_indices[i]`, no safety checks -/
def View.rawPtrIndex (v : View) (i : Nat) : Except Err Nat :=
  match v.indices with
  | some idx => match idx[i]? with
    | some r => .ok r
    | none => .error .oob
  | none => .error .oob

/-- `(isMaskedReference() ? raw_ptr_index(i) : i)` -/
def View.elemIndex (v : View) (i : Nat) : Except Err Nat :=
  if v.isMasked then v.rawPtrIndex i else .ok i

/-- position of `_ptr[k * _stride]` inside the allocation -/
def View.pos (v : View) (k : Nat) : Nat := v.off + k * v.stride

/-- `const T& operator[] (size_t i) const` -/
def View.get (h : Heap) (v : View) (i : Nat) : Except Err Int :=
  match v.elemIndex i with
  | .ok k => h.rd v.buf (v.pos k)
  | .error e => .error e

/-- `T& operator[] (size_t i)` used as an lvalue -/
def View.set (h : Heap) (v : View) (i : Nat) (x : Int) : Except Err Heap :=
  if !v.writable then .error .readOnly else
  match v.elemIndex i with
  | .ok k => h.wr v.buf (v.pos k) x
  | .error e => .error e

/-- non-const `operator[]` used as an rvalue: the writable check still fires -/
def View.getNonConst (h : Heap) (v : View) (i : Nat) : Except Err Int :=
  if !v.writable then .error .readOnly else v.get h i

/-- `direct_index(i) const` -/
def View.directGet (h : Heap) (v : View) (i : Nat) : Except Err Int := h.rd v.buf (v.pos i)

/-- `for (i = i0; i < i0 + n; ++i) body(i)` -/
def forLoop (body : Nat → Heap → Except Err Heap) : Nat → Nat → Heap → Except Err Heap
  | 0, _, h => .ok h
  | n+1, i, h =>
    match body i h with
    | .ok h' => forLoop body n (i+1) h'
    | .error e => .error e

/-- `for i in l: out.append(f i)`, stopping at the first error (fills of fresh allocations) -/
def mapE {ι α : Type} (f : ι → Except Err α) : List ι → Except Err (List α)
  | [] => .ok []
  | i :: is =>
    match f i with
    | .error e => .error e
    | .ok x =>
      match mapE f is with
      | .error e => .error e
      | .ok xs => .ok (x :: xs)

/-- allocation of a fresh `shared_array`, and the dense writable view on it -/
def alloc (h : Heap) (vals : List Int) : Heap × View :=
  (h ++ [vals], { buf := h.length, off := 0, length := vals.length, stride := 1, writable := true,
                  indices := none, unmaskedLength := 0 })

/-! ## indices -/

/-- `canonical_index` -/
def canonicalIndex (len : Nat) (index : Int) : Except Err Nat :=
  let index := if index < 0 then index + len else index
  if index ≥ len ∨ index < 0 then .error .indexError else .ok index.toNat

def PY_SSIZE_T_MAX : Int := 9223372036854775807
def PY_SSIZE_T_MIN : Int := -9223372036854775808

/-- `PySlice_Unpack`: `(start, stop, step)` -/
def sliceUnpack (start stop step : Option Int) : Except Err (Int × Int × Int) :=
  let st : Except Err Int :=
    match step with
    | none => .ok 1
    | some s => if s = 0 then .error .stepZero
                else .ok (if s < -PY_SSIZE_T_MAX then -PY_SSIZE_T_MAX else s)
  match st with
  | .error e => .error e
  | .ok st =>
    let sa := match start with
      | none => if st < 0 then PY_SSIZE_T_MAX else 0
      | some s => s
    let so := match stop with
      | none => if st < 0 then PY_SSIZE_T_MIN else PY_SSIZE_T_MAX
      | some s => s
    .ok (sa, so, st)

/-- one of the two symmetric blocks of `PySlice_AdjustIndices` -/
def adjustBound (length x step : Int) : Int :=
  if x < 0 then
    let x := x + length
    if x < 0 then (if step < 0 then -1 else 0) else x
  else if x ≥ length then (if step < 0 then length - 1 else length)
  else x

/-- `PySlice_AdjustIndices`: adjusted `(start, stop, slicelength)`; `/` of C is truncation -/
def sliceAdjust (length start stop step : Int) : Int × Int × Int :=
  let start := adjustBound length start step
  let stop := adjustBound length stop step
  let sl :=
    if step < 0 then
      (if stop < start then (start - stop - 1).tdiv (-step) + 1 else 0)
    else
      (if start < stop then (stop - start - 1).tdiv step + 1 else 0)
  (start, stop, sl)

/-- a Python subscript: an int or a slice object -/
inductive PyIdx
  | int (i : Int)
  | slice (start stop step : Option Int)
  deriving DecidableEq, Repr, Inhabited

/-- result of `extract_slice_indices`.  `minStart = -1` (default) is the current code, whose test
    `(sl > 0 && s < 0) || e < -1 || sl < 0` is modelled by `s < -1 ∨ ...`: both start tests are false on every
    output of `PySlice_AdjustIndices` (`SliceLemmas.current_start_test_equiv`), and `start` is only used when
    `sl > 0`.  `minStart = 0` is the former test `s < 0`, which rejected empty backward slices. -/
structure SliceIdx where
  start : Nat
  stop : Int          -- `end`; only assigned, never used afterwards
  step : Int
  slicelength : Nat
  deriving DecidableEq, Repr

/-- `extract_slice_indices(index, start, end, step, slicelength)`; `minEnd` is the
    lowest admissible `e` (`-1` in FixedArray / FixedVArray, `0` in FixedArray2D) -/
def extractSliceIndices (len : Nat) (idx : PyIdx) (minEnd : Int := -1) (minStart : Int := -1) : Except Err SliceIdx :=
  match idx with
  | .slice a b c =>
    match sliceUnpack a b c with
    | .error e => .error e
    | .ok (s, e, st) =>
      let (s, e, sl) := sliceAdjust len s e st
      if s < minStart ∨ e < minEnd ∨ sl < 0 then .error .domainError
      else .ok ⟨s.toNat, e, st, sl.toNat⟩
  | .int i =>
    match canonicalIndex len i with
    | .error e => .error e
    | .ok i => .ok ⟨i, i + 1, 1, 1⟩

/-- `size_t` arithmetic -/
def wrap64 (x : Int) : Nat := (x % 18446744073709551616).toNat

/-- `start + i*step` evaluated in `size_t` -/
def SliceIdx.at (s : SliceIdx) (i : Nat) : Nat := wrap64 (s.start + i * s.step)

/-! ## element access from Python -/

/-- `getitem` / `getobjectTuple`: `_ptr[(isMaskedReference() ? raw_ptr_index(i) : i) * _stride]` -/
def getitem (h : Heap) (v : View) (index : Int) : Except Err Int :=
  match canonicalIndex v.length index with
  | .error e => .error e
  | .ok i => v.get h i

/-- read `_ptr[raw(start+i*step)*_stride]` resp. `_ptr[(start+i*step)*_stride]` -/
def View.sliceElemPos (v : View) (s : SliceIdx) (i : Nat) : Except Err Nat :=
  if v.isMasked then
    match v.rawPtrIndex (s.at i) with
    | .ok r => .ok (v.pos r)
    | .error e => .error e
  else .ok (v.pos (s.at i))

/-- `_ptr[raw_ptr_index(start+i*step)*_stride]` resp. `_ptr[(start+i*step)*_stride]` as an rvalue -/
def View.readSliceElem (h : Heap) (v : View) (s : SliceIdx) (i : Nat) : Except Err Int :=
  match v.sliceElemPos s i with
  | .ok p => h.rd v.buf p
  | .error e => .error e

/-- the same cell as an lvalue: `... = x` -/
def View.writeSliceElem (v : View) (s : SliceIdx) (x : Int) (i : Nat) (h : Heap) : Except Err Heap :=
  match v.sliceElemPos s i with
  | .ok p => h.wr v.buf p x
  | .error e => .error e

/-- `getslice`: a fresh array holding a copy -/
def getslice (h : Heap) (v : View) (idx : PyIdx) (minStart : Int := -1) : Except Err (Heap × View) :=
  match extractSliceIndices v.length idx (-1) minStart with
  | .error e => .error e
  | .ok s =>
    match mapE (v.readSliceElem h s) (List.range s.slicelength) with
    | .error e => .error e
    | .ok vals => .ok (alloc h vals)

/-- `match_dimension(a1, strictComparison)` -/
def matchDimension (v : View) (otherLen : Nat) (strict : Bool := true) : Except Err Nat :=
  if v.length = otherLen then .ok v.length
  else
    let throwExc :=
      if strict then true
      else if v.isMasked then (if v.unmaskedLength ≠ otherLen then true else false)
      else true
    if throwExc then .error .dimMismatch else .ok v.length

/-- all of `a[0..n-1]` through the const `operator[]` -/
def View.readAll (h : Heap) (a : View) (n : Nat) : Except Err (List Int) :=
  mapE (a.get h) (List.range n)

/-- the indices `i < len` with `mask[i] != 0`, in increasing order -/
def maskIndices (bits : List Int) : List Nat :=
  (List.range bits.length).filter (fun i => bits[i]! != 0)

/-- masked-reference constructor `FixedArray(FixedArray& f, const MaskArrayType& mask)` -/
def getsliceMask (h : Heap) (f mask : View) : Except Err View :=
  if f.isMasked then .error .maskedMask else
  match matchDimension f mask.length with
  | .error e => .error e
  | .ok len =>
    match mask.readAll h len with
    | .error e => .error e
    | .ok bits =>
      let idx := maskIndices bits
      .ok { buf := f.buf, off := f.off, stride := f.stride, writable := f.writable,
            indices := some idx, length := idx.length, unmaskedLength := len }

/-- copy constructor (`IntArray(a)` from Python): another handle on the same data -/
def copyHandle (v : View) : View := v

/-- converting constructor `FixedArray(const FixedArray<S>& other)` -/
def convert (cfg : Cfg) (h : Heap) (other : View) : Except Err (Heap × View) :=
  match other.readAll h other.length with
  | .error e => .error e
  | .ok vals =>
    let (h', f) := alloc h vals
    if cfg.convertDense then .ok (h', f)
    else if other.unmaskedLength ≠ 0 then
      match mapE other.rawPtrIndex (List.range other.length) with
      | .error e => .error e
      | .ok idx => .ok (h', { f with indices := some idx, unmaskedLength := other.unmaskedLength })
    else .ok (h', f)

/-- `setitem_scalar` -/
def setitemScalar (h : Heap) (v : View) (idx : PyIdx) (data : Int) (minStart : Int := -1) : Except Err Heap :=
  if !v.writable then .error .readOnly else
  match extractSliceIndices v.length idx (-1) minStart with
  | .error e => .error e
  | .ok s =>
    forLoop (v.writeSliceElem s data) s.slicelength 0 h

/-- `_ptr[raw_ptr_index(i)*_stride] = x` -/
def View.writeRaw (v : View) (x : Int) (i : Nat) (h : Heap) : Except Err Heap :=
  match v.rawPtrIndex i with
  | .ok r => h.wr v.buf (v.pos r) x
  | .error e => .error e

/-- `if (mask[i]) _ptr[i*_stride] = x` -/
def View.writeIfMask (v mask : View) (x : Int) (i : Nat) (h : Heap) : Except Err Heap :=
  match mask.get h i with
  | .ok m => if m != 0 then h.wr v.buf (v.pos i) x else .ok h
  | .error e => .error e

/-- repaired masked branch: `if (mask[i]) _ptr[raw_ptr_index(i)*_stride] = x` -/
def View.writeRawIfMask (v mask : View) (x : Int) (i : Nat) (h : Heap) : Except Err Heap :=
  match mask.get h i with
  | .ok m => if m != 0 then v.writeRaw x i h else .ok h
  | .error e => .error e

/-- `setitem_scalar_mask` (`honour` = false as written) -/
def setitemScalarMask (h : Heap) (v mask : View) (data : Int) (honour : Bool := false) : Except Err Heap :=
  if !v.writable then .error .readOnly else
  match matchDimension v mask.length false with
  | .error e => .error e
  | .ok len =>
    if v.isMasked then
      if honour ∧ mask.length = len then forLoop (v.writeRawIfMask mask data) len 0 h
      else forLoop (v.writeRaw data) len 0 h
    else
      forLoop (v.writeIfMask mask data) len 0 h

/-- `<slice element i> = data[i]` -/
def View.writeSliceFrom (v : View) (s : SliceIdx) (data : View) (i : Nat) (h : Heap) : Except Err Heap :=
  match data.get h i with
  | .ok x => v.writeSliceElem s x i h
  | .error e => .error e

/-- `setitem_vector` -/
def setitemVector (h : Heap) (v : View) (idx : PyIdx) (data : View) (minStart : Int := -1) : Except Err Heap :=
  if !v.writable then .error .readOnly else
  match extractSliceIndices v.length idx (-1) minStart with
  | .error e => .error e
  | .ok s =>
    if data.length ≠ s.slicelength then .error .srcDimMismatch else
    forLoop (v.writeSliceFrom s data) s.slicelength 0 h

/-- number of `i < len` with `mask[i] != 0`, reading the mask from the current heap -/
def countMask (h : Heap) (mask : View) (len : Nat) : Except Err Nat :=
  match mask.readAll h len with
  | .ok bits => .ok (bits.filter (· != 0)).length
  | .error e => .error e

/-- second branch of `setitem_vector_mask`: `dataIndex` advances with every selected `i` -/
def packLoop (v mask data : View) : Nat → Nat → Nat → Heap → Except Err Heap
  | 0, _, _, h => .ok h
  | n+1, i, dataIndex, h =>
    match mask.get h i with
    | .error e => .error e
    | .ok m =>
      if m != 0 then
        match data.get h dataIndex with
        | .error e => .error e
        | .ok x =>
          match h.wr v.buf (v.pos i) x with
          | .error e => .error e
          | .ok h' => packLoop v mask data n (i+1) (dataIndex+1) h'
      else packLoop v mask data n (i+1) dataIndex h

/-- `if (mask[i]) _ptr[i*_stride] = data[i]` -/
def View.writeIfMaskFrom (v mask data : View) (i : Nat) (h : Heap) : Except Err Heap :=
  match mask.get h i with
  | .error e => .error e
  | .ok m =>
    if m != 0 then
      match data.get h i with
      | .ok x => h.wr v.buf (v.pos i) x
      | .error e => .error e
    else .ok h

/-- `setitem_vector_mask` -/
def setitemVectorMask (h : Heap) (v mask data : View) : Except Err Heap :=
  if !v.writable then .error .readOnly else
  if v.isMasked then .error .maskedSetMask else
  match matchDimension v mask.length with
  | .error e => .error e
  | .ok len =>
    if data.length = len then
      forLoop (v.writeIfMaskFrom mask data) len 0 h
    else
      match countMask h mask len with
      | .error e => .error e
      | .ok count =>
        if data.length ≠ count then .error .maskDataMismatch
        else packLoop v mask data len 0 0 h

/-- `choice[i] ? (*this)[i] : other[i]` with the NON-const `(*this)[i]` -/
def View.chooseFrom (h : Heap) (v choice other : View) (constRead : Bool) (i : Nat) : Except Err Int :=
  match choice.get h i with
  | .error e => .error e
  | .ok c => if c != 0 then (if constRead then v.get h i else v.getNonConst h i) else other.get h i

/-- `choice[i] ? (*this)[i] : other` -/
def View.chooseScalar (h : Heap) (v choice : View) (other : Int) (constRead : Bool) (i : Nat) : Except Err Int :=
  match choice.get h i with
  | .error e => .error e
  | .ok c => if c != 0 then (if constRead then v.get h i else v.getNonConst h i) else .ok other

/-- `ifelse_vector`: `tmp[i] = choice[i] ? (*this)[i] : other[i]` with the NON-const `(*this)[i]` -/
def ifelseVector (h : Heap) (v choice other : View) (constRead : Bool := true) : Except Err (Heap × View) :=
  match matchDimension v choice.length with
  | .error e => .error e
  | .ok len =>
    match matchDimension v other.length with
    | .error e => .error e
    | .ok _ =>
      match mapE (v.chooseFrom h choice other constRead) (List.range len) with
      | .error e => .error e
      | .ok vals => .ok (alloc h vals)

/-- `ifelse_scalar` -/
def ifelseScalar (h : Heap) (v choice : View) (other : Int) (constRead : Bool := true) : Except Err (Heap × View) :=
  match matchDimension v choice.length with
  | .error e => .error e
  | .ok len =>
    match mapE (v.chooseScalar h choice other constRead) (List.range len) with
    | .error e => .error e
    | .ok vals => .ok (alloc h vals)

/-! ## accessor classes -/

/-- `ReadOnlyDirectAccess` / `WritableDirectAccess`: `_ptr`, `_stride` -/
structure DirectAccess where
  buf : Nat
  off : Nat
  stride : Nat
  deriving DecidableEq, Repr

/-- `ReadOnlyMaskedAccess` / `WritableMaskedAccess`: `_ptr`, `_stride`, `_indices` -/
structure MaskedAccess where
  buf : Nat
  off : Nat
  stride : Nat
  indices : List Nat
  deriving DecidableEq, Repr

def ReadOnlyDirectAccess.mk' (a : View) : Except Err DirectAccess :=
  if a.isMasked then .error .isMasked else .ok ⟨a.buf, a.off, a.stride⟩

def WritableDirectAccess.mk' (a : View) : Except Err DirectAccess :=
  match ReadOnlyDirectAccess.mk' a with
  | .error e => .error e
  | .ok acc => if !a.writable then .error .readOnly else .ok acc

def ReadOnlyMaskedAccess.mk' (a : View) : Except Err MaskedAccess :=
  match a.indices with
  | none => .error .notMasked
  | some idx => .ok ⟨a.buf, a.off, a.stride, idx⟩

/-- PyImathFixedArray.h:805-810.  As written the `std::invalid_argument` is
    constructed and discarded (`cfg.maskedAccessThrows = false`). -/
def WritableMaskedAccess.mk' (cfg : Cfg) (a : View) : Except Err MaskedAccess :=
  match ReadOnlyMaskedAccess.mk' a with
  | .error e => .error e
  | .ok acc =>
    if !a.writable then (if cfg.maskedAccessThrows then .error .readOnly else .ok acc)
    else .ok acc

def DirectAccess.pos (a : DirectAccess) (i : Nat) : Nat := a.off + i * a.stride
def DirectAccess.get (h : Heap) (a : DirectAccess) (i : Nat) : Except Err Int := h.rd a.buf (a.pos i)
def DirectAccess.set (h : Heap) (a : DirectAccess) (i : Nat) (x : Int) : Except Err Heap := h.wr a.buf (a.pos i) x

def MaskedAccess.pos (a : MaskedAccess) (i : Nat) : Except Err Nat :=
  match a.indices[i]? with
  | some r => .ok (a.off + r * a.stride)
  | none => .error .oob
def MaskedAccess.get (h : Heap) (a : MaskedAccess) (i : Nat) : Except Err Int :=
  match a.pos i with
  | .ok p => h.rd a.buf p
  | .error e => .error e
def MaskedAccess.set (h : Heap) (a : MaskedAccess) (i : Nat) (x : Int) : Except Err Heap :=
  match a.pos i with
  | .ok p => h.wr a.buf p x
  | .error e => .error e

/-- a writable accessor of either kind, as selected by `any_masked(array)` -/
inductive WAccess
  | direct (a : DirectAccess)
  | masked (a : MaskedAccess)

def WAccess.get (h : Heap) : WAccess → Nat → Except Err Int
  | .direct a, i => a.get h i
  | .masked a, i => a.get h i
def WAccess.set (h : Heap) : WAccess → Nat → Int → Except Err Heap
  | .direct a, i, x => a.set h i x
  | .masked a, i, x => a.set h i x

/-- `if (any_masked(array)) masked_access_type(array) else direct_access_type(array)` for the
    written-to `self` of an in-place operator -/
def selfAccess (cfg : Cfg) (a : View) : Except Err WAccess :=
  if a.isMasked then
    match WritableMaskedAccess.mk' cfg a with
    | .ok acc => .ok (.masked acc)
    | .error e => .error e
  else
    match WritableDirectAccess.mk' a with
    | .ok acc => .ok (.direct acc)
    | .error e => .error e

/-- read-only accessor for an array argument (`any_masked(arg1)` selects the class) -/
def argAccess (a : View) : Except Err WAccess :=
  if a.isMasked then
    match ReadOnlyMaskedAccess.mk' a with
    | .ok acc => .ok (.masked acc)
    | .error e => .error e
  else
    match ReadOnlyDirectAccess.mk' a with
    | .ok acc => .ok (.direct acc)
    | .error e => .error e

/-- `Op::apply (access[i], x)` for `op_iadd`: `access[i] += x` -/
def WAccess.addScalar (acc : WAccess) (x : Int) (i : Nat) (h : Heap) : Except Err Heap :=
  match acc.get h i with
  | .error e => .error e
  | .ok y => acc.set h i (y + x)

/-- `access[i] += arg1[i]` -/
def WAccess.addFrom (acc bacc : WAccess) (i : Nat) (h : Heap) : Except Err Heap :=
  match acc.get h i with
  | .error e => .error e
  | .ok y =>
    match bacc.get h i with
    | .error e => .error e
    | .ok z => acc.set h i (y + z)

/-- `VectorizedMaskedVoidOperation1`: `access[i] += arg1[array.raw_ptr_index(i)]` -/
def MaskedAccess.addFromRaw (a : View) (acc : MaskedAccess) (bacc : WAccess) (i : Nat) (h : Heap) : Except Err Heap :=
  match a.rawPtrIndex i with
  | .error e => .error e
  | .ok ri =>
    match acc.get h i with
    | .error e => .error e
    | .ok y =>
      match bacc.get h ri with
      | .error e => .error e
      | .ok z => acc.set h i (y + z)

/-- `a += x` with a scalar: `VectorizedVoidMemberFunction1<op_iadd, false_>::apply` -/
def iaddScalar (cfg : Cfg) (h : Heap) (a : View) (x : Int) : Except Err Heap :=
  let len := a.length               -- measure_arguments(array, scalar)
  match selfAccess cfg a with
  | .error e => .error e
  | .ok acc =>
    forLoop (acc.addScalar x) len 0 h

/-- `a += b` with an array: `VectorizedVoidMaskableMemberFunction1<op_iadd>::apply` -/
def iaddVector (cfg : Cfg) (h : Heap) (a b : View) : Except Err Heap :=
  match matchDimension a b.length false with
  | .error e => .error e
  | .ok len =>
    if a.isMasked ∧ b.length = a.unmaskedLength then
      -- VectorizedMaskedVoidOperation1: Op::apply (access[i], arg1[array.raw_ptr_index(i)])
      match WritableMaskedAccess.mk' cfg a with
      | .error e => .error e
      | .ok acc =>
        match argAccess b with
        | .error e => .error e
        | .ok bacc =>
          forLoop (acc.addFromRaw a bacc) len 0 h
    else
      match selfAccess cfg a with
      | .error e => .error e
      | .ok acc =>
        match argAccess b with
        | .error e => .error e
        | .ok bacc =>
          forLoop (acc.addFrom bacc) len 0 h

/-! ## component arrays of vector arrays

`Vec3Array_get` (PyImathVec3ArrayImpl.h) and its copies `Vec2Array_get`, `Vec4Array_get`, `Color3Array_get`,
`Color4Array_get`, `QuatArray_get`, `BoxArray_get`: the properties `.x .y .z .w .r .g .b .a .min .max`.

A vector array of `w`-component elements is modelled on the same heap: element `i` of the dense array occupies the
cells `w*i .. w*i+w-1`, and `off` / `stride` of its view are counted in CELLS (so the C++ `w * va.stride()` is the
model's `va.stride`).  All 1-D operations of this file read the FIRST component through such a view. -/

/-- `V3iArray(n)` filled component by component: the dense writable view on `cells.length / w` elements -/
def allocWide (h : Heap) (w : Nat) (cells : List Int) : Heap × View :=
  (h ++ [cells], { buf := h.length, off := 0, length := cells.length / w, stride := w, writable := true,
                   indices := none, unmaskedLength := 0 })

/-- `FixedArray<T>(&va.unchecked_index(0)[k], va.len(), w*va.stride(), va.handle(), va.writable())`.

    `keepsMask = false` — AS WRITTEN: `unchecked_index(0)` of a masked reference is element `_indices[0]` (read even
    when the reference is empty), and the result is an UNMASKED array of `len()` consecutive elements from there:
    `_indices` is dropped.
    `keepsMask = true` — intended: the component array of a masked reference is a masked reference with the same
    indices over the same storage. -/
def compView (keepsMask : Bool) (va : View) (k : Nat) : Except Err View :=
  if keepsMask then .ok { va with off := va.off + k }
  else
    match va.indices with
    | none => .ok { va with off := va.off + k }
    | some idx =>
      match idx[0]? with
      | none => .error .oob
      | some r => .ok { buf := va.buf, off := va.pos r + k, length := va.length, stride := va.stride,
                        writable := va.writable, indices := none, unmaskedLength := 0 }

/-! ## the Python-level state machine -/

/-- heap plus the Python objects (arrays) alive, addressed by creation order -/
structure State where
  heap : Heap
  env : List View
  deriving DecidableEq, Repr

def State.empty : State := ⟨[], []⟩

inductive Op
  | alloc (vals : List Int)                 -- `IntArray(n)` then element-wise initialisation
  | len (v : Nat)
  | getitem (v : Nat) (i : Int)
  | getslice (v : Nat) (idx : PyIdx)        -- `a[i:j:k]`
  | getmask (v m : Nat)                     -- `a[mask]`
  | copy (v : Nat)                          -- `IntArray(a)`
  | convert (v : Nat)                       -- `FloatArray(a)`-style converting constructor
  | setScalar (v : Nat) (idx : PyIdx) (x : Int)
  | setScalarMask (v m : Nat) (x : Int)
  | setVector (v : Nat) (idx : PyIdx) (d : Nat)
  | setVectorMask (v m d : Nat)
  | ifelseScalar (v c : Nat) (x : Int)
  | ifelseVector (v c o : Nat)
  | makeReadOnly (v : Nat)
  | iaddScalar (v : Nat) (x : Int)
  | iaddVector (v d : Nat)
  | allocWide (w : Nat) (cells : List Int)  -- `V3iArray(n)` filled component by component (`w` cells per element)
  | comp (v k : Nat)                        -- `a.x` / `.y` / ... : component array `k` of vector array `v`
  deriving DecidableEq, Repr

/-- what Python sees -/
inductive Out
  | none
  | int (x : Int)
  | newView (id : Nat)
  deriving DecidableEq, Repr

abbrev Res := Except Err Out

def State.view (s : State) (v : Nat) : Except Err View :=
  match s.env[v]? with
  | some x => .ok x
  | none => .error .badRef

def State.push (s : State) (h : Heap) (v : View) : State × Res :=
  (⟨h, s.env ++ [v]⟩, .ok (.newView s.env.length))

def State.withHeap (s : State) (r : Except Err Heap) : State × Res :=
  match r with
  | .ok h => (⟨h, s.env⟩, .ok .none)
  | .error e => (s, .error e)

def State.withNew (s : State) (r : Except Err (Heap × View)) : State × Res :=
  match r with
  | .ok (h, v) => s.push h v
  | .error e => (s, .error e)

/-- one Python statement.  An operation that raises leaves the state as it was. -/
def step (cfg : Cfg) (s : State) : Op → State × Res
  | .alloc vals => let (h, v) := alloc s.heap vals; s.push h v
  | .len v =>
    match s.view v with
    | .ok a => (s, .ok (.int a.length))
    | .error e => (s, .error e)
  | .getitem v i =>
    match s.view v with
    | .ok a =>
      match getitem s.heap a i with
      | .ok x => (s, .ok (.int x))
      | .error e => (s, .error e)
    | .error e => (s, .error e)
  | .getslice v idx =>
    match s.view v with
    | .ok a => s.withNew (getslice s.heap a idx cfg.minStart)
    | .error e => (s, .error e)
  | .getmask v m =>
    match s.view v, s.view m with
    | .ok a, .ok mk =>
      match getsliceMask s.heap a mk with
      | .ok f => s.push s.heap f
      | .error e => (s, .error e)
    | .error e, _ => (s, .error e)
    | _, .error e => (s, .error e)
  | .copy v =>
    match s.view v with
    | .ok a => s.push s.heap (copyHandle a)
    | .error e => (s, .error e)
  | .convert v =>
    match s.view v with
    | .ok a => s.withNew (convert cfg s.heap a)
    | .error e => (s, .error e)
  | .setScalar v idx x =>
    match s.view v with
    | .ok a => s.withHeap (setitemScalar s.heap a idx x cfg.minStart)
    | .error e => (s, .error e)
  | .setScalarMask v m x =>
    match s.view v, s.view m with
    | .ok a, .ok mk => s.withHeap (setitemScalarMask s.heap a mk x cfg.maskOnMaskedHonoured)
    | .error e, _ => (s, .error e)
    | _, .error e => (s, .error e)
  | .setVector v idx d =>
    match s.view v, s.view d with
    | .ok a, .ok da => s.withHeap (setitemVector s.heap a idx da cfg.minStart)
    | .error e, _ => (s, .error e)
    | _, .error e => (s, .error e)
  | .setVectorMask v m d =>
    match s.view v, s.view m, s.view d with
    | .ok a, .ok mk, .ok da => s.withHeap (setitemVectorMask s.heap a mk da)
    | .error e, _, _ => (s, .error e)
    | _, .error e, _ => (s, .error e)
    | _, _, .error e => (s, .error e)
  | .ifelseScalar v c x =>
    match s.view v, s.view c with
    | .ok a, .ok ch => s.withNew (ifelseScalar s.heap a ch x cfg.ifelseConstRead)
    | .error e, _ => (s, .error e)
    | _, .error e => (s, .error e)
  | .ifelseVector v c o =>
    match s.view v, s.view c, s.view o with
    | .ok a, .ok ch, .ok ot => s.withNew (ifelseVector s.heap a ch ot cfg.ifelseConstRead)
    | .error e, _, _ => (s, .error e)
    | _, .error e, _ => (s, .error e)
    | _, _, .error e => (s, .error e)
  | .makeReadOnly v =>
    match s.view v with
    | .ok a => (⟨s.heap, s.env.set v { a with writable := false }⟩, .ok .none)
    | .error e => (s, .error e)
  | .iaddScalar v x =>
    match s.view v with
    | .ok a => s.withHeap (iaddScalar cfg s.heap a x)
    | .error e => (s, .error e)
  | .iaddVector v d =>
    match s.view v, s.view d with
    | .ok a, .ok da => s.withHeap (iaddVector cfg s.heap a da)
    | .error e, _ => (s, .error e)
    | _, .error e => (s, .error e)
  | .allocWide w cells => let (h, v) := allocWide s.heap w cells; s.push h v
  | .comp v k =>
    match s.view v with
    | .ok a =>
      match compView cfg.componentKeepsMask a k with
      | .ok c => s.push s.heap c
      | .error e => (s, .error e)
    | .error e => (s, .error e)

/-- run a program; results in order -/
def run (cfg : Cfg) : State → List Op → State × List Res
  | s, [] => (s, [])
  | s, op :: ops =>
    let (s1, r) := step cfg s op
    let (s2, rs) := run cfg s1 ops
    (s2, r :: rs)

/-- final state only -/
def exec (cfg : Cfg) : State → List Op → State
  | s, [] => s
  | s, op :: ops => exec cfg (step cfg s op).1 ops

end ImathVerif.FixedArray
