import ImathVerif.Model.Half
/-
Hand model (H-route) of `halfFunction<T>` (src/Imath/halfFunction.h 106-145):
the constructor's loop that fills the 65,536-entry table, and `operator()`.

The tabulated function `f` is abstract (a function of the half *bit pattern*
of its argument; the C++ passes the `half` object itself).  The two domain
tests `x < domainMin`, `x > domainMax` are, in the C++, comparisons of
`float` values obtained through `half::operator float()`; they are modelled
literally as IEEE comparisons on the bit patterns `h2f x`, `h2f domainMin`.

Core Lean only (no Mathlib): linked into the `drv_half` driver.
-/
namespace ImathVerif.HalfFunction
open ImathVerif.Half

/-- IEEE `<` on two binary32 bit patterns: false when either is a NaN, `-0 = +0`. -/
def f32IsNan (u : Nat) : Bool := decide (u % 2147483648 > 0x7f800000)

/-- order key of a non-NaN binary32 pattern: sign-magnitude read as an integer -/
def f32Key (u : Nat) : Int := if u ≥ 2147483648 then - ((u - 2147483648 : Nat) : Int) else (u : Int)

def f32Lt (u v : Nat) : Bool := !f32IsNan u && !f32IsNan v && decide (f32Key u < f32Key v)

/-- `float(a) < float(b)` for two half patterns, as the C++ evaluates `a < b` -/
def halfLt (a b : Nat) : Bool := f32Lt (h2f a) (h2f b)

/-- class of a binary32 pattern as `std::fpclassify` names it: 0 zero, 1 normal,
2 subnormal, 3 infinite, 4 nan (what `drv_half classf_all` prints next to the
half classification; compared with the platform's `std::fpclassify (float (h))`) -/
def fpClass32 (u : Nat) : Nat :=
  if (u / 8388608) % 256 = 0 then (if u % 8388608 = 0 then 0 else 2)
  else if (u / 8388608) % 256 = 255 then (if u % 8388608 = 0 then 3 else 4)
  else 1

/-- constructor arguments of `halfFunction<T>` -/
structure Params (T : Type) where
  f : Nat → T
  domainMin : Nat
  domainMax : Nat
  defaultValue : T
  posInfValue : T
  negInfValue : T
  nanValue : T

/-- body of the constructor's loop for `i` (halfFunction.h 123-135) -/
def entry {T : Type} (p : Params T) (i : Nat) : T :=
  if isNan i then p.nanValue
  else if isInfinity i then (if isNegative i then p.negInfValue else p.posInfValue)
  else if halfLt i p.domainMin || halfLt p.domainMax i then p.defaultValue
  else p.f i

/-- `for (int i = 0; i < k; i++) _lut[i] = ...` continuing from a table already
filled up to `lut.size` -/
def fillLoop {T : Type} (p : Params T) : Nat → Array T → Array T
  | 0, lut => lut
  | k+1, lut => fillLoop p k (lut.push (entry p lut.size))

/-- the table after the constructor has run -/
def lutFill {T : Type} (p : Params T) : Array T := fillLoop p 65536 #[]

/-- `halfFunction<T>::operator() (half x)`: `_lut[x.bits()]` -/
def apply {T : Type} [Inhabited T] (p : Params T) (x : Nat) : T := (lutFill p)[x]!

end ImathVerif.HalfFunction
