/-
Hand model (H-route) of the parts of `Euler<T>` that are integer / bit-field code or
that leave the scalar type (ImathEuler.h):

  set / setOrder / order / legal      the bit packing of the `Order` enumeration
  angleOrder / angleMapping            the axis permutations
  angleMod                             `fmod` + two wrap-around steps (returns `float`)

Core Lean only (linked into `drv_euler`).  Tied to the real code by
tools/props/c11.py: all 2^16 bit patterns `p` are pushed through the real
`setOrder / order / legal / angleOrder / angleMapping` (harness/corr/c11_corr.cpp)
and through this model (Driver/Euler.lean) and the outputs are diffed; `angleMod`
is compared on structured inputs in exact rational arithmetic.
-/
namespace ImathVerif.Model.Euler

/-- the four protected bit-field members of `Euler<T>` (`_initialAxis` is a 2-bit field) -/
structure Bits where
  frameStatic : Bool
  initialRepeated : Bool
  parityEven : Bool
  initialAxis : Nat
deriving DecidableEq, Repr

/-- `Euler<T>::set (axis, relative, parityEven, firstRepeats)` -/
def set (axis : Nat) (relative parityEven firstRepeats : Bool) : Bits :=
  { initialAxis := axis, frameStatic := !relative, parityEven := parityEven, initialRepeated := firstRepeats }

/-- `Euler<T>::setOrder (p)`:
    `set (p & 0x2000 ? Z : (p & 0x1000 ? Y : X), !(p & 0x1), !!(p & 0x100), !!(p & 0x10))` -/
def setOrder (p : Nat) : Bits :=
  set (if p &&& 0x2000 != 0 then 2 else (if p &&& 0x1000 != 0 then 1 else 0))
      (!(p &&& 0x1 != 0))
      (p &&& 0x100 != 0)
      (p &&& 0x10 != 0)

/-- `Euler<T>::order ()` -/
def order (e : Bits) : Nat :=
  let foo := if e.initialAxis == 2 then 0x2000 else (if e.initialAxis == 1 then 0x1000 else 0)
  let foo := if e.parityEven then foo ||| 0x0100 else foo
  let foo := if e.initialRepeated then foo ||| 0x0010 else foo
  let foo := if e.frameStatic then foo + 1 else foo
  foo

/-- `Euler<T>::legal (order)`: `(order & ~Legal) ? false : true` for a 32-bit `int` -/
def legal (legalMask : Nat) (p : Nat) : Bool :=
  if p &&& (0xFFFFFFFF ^^^ legalMask) != 0 then false else true

/-- `Euler<T>::angleOrder (i, j, k)` -/
def angleOrder (e : Bits) : Nat × Nat × Nat :=
  let i := e.initialAxis
  let j := if e.parityEven then (i + 1) % 3 else (if i > 0 then i - 1 else 2)
  let k := if e.parityEven then (if i > 0 then i - 1 else 2) else (i + 1) % 3
  (i, j, k)

/-- `Euler<T>::angleMapping (i, j, k)`: three stores into `int m[3]`, then `(m[0], m[1], m[2])` -/
def angleMapping (e : Bits) : Nat × Nat × Nat :=
  let m : Array Nat := #[0, 0, 0]
  let m := m.set! e.initialAxis 0
  let m := m.set! ((e.initialAxis + 1) % 3) (if e.parityEven then 1 else 2)
  let m := m.set! ((e.initialAxis + 2) % 3) (if e.parityEven then 2 else 1)
  (m[0]!, m[1]!, m[2]!)

/-- `fmod (x, m)` for `m ≠ 0`: `x − m·trunc (x / m)` (exact in IEEE arithmetic) -/
def fmod {α : Type} [Sub α] [Mul α] [Div α] [IntCast α] (trunc : α → Int) (x m : α) : α :=
  x - m * ((trunc (x / m) : Int) : α)

/-- `Euler<T>::angleMod (angle)` in exact arithmetic; `pi` stands for `static_cast<T> (M_PI)`:
    ```
    angle = fmod (T (angle), T (2 * pi));
    if (angle < -pi) angle += 2 * pi;
    if (angle > +pi) angle -= 2 * pi;
    ``` -/
def angleMod {α : Type} [Add α] [Sub α] [Mul α] [Div α] [Neg α] [LT α] [DecidableLT α] [IntCast α] [OfNat α 2]
    (trunc : α → Int) (pi angle : α) : α :=
  let angle := fmod trunc angle (2 * pi)
  let angle := if angle < -pi then angle + 2 * pi else angle
  let angle := if pi < angle then angle - 2 * pi else angle
  angle

/-- round toward zero on `Rat` (the driver's instance of `trunc`) -/
def ratTrunc (q : Rat) : Int := if q < 0 then -((-q).floor) else q.floor

end ImathVerif.Model.Euler
