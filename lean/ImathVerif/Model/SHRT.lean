import ImathVerif.Basic.Types
import ImathVerif.Gen.Leaf
/-!
# Hand model (H-route) of `extractAndRemoveScalingAndShear` (3-D and 2-D)

Source: /repo/src/Imath/ImathMatrixAlgo.h
  * 3-D `extractAndRemoveScalingAndShear (Matrix44<T>&, Vec3<T>& scl, Vec3<T>& shr, bool exc)`  547-656
  * 2-D `extractAndRemoveScalingAndShear (Matrix33<T>&, Vec2<T>& scl, T& shr, bool exc)`        1237-1321
  * `checkForZeroScaleInRow` (Vec3 884-902, Vec2 1384-1402)

The 3-D path tree explodes under T = Sym (> 5,000 paths), so both functions are modelled by
hand, statement by statement ("model the code that exists"):

```
row[i] = (mat[i][0], mat[i][1], mat[i][2])
maxVal = 0;  for i, j: if (abs (row[i][j]) > maxVal) maxVal = abs (row[i][j]);      -- `maxAbs3`
if (maxVal != 0) for i: if (!checkForZeroScaleInRow (maxVal, row[i])) return false;  -- `normRows3`
                        else row[i] /= maxVal;
scl.x = row[0].length ();  if (!check (scl.x, row[0])) return false;  row[0] /= scl.x;     -- `gs3`
shr[0] = row[0].dot (row[1]);  row[1] -= shr[0] * row[0];
scl.y = row[1].length ();  if (!check (scl.y, row[1])) return false;  row[1] /= scl.y;  shr[0] /= scl.y;
shr[1] = row[0].dot (row[2]);  row[2] -= shr[1] * row[0];
shr[2] = row[1].dot (row[2]);  row[2] -= shr[2] * row[1];
scl.z = row[2].length ();  if (!check (scl.z, row[2])) return false;
row[2] /= scl.z;  shr[1] /= scl.z;  shr[2] /= scl.z;
if (row[0].dot (row[1].cross (row[2])) < 0) for i: { scl[i] *= -1; row[i] *= -1; }        -- `flip3`
mat[i][0..2] = row[i];   scl *= maxVal;   return true;                                   -- `ear44`
```
`return false` (or `throw std::domain_error` when `exc`) is `none`.  `Vec::length()` is a parameter
`len` (the theorems instantiate it with the extracted `Gen.V3.length tmin tmax sqrt`, the driver with a
`Float` transcription of `length/lengthTiny`).  Every arithmetic expression keeps the C++ operand
order, so the model evaluated at `Float` reproduces the compiled code bit for bit
(harness/corr/c12_corr.cpp vs lean/Driver/SHRT.lean, every run).

Core Lean only (linked into `drv_shrt`).
-/
namespace ImathVerif.SHRT

section ops
variable {α : Type}

/-- `Vec2::dot`: `x * v.x + y * v.y` -/
def dot2 [Add α] [Mul α] (a b : V2 α) : α := a.x * b.x + a.y * b.y
/-- `Vec3::dot`: `x * v.x + y * v.y + z * v.z` -/
def dot3 [Add α] [Mul α] (a b : V3 α) : α := a.x * b.x + a.y * b.y + a.z * b.z
/-- `Vec3::cross` -/
def cross3 [Sub α] [Mul α] (a b : V3 α) : V3 α :=
  ⟨a.y * b.z - a.z * b.y, a.z * b.x - a.x * b.z, a.x * b.y - a.y * b.x⟩
/-- `v /= s` -/
def V2.divS [Div α] (v : V2 α) (s : α) : V2 α := ⟨v.x / s, v.y / s⟩
def V3.divS [Div α] (v : V3 α) (s : α) : V3 α := ⟨v.x / s, v.y / s, v.z / s⟩
/-- `v *= s` -/
def V2.mulS [Mul α] (v : V2 α) (s : α) : V2 α := ⟨v.x * s, v.y * s⟩
def V3.mulS [Mul α] (v : V3 α) (s : α) : V3 α := ⟨v.x * s, v.y * s, v.z * s⟩
/-- `a -= h * b`  (`operator* (T, Vec)` then `operator-=`) -/
def V2.subSmul [Sub α] [Mul α] (a : V2 α) (h : α) (b : V2 α) : V2 α := ⟨a.x - h * b.x, a.y - h * b.y⟩
def V3.subSmul [Sub α] [Mul α] (a : V3 α) (h : α) (b : V3 α) : V3 α :=
  ⟨a.x - h * b.x, a.y - h * b.y, a.z - h * b.z⟩

end ops

section model
variable {α : Type} [Add α] [Sub α] [Mul α] [Div α] [Neg α] [LT α] [LE α] [DecidableLT α] [DecidableLE α]
  [BEq α] [OfNat α 0] [OfNat α 1]

/-- one iteration of the loop of `checkForZeroScaleInRow`: the scale is too small for this component -/
def tooSmall (tmax scl x : α) : Bool := sabs scl < 1 && tmax * sabs scl ≤ sabs x

/-- `checkForZeroScaleInRow (scl, Vec2 row, false)`: `true` = the scale can be removed -/
def checkRow2 (tmax scl : α) (row : V2 α) : Bool :=
  if tooSmall tmax scl row.x then false else if tooSmall tmax scl row.y then false else true

/-- `checkForZeroScaleInRow (scl, Vec3 row, false)` -/
def checkRow3 (tmax scl : α) (row : V3 α) : Bool :=
  if tooSmall tmax scl row.x then false else if tooSmall tmax scl row.y then false
  else if tooSmall tmax scl row.z then false else true

/-- `if (abs (x) > maxVal) maxVal = abs (x)` -/
def upd (maxVal x : α) : α := if maxVal < sabs x then sabs x else maxVal

/-! ## 2-D -/

/-- maximum absolute entry of the upper-left 2×2 block, rows in order -/
def maxAbs2 (r0 r1 : V2 α) : α := upd (upd (upd (upd 0 r0.x) r0.y) r1.x) r1.y

/-- the max-normalisation loop -/
def normRows2 (tmax maxVal : α) (r0 r1 : V2 α) : Option (V2 α × V2 α) :=
  if maxVal != 0 then
    if !checkRow2 tmax maxVal r0 then none
    else if !checkRow2 tmax maxVal r1 then none
    else some (V2.divS r0 maxVal, V2.divS r1 maxVal)
  else some (r0, r1)

/-- result of the Gram-Schmidt stage: orthonormal rows, scale, shear (before the flip) -/
structure GS2 (α : Type) where
  r0 : V2 α
  r1 : V2 α
  scl : V2 α
  shr : α

def gs2 (tmax : α) (len : V2 α → α) (a0 a1 : V2 α) : Option (GS2 α) :=
  let sx := len a0
  if !checkRow2 tmax sx a0 then none else
  let r0 := V2.divS a0 sx
  let h := dot2 r0 a1
  let b1 := V2.subSmul a1 h r0
  let sy := len b1
  if !checkRow2 tmax sy b1 then none else
  some ⟨r0, V2.divS b1 sy, ⟨sx, sy⟩, h / sy⟩

/-- `if (row[0].x * row[1].y - row[0].y * row[1].x < 0) { row[1] *= -1; scl.y *= -1; shr *= -1; }` -/
def flip2 (g : GS2 α) : GS2 α :=
  if g.r0.x * g.r1.y - g.r0.y * g.r1.x < 0 then
    ⟨g.r0, ⟨g.r1.x * (-1), g.r1.y * (-1)⟩, ⟨g.scl.x, g.scl.y * (-1)⟩, g.shr * (-1)⟩
  else g

/-- outputs of the 2-D function when it returns `true` -/
structure Res2 (α : Type) where
  m : M33 α
  scl : V2 α
  shr : α

/-- 2-D `extractAndRemoveScalingAndShear`; `none` = `return false` / `throw std::domain_error` -/
def ear33 (tmax : α) (len : V2 α → α) (mat : M33 α) : Option (Res2 α) :=
  let row0 : V2 α := ⟨mat.x00, mat.x01⟩
  let row1 : V2 α := ⟨mat.x10, mat.x11⟩
  let maxVal := maxAbs2 row0 row1
  match normRows2 tmax maxVal row0 row1 with
  | none => none
  | some (a0, a1) =>
    match gs2 tmax len a0 a1 with
    | none => none
    | some g =>
      let f := flip2 g
      some ⟨⟨f.r0.x, f.r0.y, mat.x02, f.r1.x, f.r1.y, mat.x12, mat.x20, mat.x21, mat.x22⟩,
            V2.mulS f.scl maxVal, f.shr⟩

/-! ## 3-D -/

def maxAbs3 (r0 r1 r2 : V3 α) : α :=
  upd (upd (upd (upd (upd (upd (upd (upd (upd 0 r0.x) r0.y) r0.z) r1.x) r1.y) r1.z) r2.x) r2.y) r2.z

def normRows3 (tmax maxVal : α) (r0 r1 r2 : V3 α) : Option (V3 α × V3 α × V3 α) :=
  if maxVal != 0 then
    if !checkRow3 tmax maxVal r0 then none
    else if !checkRow3 tmax maxVal r1 then none
    else if !checkRow3 tmax maxVal r2 then none
    else some (V3.divS r0 maxVal, V3.divS r1 maxVal, V3.divS r2 maxVal)
  else some (r0, r1, r2)

/-- orthonormal rows, scale `(x, y, z)`, shear `(xy, xz, yz)` -/
structure GS3 (α : Type) where
  r0 : V3 α
  r1 : V3 α
  r2 : V3 α
  scl : V3 α
  shr : V3 α

def gs3 (tmax : α) (len : V3 α → α) (a0 a1 a2 : V3 α) : Option (GS3 α) :=
  let sx := len a0
  if !checkRow3 tmax sx a0 then none else
  let r0 := V3.divS a0 sx
  let h0 := dot3 r0 a1
  let b1 := V3.subSmul a1 h0 r0
  let sy := len b1
  if !checkRow3 tmax sy b1 then none else
  let r1 := V3.divS b1 sy
  let h1 := dot3 r0 a2
  let b2 := V3.subSmul a2 h1 r0
  let h2 := dot3 r1 b2
  let c2 := V3.subSmul b2 h2 r1
  let sz := len c2
  if !checkRow3 tmax sz c2 then none else
  some ⟨r0, r1, V3.divS c2 sz, ⟨sx, sy, sz⟩, ⟨h0 / sy, h1 / sz, h2 / sz⟩⟩

/-- `if (row[0].dot (row[1].cross (row[2])) < 0) for i: { scl[i] *= -1; row[i] *= -1; }` -/
def flip3 (g : GS3 α) : GS3 α :=
  if dot3 g.r0 (cross3 g.r1 g.r2) < 0 then
    ⟨V3.mulS g.r0 (-1), V3.mulS g.r1 (-1), V3.mulS g.r2 (-1), V3.mulS g.scl (-1), g.shr⟩
  else g

structure Res3 (α : Type) where
  m : M44 α
  scl : V3 α
  shr : V3 α

/-- 3-D `extractAndRemoveScalingAndShear`; `none` = `return false` / `throw std::domain_error` -/
def ear44 (tmax : α) (len : V3 α → α) (mat : M44 α) : Option (Res3 α) :=
  let row0 : V3 α := ⟨mat.x00, mat.x01, mat.x02⟩
  let row1 : V3 α := ⟨mat.x10, mat.x11, mat.x12⟩
  let row2 : V3 α := ⟨mat.x20, mat.x21, mat.x22⟩
  let maxVal := maxAbs3 row0 row1 row2
  match normRows3 tmax maxVal row0 row1 row2 with
  | none => none
  | some (a0, a1, a2) =>
    match gs3 tmax len a0 a1 a2 with
    | none => none
    | some g =>
      let f := flip3 g
      some ⟨⟨f.r0.x, f.r0.y, f.r0.z, mat.x03, f.r1.x, f.r1.y, f.r1.z, mat.x13,
             f.r2.x, f.r2.y, f.r2.z, mat.x23, mat.x30, mat.x31, mat.x32, mat.x33⟩,
            V3.mulS f.scl maxVal, f.shr⟩

/-! ## `Float`-executable transcriptions of `Vec2::length` / `Vec3::length` (ImathVec.h; `if (length2 < 2*min || length2 > max) return lengthTiny ();`),
used by the driver only (`==` is IEEE `==`); the theorems use the extracted `Gen.V2.length` / `Gen.V3.length`. -/

def lengthV2 [OfNat α 2] (tmin tmax : α) (sqrt : α → α) (v : V2 α) : α :=
  let length2 := dot2 v v
  if length2 < 2 * tmin || tmax < length2 then
    let absX := sabs v.x
    let absY := sabs v.y
    let mx := absX
    let mx := if mx < absY then absY else mx
    if mx == 0 then 0
    else
      let absX := absX / mx
      let absY := absY / mx
      mx * sqrt (absX * absX + absY * absY)
  else sqrt length2

def lengthV3 [OfNat α 2] (tmin tmax : α) (sqrt : α → α) (v : V3 α) : α :=
  let length2 := dot3 v v
  if length2 < 2 * tmin || tmax < length2 then
    let absX := if 0 ≤ v.x then v.x else -v.x
    let absY := if 0 ≤ v.y then v.y else -v.y
    let absZ := if 0 ≤ v.z then v.z else -v.z
    let mx := absX
    let mx := if mx < absY then absY else mx
    let mx := if mx < absZ then absZ else mx
    if mx == 0 then 0
    else
      let absX := absX / mx
      let absY := absY / mx
      let absZ := absZ / mx
      mx * sqrt (absX * absX + absY * absY + absZ * absZ)
  else sqrt length2

end model

/-! ## Adapters: the opaque calls emitted by the T-route extraction of the wrappers
(`Gen/C12.lean`; signatures in harness/sym/index_shrt.txt).  The explicit specialisation of
`extractAndRemoveScalingAndShear<Sym>` in harness/sym/sym_c12.cpp asks `…Flag ≠ 0`, throws /
returns false when it is 0 and otherwise reads the three results. -/
section adapters
variable {α : Type} [Add α] [Sub α] [Mul α] [Div α] [Neg α] [LT α] [LE α] [DecidableLT α] [DecidableLE α]
  [DecidableEq α] [OfNat α 0] [OfNat α 1] [OfNat α 2]

def ear33Flag (tmin tmax : α) (sqrt : α → α) (m : M33 α) : α :=
  match ear33 tmax (Gen.V2.length tmin tmax sqrt) m with | some _ => 1 | none => 0
def ear33Mat (tmin tmax : α) (sqrt : α → α) (m : M33 α) : M33 α :=
  match ear33 tmax (Gen.V2.length tmin tmax sqrt) m with | some r => r.m | none => m
def ear33Scl (tmin tmax : α) (sqrt : α → α) (m : M33 α) : V2 α :=
  match ear33 tmax (Gen.V2.length tmin tmax sqrt) m with | some r => r.scl | none => ⟨0, 0⟩
def ear33Shr (tmin tmax : α) (sqrt : α → α) (m : M33 α) : α :=
  match ear33 tmax (Gen.V2.length tmin tmax sqrt) m with | some r => r.shr | none => 0

def ear44Flag (tmin tmax : α) (sqrt : α → α) (m : M44 α) : α :=
  match ear44 tmax (Gen.V3.length tmin tmax sqrt) m with | some _ => 1 | none => 0
def ear44Mat (tmin tmax : α) (sqrt : α → α) (m : M44 α) : M44 α :=
  match ear44 tmax (Gen.V3.length tmin tmax sqrt) m with | some r => r.m | none => m
def ear44Scl (tmin tmax : α) (sqrt : α → α) (m : M44 α) : V3 α :=
  match ear44 tmax (Gen.V3.length tmin tmax sqrt) m with | some r => r.scl | none => ⟨0, 0, 0⟩
def ear44Shr (tmin tmax : α) (sqrt : α → α) (m : M44 α) : V3 α :=
  match ear44 tmax (Gen.V3.length tmin tmax sqrt) m with | some r => r.shr | none => ⟨0, 0, 0⟩

end adapters

end ImathVerif.SHRT
