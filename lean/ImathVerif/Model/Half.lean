/-
Hand model (H-route) of the software float<->half conversion in
src/Imath/half.h, written over `Nat` bit patterns, statement by statement.

`h2f`  : imath_half_to_float, the shift/rebias (#else) branch, lines 305-363
`f2h`  : imath_float_to_half, the software (#else) branch, lines 391-441
`h2fGen`: toFloat.cpp's halfToFloat (the table generator), lines 28-75

Core Lean only (no Mathlib): this file is linked into the `drv_half` driver.
-/
namespace ImathVerif.Half

@[inline] def u32 (n : Nat) : Nat := n % 4294967296
@[inline] def u16 (n : Nat) : Nat := n % 65536

/-- `__builtin_clz` on a non-zero 32-bit value -/
@[inline] def clz32 (x : Nat) : Nat := 31 - Nat.log2 x

/-- imath_half_to_float, non-table / non-F16C branch. `h < 2^16`. -/
def h2f (h : Nat) : Nat :=
  let hexpmant := u32 (h <<< 17) >>> 4
  let v := (h >>> 15) <<< 31
  if hexpmant ≥ 0x00800000 then
    let v := v ||| hexpmant
    if hexpmant < 0x0f800000 then u32 (v + 0x38000000) else v ||| 0x7f800000
  else if hexpmant ≠ 0 then
    let lc := clz32 hexpmant - 8
    let v := v ||| 0x38800000
    let v := v ||| u32 (hexpmant <<< lc)
    u32 (v + 4294967296 - (lc <<< 23))
  else v

/-- imath_float_to_half, software branch. `v < 2^32` is the float's bit pattern. -/
def f2h (v : Nat) : Nat :=
  let ui := v &&& 0x7fffffff
  let ret := (v >>> 16) &&& 0x8000
  if ui ≥ 0x38800000 then
    if ui ≥ 0x7f800000 then
      let ret := ret ||| 0x7c00
      if ui = 0x7f800000 then ret
      else
        let m := (ui &&& 0x7fffff) >>> 13
        ret ||| u16 m ||| (if m = 0 then 1 else 0)
    else if ui > 0x477fefff then ret ||| 0x7c00
    else
      let ui := ui - 0x38000000
      let ui := (ui + 0x00000fff + ((ui >>> 13) &&& 1)) >>> 13
      ret ||| u16 ui
  else if ui < 0x33000001 then ret
  else
    let e := ui >>> 23
    let shift := 0x7e - e
    let m := 0x800000 ||| (ui &&& 0x7fffff)
    let r := u32 (m <<< (32 - shift))
    let ret := ret ||| (m >>> shift)
    if r > 0x80000000 ∨ (r = 0x80000000 ∧ (ret &&& 1) ≠ 0) then u16 (ret + 1) else ret

/-- imath_float_to_half, software branch compiled with `IMATH_HALF_ENABLE_FP_EXCEPTIONS`
(half.h 413-415, 427-430): the same statements plus `feraiseexcept (FE_OVERFLOW)` before the
overflow return and `if (ui == 0) return ret; feraiseexcept (FE_UNDERFLOW);` in the flush branch.
Result: (bits, raised) with raised = 0 nothing, 1 FE_OVERFLOW, 2 FE_UNDERFLOW. -/
def f2hExc (v : Nat) : Nat × Nat :=
  let ui := v &&& 0x7fffffff
  let ret := (v >>> 16) &&& 0x8000
  if ui ≥ 0x38800000 then
    if ui ≥ 0x7f800000 then
      let ret := ret ||| 0x7c00
      if ui = 0x7f800000 then (ret, 0)
      else
        let m := (ui &&& 0x7fffff) >>> 13
        (ret ||| u16 m ||| (if m = 0 then 1 else 0), 0)
    else if ui > 0x477fefff then (ret ||| 0x7c00, 1)
    else
      let ui := ui - 0x38000000
      let ui := (ui + 0x00000fff + ((ui >>> 13) &&& 1)) >>> 13
      (ret ||| u16 ui, 0)
  else if ui < 0x33000001 then
    if ui = 0 then (ret, 0) else (ret, 2)
  else
    let e := ui >>> 23
    let shift := 0x7e - e
    let m := 0x800000 ||| (ui &&& 0x7fffff)
    let r := u32 (m <<< (32 - shift))
    let ret := ret ||| (m >>> shift)
    (if r > 0x80000000 ∨ (r = 0x80000000 ∧ (ret &&& 1) ≠ 0) then u16 (ret + 1) else ret, 0)

/-- NaN results -> sign|0x7e00: the F16C comparison of C02 ignores NaN payloads -/
@[inline] def canon16 (h : Nat) : Nat :=
  if h &&& 0x7c00 = 0x7c00 ∧ h &&& 0x3ff ≠ 0 then (h &&& 0x8000) ||| 0x7e00 else h

/-- toFloat.cpp: halfToFloat, with the `while (!(m & 0x400))` loop given fuel 10. -/
def genNormalize : Nat → Nat → Int → Nat × Int
  | 0, m, e => (m, e)
  | fuel+1, m, e => if m &&& 0x400 = 0 then genNormalize fuel (m <<< 1) (e - 1) else (m, e)

def h2fGen (y : Nat) : Nat :=
  let s := (y >>> 15) &&& 1
  let e := (y >>> 10) &&& 0x1f
  let m := y &&& 0x3ff
  if e = 0 then
    if m = 0 then s <<< 31
    else
      let (m, e') := genNormalize 10 m 0
      let e' := e' + 1
      let m := m &&& (0xffffffff - 0x400)   -- m &= ~0x00000400
      let e'' := (e' + (127 - 15)).toNat
      let m := m <<< 13
      (s <<< 31) ||| (e'' <<< 23) ||| m
  else if e = 31 then
    if m = 0 then (s <<< 31) ||| 0x7f800000
    else (s <<< 31) ||| 0x7f800000 ||| (m <<< 13)
  else
    let e := e + (127 - 15)
    let m := m <<< 13
    (s <<< 31) ||| (e <<< 23) ||| m

/-! ### half::round(n) (half.h 676-726) -/

def roundN (n : Nat) (h : Nat) : Nat :=
  if n ≥ 10 then h else
  let s := h &&& 0x8000
  let e := h &&& 0x7fff
  let e := e >>> (9 - n)
  let e := u16 (e + (e &&& 1))
  let e := u16 (e <<< (9 - n))
  let e := if e ≥ 0x7c00 then
      let e := h
      let e := e >>> (10 - n)
      u16 (e <<< (10 - n))
    else e
  s ||| e

/-! ### classification (half.h 801-853) and unary minus -/

def mantissa (h : Nat) : Nat := h &&& 0x3ff
def exponent (h : Nat) : Nat := (h >>> 10) &&& 0x1f
def isFinite (h : Nat) : Bool := exponent h < 31
def isNormalized (h : Nat) : Bool := exponent h > 0 && exponent h < 31
def isDenormalized (h : Nat) : Bool := exponent h == 0 && mantissa h != 0
def isZero (h : Nat) : Bool := (h &&& 0x7fff) == 0
def isNan (h : Nat) : Bool := exponent h == 31 && mantissa h != 0
def isInfinity (h : Nat) : Bool := exponent h == 31 && mantissa h == 0
def isNegative (h : Nat) : Bool := (h &&& 0x8000) != 0
def neg (h : Nat) : Nat := h ^^^ 0x8000

end ImathVerif.Half
