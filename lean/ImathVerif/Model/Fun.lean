/-
Hand model (H-route) of src/Imath/ImathFun.h, ImathFun.cpp and the three
free functions at the end of ImathMath.h, statement by statement.

* generic scalar functions over an arbitrary type `α` carrying the operators the
  C++ template uses (`+ - * / unary- < <= == `, literals 0 and 1);
  `numeric_limits<T>::max()` is the parameter `tmax`, the C++ cast `int(x)` is
  the parameter `toInt : α → Int` (exact truncation toward zero for
  |x| < 2^31 — stated as a hypothesis wherever a theorem needs it) and the
  implicit `int → T` conversion of `-x > int(-x)` is the `IntCast α` instance;
* `divs mods divp modp` over unbounded `Int` (C++ `/`, `%` on int truncate
  toward zero: `Int.tdiv`, `Int.tmod`), the list of the intermediate values the
  32-bit code computes (`divsSteps` ...; "no intermediate overflows" = every
  entry lies in the int range) and a wrapping/trapping two's-complement
  evaluation (`divs32` ...) used only to *record* what the compiled code does
  on inputs outside the guard;
* `finitef finited succf predf succd predd` on bit patterns (`Nat`).

Core Lean only (no Mathlib): this file is linked into the `drv_fun` driver.
-/
namespace ImathVerif.Fun

/-! ### ImathFun.h 24-108: generic scalar utilities -/
section Generic
variable {α : Type} [Add α] [Sub α] [Mul α] [Div α] [Neg α] [LT α] [LE α]
  [DecidableLT α] [DecidableLE α] [BEq α] [OfNat α 0] [OfNat α 1]

/-- `abs`: `(a > T(0)) ? a : -a` -/
def abs (a : α) : α := if a > 0 then a else -a

/-- `sign`: `(a > T(0)) ? 1 : ((a < T(0)) ? -1 : 0)` -/
def sign (a : α) : Int := if a > 0 then 1 else if a < 0 then -1 else 0

/-- `lerp`: `a * (1 - t) + b * t` -/
def lerp (a b t : α) : α := a * (1 - t) + b * t

/-- `ulerp`: `(a > b) ? (a - (a - b) * t) : (a + (b - a) * t)` -/
def ulerp (a b t : α) : α := if a > b then a - (a - b) * t else a + (b - a) * t

/-- the overflow guard of `lerpfactor`: `abs(d) > 1 || abs(n) < max * abs(d)` -/
def lerpfactorGuard (tmax : α) (m a b : α) : Prop :=
  let d := b - a
  let n := m - a
  abs d > 1 ∨ abs n < tmax * abs d

instance (tmax m a b : α) : Decidable (lerpfactorGuard tmax m a b) := by
  unfold lerpfactorGuard; exact inferInstance

/-- `lerpfactor (m, a, b)` with `tmax = numeric_limits<T>::max()` -/
def lerpfactor (tmax : α) (m a b : α) : α :=
  let d := b - a
  let n := m - a
  if abs d > 1 ∨ abs n < tmax * abs d then n / d else 0

/-- `clamp`: `(a < l) ? l : ((a > h) ? h : a)` -/
def clamp (a l h : α) : α := if a < l then l else if a > h then h else a

/-- `cmp`: `sign (a - b)` -/
def cmp (a b : α) : Int := sign (a - b)

/-- `cmpt`: `(abs (a - b) <= t) ? 0 : cmp (a, b)` -/
def cmpt (a b t : α) : Int := if abs (a - b) ≤ t then 0 else cmp a b

/-- `iszero`: `(abs (a) <= t) ? 1 : 0` -/
def iszero (a t : α) : Bool := if abs a ≤ t then true else false

/-- `equal`: `abs (a - b) <= t` -/
def equal (a b t : α) : Bool := decide (abs (a - b) ≤ t)

/-- `ulerp` at `T = unsigned int` (what the function exists for): `a - b` / `b - a` are UNSIGNED subtractions
(wrap modulo 2^32), the products and sums are computed in `Q` after the conversion `cast : unsigned → Q` -/
def ulerpU (cast : Nat → α) (a b : Nat) (t : α) : α :=
  if a > b then cast a - cast ((a + 4294967296 - b) % 4294967296) * t
  else cast a + cast ((b + 4294967296 - a) % 4294967296) * t

/-! ### ImathFun.h 110-130: floor / ceil / trunc through `int(x)` casts -/

/-- `floor` (as repaired in /repo commit 04462ef): `(x >= 0) ? int (x) : -int (-x) - (-x > int (-x))`
(before it: `-(int (-x) + (-x > int (-x)))`, whose sum was INT_MAX + 1 for x in (-2^31, -(2^31 - 1))) -/
def floor [IntCast α] (toInt : α → Int) (x : α) : Int :=
  if x ≥ 0 then toInt x else -toInt (-x) - (if -x > ((toInt (-x) : Int) : α) then 1 else 0)

/-- `ceil`: `-floor (-x)` -/
def ceil [IntCast α] (toInt : α → Int) (x : α) : Int := -floor toInt (-x)

/-- `trunc`: `(x >= 0) ? int (x) : -int (-x)` -/
def trunc (toInt : α → Int) (x : α) : Int := if x ≥ 0 then toInt x else -toInt (-x)

/-- the int-typed intermediate values `floor` computes (for the 32-bit overflow statement) -/
def floorSteps [IntCast α] (toInt : α → Int) (x : α) : List Int :=
  if x ≥ 0 then [toInt x]
  else [toInt (-x), -toInt (-x), -toInt (-x) - (if -x > ((toInt (-x) : Int) : α) then 1 else 0)]

/-- the intermediates of the expression BEFORE commit 04462ef, kept to state what the defect was -/
def floorStepsOld [IntCast α] (toInt : α → Int) (x : α) : List Int :=
  if x ≥ 0 then [toInt x]
  else [toInt (-x), toInt (-x) + (if -x > ((toInt (-x) : Int) : α) then 1 else 0),
        -(toInt (-x) + (if -x > ((toInt (-x) : Int) : α) then 1 else 0))]

/-- the int-typed intermediate values `ceil` computes: those of `floor (-x)` and the final negation -/
def ceilSteps [IntCast α] (toInt : α → Int) (x : α) : List Int :=
  floorSteps toInt (-x) ++ [-(floor toInt (-x))]

/-- the int-typed intermediate values `trunc` computes -/
def truncSteps (toInt : α → Int) (x : α) : List Int :=
  if x ≥ 0 then [toInt x] else [toInt (-x), -toInt (-x)]

/-! ### ImathMath.h 125-166 -/

/-- `sinx_over_x`: `if (x * x < epsilon) return 1; else return sin (x) / x` -/
def sinx_over_x (teps : α) (sin : α → α) (x : α) : α := if x * x < teps then 1 else sin x / x

/-- `equalWithAbsError`: `((x1 > x2) ? x1 - x2 : x2 - x1) <= e` -/
def equalWithAbsError (x1 x2 e : α) : Bool := decide ((if x1 > x2 then x1 - x2 else x2 - x1) ≤ e)

/-- `equalWithRelError`: `((x1 > x2) ? x1 - x2 : x2 - x1) <= e * ((x1 > 0) ? x1 : -x1)` -/
def equalWithRelError (x1 x2 e : α) : Bool :=
  decide ((if x1 > x2 then x1 - x2 else x2 - x1) ≤ e * (if x1 > 0 then x1 else -x1))

end Generic

/-! ### ImathFun.h 132-172: integer division and remainder (sign-case tables)

C++ `/` and `%` on `int` truncate toward zero: `Int.tdiv`, `Int.tmod`.  The
model is over unbounded `Int`. -/

/-- `divs` -/
def divs (x y : Int) : Int :=
  if x ≥ 0 then (if y ≥ 0 then x.tdiv y else -(x.tdiv (-y)))
  else (if y ≥ 0 then -((-x).tdiv y) else (-x).tdiv (-y))

/-- `mods` -/
def mods (x y : Int) : Int :=
  if x ≥ 0 then (if y ≥ 0 then x.tmod y else x.tmod (-y))
  else (if y ≥ 0 then -((-x).tmod y) else -((-x).tmod (-y)))

/-- `divp` (as repaired in /repo commit 7d4bca4):
`(x >= 0) ? ((y >= 0) ? (x / y) : -(x / -y))
          : ((y >= 0) ? -1 - ((-(x + 1)) / y) : 1 + ((-(x + 1)) / -y))` -/
def divp (x y : Int) : Int :=
  if x ≥ 0 then (if y ≥ 0 then x.tdiv y else -(x.tdiv (-y)))
  else (if y ≥ 0 then -1 - ((-(x + 1)).tdiv y) else 1 + ((-(x + 1)).tdiv (-y)))

/-- `modp`: `x - y * divp (x, y)` (value; see `modpSteps` for how it is computed) -/
def modp (x y : Int) : Int := x - y * divp x y

/-- every int-typed intermediate value the C++ expression of `divs` computes on
the path taken (operands of `/` included) -/
def divsSteps (x y : Int) : List Int :=
  if x ≥ 0 then (if y ≥ 0 then [x.tdiv y] else [-y, x.tdiv (-y), -(x.tdiv (-y))])
  else (if y ≥ 0 then [-x, (-x).tdiv y, -((-x).tdiv y)] else [-x, -y, (-x).tdiv (-y)])

def modsSteps (x y : Int) : List Int :=
  if x ≥ 0 then (if y ≥ 0 then [x.tmod y] else [-y, x.tmod (-y)])
  else (if y ≥ 0 then [-x, (-x).tmod y, -((-x).tmod y)] else [-x, -y, (-x).tmod (-y), -((-x).tmod (-y))])

def divpSteps (x y : Int) : List Int :=
  if x ≥ 0 then (if y ≥ 0 then [x.tdiv y] else [-y, x.tdiv (-y), -(x.tdiv (-y))])
  else (if y ≥ 0 then [x + 1, -(x + 1), (-(x + 1)).tdiv y, -1 - ((-(x + 1)).tdiv y)]
        else [x + 1, -(x + 1), -y, (-(x + 1)).tdiv (-y), 1 + ((-(x + 1)).tdiv (-y))])

/-- `modp` (as repaired in /repo commit f9bac53) computes `x - y * divp (x, y)` in UNSIGNED arithmetic and converts the
result, which lies in [0, |y|), back: no int intermediate beyond those of `divp` -/
def modpSteps (x y : Int) : List Int := divpSteps x y

/-- the int intermediates BEFORE commit f9bac53 (`x - y * divp (x, y)` in int arithmetic), kept to state what the defect was -/
def modpStepsOld (x y : Int) : List Int := divpSteps x y ++ [y * divp x y, x - y * divp x y]

/-- the subset of `divpSteps` that are *negations* (the property's wording) -/
def divpNegations (x y : Int) : List Int :=
  if x ≥ 0 then (if y ≥ 0 then [] else [-y, -(x.tdiv (-y))])
  else (if y ≥ 0 then [-(x + 1)] else [-(x + 1), -y])

def inInt32 (i : Int) : Bool := decide (-2147483648 ≤ i) && decide (i ≤ 2147483647)

/-- "no intermediate value overflows" -/
def noOverflow (steps : List Int) : Bool := steps.all inInt32

/-! Two's-complement evaluation (what the compiled code does at -O1 on x86-64):
`+ - *` and unary minus wrap, `idiv` traps on a zero divisor and on
`INT_MIN / -1`.  Used only to *record* the behaviour outside the guard. -/

def wrap32 (i : Int) : Int := (i + 2147483648) % 4294967296 - 2147483648

def div32 (a b : Int) : Option Int :=
  if b = 0 ∨ (a = -2147483648 ∧ b = -1) then none else some (a.tdiv b)
def mod32 (a b : Int) : Option Int :=
  if b = 0 ∨ (a = -2147483648 ∧ b = -1) then none else some (a.tmod b)
def neg32 (a : Int) : Int := wrap32 (-a)

def divs32 (x y : Int) : Option Int :=
  if x ≥ 0 then (if y ≥ 0 then div32 x y else (div32 x (neg32 y)).map neg32)
  else (if y ≥ 0 then (div32 (neg32 x) y).map neg32 else div32 (neg32 x) (neg32 y))

def mods32 (x y : Int) : Option Int :=
  if x ≥ 0 then (if y ≥ 0 then mod32 x y else mod32 x (neg32 y))
  else (if y ≥ 0 then (mod32 (neg32 x) y).map neg32 else (mod32 (neg32 x) (neg32 y)).map neg32)

def divp32 (x y : Int) : Option Int :=
  if x ≥ 0 then (if y ≥ 0 then div32 x y else (div32 x (neg32 y)).map neg32)
  else (if y ≥ 0 then (div32 (neg32 (wrap32 (x + 1))) y).map fun q => wrap32 (-1 - q)
        else (div32 (neg32 (wrap32 (x + 1))) (neg32 y)).map fun q => wrap32 (1 + q))

def modp32 (x y : Int) : Option Int := (divp32 x y).map fun q => wrap32 (x - wrap32 (y * q))

/-! `floor / ceil / trunc` with MACHINE `int` intermediates: every `int` operation (`+`, unary `-`) wraps to 32 bits,
exactly as `divs32` ... above.  (`toInt` is the cast; the theorems assume it only for |y| < 2^31.) -/
section Machine
variable {α : Type} [Neg α] [LT α] [LE α] [DecidableLT α] [DecidableLE α] [OfNat α 0] [IntCast α]

/-- `floor` as compiled: `(x >= 0) ? int (x) : -int (-x) - (-x > int (-x))` with wrapping unary and binary `-` -/
def floor32 (toInt : α → Int) (x : α) : Int :=
  if x ≥ 0 then toInt x else wrap32 (neg32 (toInt (-x)) - (if -x > ((toInt (-x) : Int) : α) then 1 else 0))

/-- `ceil` as compiled: `-floor (-x)` -/
def ceil32 (toInt : α → Int) (x : α) : Int := neg32 (floor32 toInt (-x))

/-- `trunc` as compiled -/
def trunc32 (toInt : α → Int) (x : α) : Int := if x ≥ 0 then toInt x else neg32 (toInt (-x))

end Machine

/-! ### ImathFun.h 193-229, ImathFun.cpp: bit-level predicates, successor / predecessor -/

/-- `finitef`: `(u.i & 0x7f800000) != 0x7f800000` on the float's bit pattern -/
def finitef (u : Nat) : Bool := (u &&& 0x7f800000) != 0x7f800000

/-- `finited`: `(u.i & 0x7ff0000000000000LL) != 0x7ff0000000000000LL` -/
def finited (u : Nat) : Bool := (u &&& 0x7ff0000000000000) != 0x7ff0000000000000

/-- `std::isfinite` on a binary32 pattern -/
def isfinite32 (u : Nat) : Bool := (u >>> 23) % 256 != 255
def isfinite64 (u : Nat) : Bool := (u >>> 52) % 2048 != 2047

/-- `std::nextafter (f, +inf)` for finite `f` (glibc): ±0 ↦ smallest positive
subnormal; positive: next pattern (FLT_MAX ↦ +inf); negative: previous pattern
(−min subnormal ↦ −0). -/
def nextUp32 (u : Nat) : Nat :=
  if u % 2147483648 = 0 then 1 else if u < 2147483648 then u + 1 else u - 1

/-- `std::nextafter (f, -inf)` for finite `f`: ±0 ↦ smallest negative subnormal -/
def nextDown32 (u : Nat) : Nat :=
  if u % 2147483648 = 0 then 2147483649 else if u < 2147483648 then u - 1 else u + 1

def nextUp64 (u : Nat) : Nat :=
  if u % 9223372036854775808 = 0 then 1 else if u < 9223372036854775808 then u + 1 else u - 1
def nextDown64 (u : Nat) : Nat :=
  if u % 9223372036854775808 = 0 then 9223372036854775809
  else if u < 9223372036854775808 then u - 1 else u + 1

/-- `succf`: `isfinite (f) ? nextafter (f, +inf) : f` -/
def succf (u : Nat) : Nat := if isfinite32 u then nextUp32 u else u
def predf (u : Nat) : Nat := if isfinite32 u then nextDown32 u else u
def succd (u : Nat) : Nat := if isfinite64 u then nextUp64 u else u
def predd (u : Nat) : Nat := if isfinite64 u then nextDown64 u else u

end ImathVerif.Fun
