/-!
# Hand model of the buffer protocol glue (C19) — core Lean only

Source: `/repo/src/python/PyImath/PyImathBufferProtocol.cpp`
(`BufferAPI` constructor 52-64, `SharedBufferAPI::numBytes` 103-104,
`getbuffer` 226-293, `fixedArrayFromBuffer` 355-412) and the traits of
`PyImathFixedArrayTraits.h` (`FixedArrayWidth/Dimension/AtomicSize`,
`PyFormat`), which the check re-reads from the current tree on every run.

A source handed to `...ArrayFromBuffer` is a PEP-3118 view: `format`, `itemsize`, `shape`, `strides`
(bytes, any sign), `len = Π shape × itemsize` and a pointer `buf` INTO the exporter's memory block
(`mem`, `off`).  `fixedArrayFromBuffer` requests `PyBUF_FORMAT | PyBUF_STRIDES`, so every strided exporter
(a `memoryview` slice `[::2]`, `[::-1]`, imath's own component arrays `V3fArray.y`) is accepted.
-/
namespace ImathVerif.BufferProtocol

/-- per element type constants -/
structure ElemTy where
  atomicSize : Nat     -- FixedArrayAtomicSize<T>::value
  width : Nat          -- FixedArrayWidth<T>::value
  dims : Nat           -- FixedArrayDimension<T>::value
  sizeofT : Nat        -- sizeof (T)
  format : Char        -- PyFormat<T>()[0]
  deriving DecidableEq, Repr

/-- how `fixedArrayFromBuffer` fills the new array from the view -/
inductive CopyMode
  | memcpy              -- `memcpy (dst, view.buf, view.len)` whatever the strides (as written)
  | requireContiguous   -- the view is requested / tested C-contiguous, other views are refused; then `memcpy`
  | logical             -- `PyBuffer_ToContiguous (dst, &view, view.len, 'C')`: item by item, honouring the strides
  deriving DecidableEq, Repr

/-- which variant of the code is modelled -/
structure BufCfg where
  /-- `numBytes` = product of the exported shape x itemsize (false: `len * atomicSize * stride`, as written) -/
  numBytesFromShape : Bool
  /-- `fixedArrayFromBuffer` rejects a source whose format / item size / byte length does not match `T`
      (false: only byte-order prefixes are rejected, as written) -/
  fromBufferChecks : Bool
  /-- the copy -/
  copy : CopyMode := .memcpy
  deriving DecidableEq, Repr

/-- the tree as first examined -/
def BufCfg.asWritten : BufCfg := ⟨false, false, .memcpy⟩
/-- after fixes fc32a9c / 529722b: shape-derived `numBytes`, element type / size checks, still a flat `memcpy` -/
def BufCfg.checked : BufCfg := ⟨true, true, .memcpy⟩
/-- every site as evidently intended: the copy reads exactly the source's items -/
def BufCfg.repaired : BufCfg := ⟨true, true, .logical⟩
/-- the other acceptable repair: non-contiguous sources are refused -/
def BufCfg.repairedStrict : BufCfg := ⟨true, true, .requireContiguous⟩

/-- the fields of `Py_buffer` that `getbuffer` fills (flags: `PyBUF_FULL_RO`) -/
structure PyBuffer where
  len : Nat
  itemsize : Nat
  ndim : Nat
  shape : List Nat
  strides : List Nat
  deriving DecidableEq, Repr

/-- `BufferAPI` constructor: `shape[0] = length; shape[d] = width * interleave` -/
def apiShape (t : ElemTy) (length interleave : Nat) : List Nat :=
  length :: List.replicate (t.dims - 1) (t.width * interleave)

/-- `stride[0] = atomicSize * width * interleave; stride[d] = atomicSize` -/
def apiStrides (t : ElemTy) (interleave : Nat) : List Nat :=
  (t.atomicSize * t.width * interleave) :: List.replicate (t.dims - 1) t.atomicSize

def prod (l : List Nat) : Nat := l.foldr (· * ·) 1

/-- `SharedBufferAPI::numBytes` / `CopyBufferAPI::numBytes` -/
def numBytes (cfg : BufCfg) (t : ElemTy) (length stride : Nat) : Nat :=
  if cfg.numBytesFromShape then prod (apiShape t length stride) * t.atomicSize
  else length * t.atomicSize * stride

/-- `getbuffer` for an unmasked array of `length` elements and element stride `stride` -/
def getbuffer (cfg : BufCfg) (t : ElemTy) (length stride : Nat) : PyBuffer :=
  { len := numBytes cfg t length stride, itemsize := t.atomicSize, ndim := t.dims,
    shape := apiShape t length stride, strides := apiStrides t stride }

/-- what CPython documents for a `Py_buffer`: `len = product(shape) * itemsize` -/
def PyBuffer.consistent (b : PyBuffer) : Prop := b.len = prod b.shape * b.itemsize

instance (b : PyBuffer) : Decidable b.consistent := by unfold PyBuffer.consistent; infer_instance

/-- a source view handed to `...ArrayFromBuffer` -/
structure Src where
  format : List Char   -- `view.format` ([] models a null pointer)
  itemsize : Nat
  shape : List Nat     -- `view.shape` (`view.ndim` = its length)
  strides : List Int   -- `view.strides`, in bytes, any sign
  mem : List Nat       -- the exporter's memory block (bytes)
  off : Nat            -- `view.buf` minus the start of that block
  len : Nat            -- `view.len`
  deriving DecidableEq, Repr

/-- `view.shape[0]` -/
def Src.shape0 (s : Src) : Nat := s.shape.headD 0

/-- a dense 1-D source: `array.array`, `bytes`, ... -/
def Src.dense (format : List Char) (itemsize shape0 : Nat) (bytes : List Nat) : Src :=
  ⟨format, itemsize, [shape0], [itemsize], bytes, 0, bytes.length⟩

inductive FromErr
  | unsupportedType      -- std::invalid_argument "Unsupported buffer type"
  | mismatch             -- element type / size does not match
  | notContiguous        -- (`requireContiguous`) the view is not C-contiguous
  | oob                  -- model only: the copy writes past the new allocation
  | oobRead              -- model only: the copy reads outside the exporter's memory block
  deriving DecidableEq, Repr

/-- the format test of `fixedArrayFromBuffer`: null, or a byte-order prefix `>`, `!`, `=`, `^` -/
def badPrefix (fmt : List Char) : Bool :=
  match fmt with
  | [] => true
  | c :: _ => c == '>' || c == '!' || c == '=' || c == '^'

/-- the lambda `fmtKind` of `fixedArrayFromBuffer`: floating point / signed / unsigned / anything else by itself -/
def fmtKind (c : Char) : Nat :=
  if c == 'e' || c == 'f' || c == 'd' then 0
  else if c == 'b' || c == 'h' || c == 'i' || c == 'l' || c == 'q' then 1
  else if c == 'B' || c == 'H' || c == 'I' || c == 'L' || c == 'Q' then 2
  else 3 + c.toNat % 256

/-- `fmt[0]` after `if (*fmt == '@' || *fmt == '<') ++fmt;` (the terminating NUL when nothing follows) -/
def fmtChar (fmt : List Char) : Char :=
  match fmt with
  | [] => Char.ofNat 0
  | c :: rest => if c == '@' || c == '<' then rest.headD (Char.ofNat 0) else c

/-- byte offsets, relative to `view.buf`, of the items in C (row-major) order -/
def itemOffsets : List Nat → List Int → List Int
  | [], _ => [0]
  | _ :: _, [] => []
  | n :: ns, st :: sts => (List.range n).flatMap (fun (i : Nat) => (itemOffsets ns sts).map (fun o => Int.ofNat i * st + o))

/-- the `itemsize` bytes at signed position `p` of the block (`none`: outside the block) -/
def itemAt (mem : List Nat) (itemsize : Nat) (p : Int) : Option (List Nat) :=
  if 0 ≤ p ∧ p.toNat + itemsize ≤ mem.length then some ((mem.drop p.toNat).take itemsize) else none

def gather (mem : List Nat) (itemsize : Nat) (off : Nat) : List Int → Option (List Nat)
  | [] => some []
  | o :: os =>
    match itemAt mem itemsize ((off : Int) + o), gather mem itemsize off os with
    | some b, some bs => some (b ++ bs)
    | _, _ => none

/-- **the specification**: the source's items in C order — what `bytes(memoryview)` / `tolist()` show -/
def Src.logicalBytes (s : Src) : Option (List Nat) :=
  gather s.mem s.itemsize s.off (itemOffsets s.shape s.strides)

/-- the `view.len` bytes starting at `view.buf`, as `memcpy` reads them -/
def Src.flatBytes (s : Src) : Option (List Nat) :=
  if s.off + s.len ≤ s.mem.length then some ((s.mem.drop s.off).take s.len) else none

/-- `_IsCContiguous` of CPython's `abstract.c`, from the last dimension: the expected stride `sd` on success -/
def contigFrom (itemsize : Nat) : List Nat → List Int → Option Nat
  | [], _ => some itemsize
  | _ :: _, [] => none
  | n :: ns, st :: sts =>
    match contigFrom itemsize ns sts with
    | none => none
    | some sd => if 1 < n ∧ st ≠ (sd : Int) then none else some (sd * n)

/-- `PyBuffer_IsContiguous (&view, 'C')` -/
def Src.isCContiguous (s : Src) : Bool :=
  s.len == 0 || (contigFrom s.itemsize s.shape s.strides).isSome

/-- `fixedArrayFromBuffer<ArrayT>`: the new array's storage as bytes.
    `new ArrayT (view.shape[0], UNINITIALIZED)` then the copy of `view.len` bytes. -/
def fromBuffer (cfg : BufCfg) (t : ElemTy) (src : Src) : Except FromErr (List Nat) :=
  if badPrefix src.format then .error .unsupportedType else
  let allocBytes := src.shape0 * t.sizeofT
  if cfg.fromBufferChecks ∧
      (src.shape = [] ∨ src.itemsize ≠ t.atomicSize ∨ fmtKind (fmtChar src.format) ≠ fmtKind t.format ∨
        src.len ≠ allocBytes) then
    .error .mismatch
  else if cfg.copy = .requireContiguous ∧ src.isCContiguous = false then .error .notContiguous
  else if allocBytes < src.len then .error .oob
  else
    match (if cfg.copy = .logical then src.logicalBytes else src.flatBytes) with
    | none => .error .oobRead
    | some bytes => .ok (bytes ++ List.replicate (allocBytes - bytes.length) 0)


/-- **the view `getbuffer` hands out**, as a PEP-3118 view INTO the array's storage: `mem` is the storage block (bytes),
    `off` the byte offset of the array's first element (`_ptr`), `length` / `stride` the array's `_length` / `_stride`
    (a component array `.y` of a `V3fArray` has `off = 4`, `stride = 3`) -/
def exportView (cfg : BufCfg) (t : ElemTy) (length stride : Nat) (mem : List Nat) (off : Nat) : Src :=
  let b := getbuffer cfg t length stride
  ⟨[t.format], b.itemsize, b.shape, b.strides.map Int.ofNat, mem, off, b.len⟩

/-- what a consumer reads through the exported view (`memoryview(a).tobytes()`) -/
def exportBytes (cfg : BufCfg) (t : ElemTy) (length stride : Nat) (mem : List Nat) (off : Nat) : Option (List Nat) :=
  (exportView cfg t length stride mem off).logicalBytes

end ImathVerif.BufferProtocol
