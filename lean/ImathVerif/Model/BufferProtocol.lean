/-!
# Hand model of the buffer protocol glue (C19) — core Lean only

Source: `/repo/src/python/PyImath/PyImathBufferProtocol.cpp`
(`BufferAPI` constructor 52-64, `SharedBufferAPI::numBytes` 103-104,
`getbuffer` 226-293, `fixedArrayFromBuffer` 336-367) and the traits of
`PyImathFixedArrayTraits.h` (`FixedArrayWidth/Dimension/AtomicSize`,
`PyFormat`), which the check re-reads from the current tree on every run.
-/
namespace ImathVerif.BufferProtocol

/-- per element type constants -/
structure ElemTy where
  atomicSize : Nat     -- FixedArrayAtomicSize<T>::value
  width : Nat          -- FixedArrayWidth<T>::value
  dims : Nat           -- FixedArrayDimension<T>::value
  sizeofT : Nat        -- sizeof (T)
  format : Char        -- PyFormat<T>()[0]
  deriving DecidableEq, Repr

/-- which variant of the code is modelled -/
structure BufCfg where
  /-- `numBytes` = product of the exported shape x itemsize (false: `len * atomicSize * stride`, as written) -/
  numBytesFromShape : Bool
  /-- `fixedArrayFromBuffer` rejects a source whose format / item size / byte length does not match `T`
      (false: only byte-order prefixes are rejected, as written) -/
  fromBufferChecks : Bool
  deriving DecidableEq, Repr

def BufCfg.asWritten : BufCfg := ⟨false, false⟩
def BufCfg.repaired : BufCfg := ⟨true, true⟩

/-- the fields of `Py_buffer` that `getbuffer` fills (flags: `PyBUF_FULL_RO`) -/
structure PyBuffer where
  len : Nat
  itemsize : Nat
  ndim : Nat
  shape : List Nat
  strides : List Nat
  deriving DecidableEq, Repr

/-- `BufferAPI` constructor: `shape[0] = length; shape[d] = width * interleave` -/
def apiShape (t : ElemTy) (length interleave : Nat) : List Nat :=
  length :: List.replicate (t.dims - 1) (t.width * interleave)

/-- `stride[0] = atomicSize * width * interleave; stride[d] = atomicSize` -/
def apiStrides (t : ElemTy) (interleave : Nat) : List Nat :=
  (t.atomicSize * t.width * interleave) :: List.replicate (t.dims - 1) t.atomicSize

def prod (l : List Nat) : Nat := l.foldr (· * ·) 1

/-- `SharedBufferAPI::numBytes` / `CopyBufferAPI::numBytes` -/
def numBytes (cfg : BufCfg) (t : ElemTy) (length stride : Nat) : Nat :=
  if cfg.numBytesFromShape then prod (apiShape t length stride) * t.atomicSize
  else length * t.atomicSize * stride

/-- `getbuffer` for an unmasked array of `length` elements and element stride `stride` -/
def getbuffer (cfg : BufCfg) (t : ElemTy) (length stride : Nat) : PyBuffer :=
  { len := numBytes cfg t length stride, itemsize := t.atomicSize, ndim := t.dims,
    shape := apiShape t length stride, strides := apiStrides t stride }

/-- what CPython documents for a `Py_buffer`: `len = product(shape) * itemsize` -/
def PyBuffer.consistent (b : PyBuffer) : Prop := b.len = prod b.shape * b.itemsize

instance (b : PyBuffer) : Decidable b.consistent := by unfold PyBuffer.consistent; infer_instance

/-- a source buffer handed to `...ArrayFromBuffer` -/
structure Src where
  format : List Char   -- `view.format` ([] models a null pointer)
  itemsize : Nat
  shape0 : Nat         -- `view.shape[0]`
  bytes : List Nat     -- the `view.len` bytes at `view.buf`
  deriving DecidableEq, Repr

inductive FromErr
  | unsupportedType      -- std::invalid_argument "Unsupported buffer type"
  | mismatch             -- (repaired variant) element type / size does not match
  | oob                  -- model only: memcpy writes past the new allocation
  deriving DecidableEq, Repr

/-- the format test of `fixedArrayFromBuffer`: null, or a byte-order prefix `>`, `!`, `=`, `^` -/
def badPrefix (fmt : List Char) : Bool :=
  match fmt with
  | [] => true
  | c :: _ => c == '>' || c == '!' || c == '=' || c == '^'

/-- `fixedArrayFromBuffer<ArrayT>`: the new array's storage as bytes.
    `new ArrayT (view.shape[0], UNINITIALIZED)` then `memcpy (dst, view.buf, view.len)`. -/
def fromBuffer (cfg : BufCfg) (t : ElemTy) (src : Src) : Except FromErr (List Nat) :=
  if badPrefix src.format then .error .unsupportedType else
  let allocBytes := src.shape0 * t.sizeofT
  if cfg.fromBufferChecks ∧
      (src.format ≠ [t.format] ∨ src.itemsize ≠ t.atomicSize ∨ src.bytes.length ≠ allocBytes) then
    .error .mismatch
  else if src.bytes.length ≤ allocBytes then
    .ok (src.bytes ++ List.replicate (allocBytes - src.bytes.length) 0)
  else .error .oob

end ImathVerif.BufferProtocol
