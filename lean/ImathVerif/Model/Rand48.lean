/-
Hand model (H-route) of src/Imath/ImathRandom.cpp and the inline members of
src/Imath/ImathRandom.h, statement by statement, over `Nat` bit patterns.

  rand48Next   ImathRandom.cpp:26-66   (unsigned short state[3] -> uint64 x; x = a*x+c; split)
  erand48      ImathRandom.cpp:86-107  (packed 64-bit pattern `u.i`, then `u.d - 1`)
  drand48      ImathRandom.cpp:110-114
  nrand48      ImathRandom.cpp:117-126
  lrand48      ImathRandom.cpp:129-133
  srand48      ImathRandom.cpp:135-141
  Rand32::nextf ImathRandom.cpp:143-169
  Rand32::init/next/nextb/nexti, Rand48::init/nextb/nexti/nextf  ImathRandom.h:122-199

Conventions
* `St` is `unsigned short state[3]`: `s0 = state[0]` (LEAST significant limb),
  `s2 = state[2]` (most significant).  C guarantees each limb `< 2^16` (`St.wf`).
* `uint64_t` / `unsigned long` arithmetic wraps mod 2^64 (`u64`): the model is
  for the LP64 data model (`unsigned long` = 64 bits), which is what the
  correspondence harness is compiled for.
* `long int` arguments are given by their 64-bit two's-complement pattern
  (a `Nat < 2^64`).  `(unsigned short)(seed >> 16)` on a negative `seed` is an
  arithmetic shift followed by truncation to 16 bits = bits 16..31 of the
  pattern = `u16 (seed >>> 16)` on the pattern.
* The only floating-point operations in the file are `u.d - 1` (double) and
  `u.f - 1` (float) applied to a pattern with biased exponent 0x3ff / 0x7f.
  They are modelled by `dblMinusOne` / `fltMinusOne`, which return the bit
  pattern of the EXACT difference; `Props/C18.lean` (`sub_one_exact_dbl`,
  `sub_one_exact_flt`) proves that this difference is a representable number,
  so an IEEE subtraction in any rounding mode returns exactly it.
* `nextf (rangeMin, rangeMax)` and the sphere/gauss samplers are floating-point
  expressions over the outputs modelled here; they are not in this file
  (ordered-field facts in Props/C18.lean, rounding measured by the harness).

Core Lean only (no Mathlib): this file is linked into the `drv_rand48` driver.
-/
namespace ImathVerif.Rand48

@[inline] def u16 (n : Nat) : Nat := n % 65536
@[inline] def u32 (n : Nat) : Nat := n % 4294967296
@[inline] def u64 (n : Nat) : Nat := n % 18446744073709551616

/-- `unsigned short state[3]`; `s0 = state[0]` is the least significant limb -/
structure St where
  s0 : Nat
  s1 : Nat
  s2 : Nat
deriving DecidableEq, Repr, Inhabited

/-- what the C type `unsigned short` guarantees -/
def St.wf (s : St) : Prop := s.s0 < 65536 ∧ s.s1 < 65536 ∧ s.s2 < 65536

instance (s : St) : Decidable s.wf := by unfold St.wf; exact inferInstance

/-- the 48-bit value `x[n]` assembled from the three limbs -/
def pack (s : St) : Nat := s.s0 + 65536 * s.s1 + 4294967296 * s.s2

/-- rand48Next (ImathRandom.cpp:26-66) -/
def rand48Next (s : St) : St :=
  let a := 0x5deece66d
  let c := 0xb
  -- uint64_t x = (uint64_t (state[2]) << 32) | (uint64_t (state[1]) << 16) | uint64_t (state[0]);
  let x := (s.s2 <<< 32) ||| (s.s1 <<< 16) ||| s.s0
  -- x = a * x + c;      (uint64_t: mod 2^64)
  let x := u64 (a * x + c)
  -- state[2] = (unsigned short)(x >> 32); state[1] = (unsigned short)(x >> 16); state[0] = (unsigned short)(x);
  { s2 := u16 (x >>> 32), s1 := u16 (x >>> 16), s0 := u16 x }

/-! ### IEEE bit patterns of small dyadics (the results of `u.d - 1`, `u.f - 1`) -/

/-- binary64 pattern of the number `m / 2^52`, for `m < 2^52` -/
def dblOfFrac52 (m : Nat) : Nat :=
  if m = 0 then 0 else
    let k := Nat.log2 m
    ((971 + k) <<< 52) ||| ((m <<< (52 - k)) % 4503599627370496)

/-- binary32 pattern of the number `m / 2^23`, for `m < 2^23` -/
def fltOfFrac23 (m : Nat) : Nat :=
  if m = 0 then 0 else
    let k := Nat.log2 m
    ((104 + k) <<< 23) ||| ((m <<< (23 - k)) % 8388608)

/-- `u.d - 1` where `u.i = packed` has sign 0, biased exponent 0x3ff: the value
is `1 + (packed mod 2^52)/2^52`, the difference `(packed mod 2^52)/2^52` -/
def dblMinusOne (packed : Nat) : Nat := dblOfFrac52 (packed % 4503599627370496)

/-- `u.f - 1` where `u.i = packed` has sign 0, biased exponent 0x7f -/
def fltMinusOne (packed : Nat) : Nat := fltOfFrac23 (packed % 8388608)

/-! ### erand48 / nrand48 / srand48 -/

/-- the pattern `u.i` built by erand48 from the (already advanced) state -/
def erand48Packed (s : St) : Nat :=
  (0x3ff <<< 52) ||| (s.s2 <<< 36) ||| (s.s1 <<< 20) ||| (s.s0 <<< 4) ||| (s.s2 >>> 12)

/-- erand48: (bit pattern of the returned double, successor state) -/
def erand48 (s : St) : Nat × St :=
  let s := rand48Next s
  (dblMinusOne (erand48Packed s), s)

/-- numerator over 2^52 of the value returned by erand48 -/
def erand48Num (s : St) : Nat := erand48Packed (rand48Next s) % 4503599627370496

/-- nrand48: (returned long, successor state) -/
def nrand48 (s : St) : Nat × St :=
  let s := rand48Next s
  ((s.s2 <<< 15) ||| (s.s1 >>> 1), s)

/-- srand48 (seed as a 64-bit two's-complement pattern): the new static state -/
def srand48 (seed : Nat) : St :=
  { s2 := u16 (seed >>> 16), s1 := u16 seed, s0 := 0x330e }

/-- `unsigned short staticState[3] = {0, 0, 0}` -/
def staticInit : St := { s0 := 0, s1 := 0, s2 := 0 }

/-! ### class Rand48 -/

/-- Rand48::init (seed an `unsigned long`, `< 2^64`) -/
def r48Init (seed : Nat) : St :=
  let seed := u64 (seed * 0xa5a573a5) ^^^ 0x5a5a5a5a
  { s0 := u16 (seed &&& 0xFFFF), s1 := u16 ((seed >>> 16) &&& 0xFFFF), s2 := u16 (seed &&& 0xFFFF) }

/-- Rand48::nextb: `nrand48 (_state) & 1` -/
def r48Nextb (s : St) : Bool × St :=
  let r := nrand48 s
  ((r.1 &&& 1) != 0, r.2)

/-- Rand48::nexti -/
def r48Nexti (s : St) : Nat × St := nrand48 s

/-- Rand48::nextf () -/
def r48Nextf (s : St) : Nat × St := erand48 s

/-! ### class Rand32 (`_state` is an `unsigned long`: 64 bits) -/

/-- Rand32::init -/
def r32Init (seed : Nat) : Nat := u64 (seed * 0xa5a573a5) ^^^ 0x5a5a5a5a

/-- Rand32::next -/
def r32Next (st : Nat) : Nat := u64 (1664525 * st + 1013904223)

/-- Rand32::nextb: `!!(_state & 2147483648UL)` -/
def r32Nextb (st : Nat) : Bool × Nat :=
  let st := r32Next st
  ((st &&& 2147483648) != 0, st)

/-- Rand32::nexti: `_state & 0xffffffff` -/
def r32Nexti (st : Nat) : Nat × Nat :=
  let st := r32Next st
  (st &&& 0xffffffff, st)

/-- the pattern `u.i` (an `unsigned int`) built by Rand32::nextf from the advanced state -/
def r32NextfPacked (st : Nat) : Nat := u32 (0x3f800000 ||| (st &&& 0x7fffff))

/-- Rand32::nextf (): (bit pattern of the returned float, successor state) -/
def r32Nextf (st : Nat) : Nat × Nat :=
  let st := r32Next st
  (fltMinusOne (r32NextfPacked st), st)

/-- numerator over 2^23 of the value returned by Rand32::nextf -/
def r32NextfNum (st : Nat) : Nat := r32NextfPacked (r32Next st) % 8388608

/-! ### call sequences -/

/-- what a call returns -/
inductive Out where
  | int (n : Nat)      -- long / unsigned long
  | dbl (bits : Nat)   -- double, as its bit pattern
  | flt (bits : Nat)   -- float, as its bit pattern
  | bool (b : Bool)
  | none               -- void
deriving DecidableEq, Repr, Inhabited

/-- entry points working on 48-bit states: `user` is the caller's
`unsigned short[3]` (also used as a `Rand48` object's `_state`), `stat` is the
file-static `staticState` -/
inductive Op where
  | nrand48 | erand48            -- on the caller's array
  | lrand48 | drand48            -- on staticState
  | srand48 (seed : Nat)         -- sets staticState
  | r48init (seed : Nat)         -- Rand48::init on the caller's array
  | r48nextb | r48nexti | r48nextf
deriving DecidableEq, Repr, Inhabited

structure World where
  user : St
  stat : St
deriving DecidableEq, Repr, Inhabited

def step (w : World) : Op → Out × World
  | .nrand48 => (.int (nrand48 w.user).1, { w with user := (nrand48 w.user).2 })
  | .erand48 => (.dbl (erand48 w.user).1, { w with user := (erand48 w.user).2 })
  | .lrand48 => (.int (nrand48 w.stat).1, { w with stat := (nrand48 w.stat).2 })
  | .drand48 => (.dbl (erand48 w.stat).1, { w with stat := (erand48 w.stat).2 })
  | .srand48 seed => (.none, { w with stat := srand48 seed })
  | .r48init seed => (.none, { w with user := r48Init seed })
  | .r48nextb => (.bool (r48Nextb w.user).1, { w with user := (r48Nextb w.user).2 })
  | .r48nexti => (.int (r48Nexti w.user).1, { w with user := (r48Nexti w.user).2 })
  | .r48nextf => (.dbl (r48Nextf w.user).1, { w with user := (r48Nextf w.user).2 })

/-- one call appended to a trace: (world, values returned so far) -/
def runStep (acc : World × List Out) (op : Op) : World × List Out :=
  ((step acc.1 op).2, acc.2 ++ [(step acc.1 op).1])

/-- run a call sequence: final world and the list of returned values, in call order -/
def run (ops : List Op) (w : World) : World × List Out := ops.foldl runStep (w, [])

/-- Rand32 member calls -/
inductive Op32 where
  | init (seed : Nat) | nextb | nexti | nextf
deriving DecidableEq, Repr, Inhabited

def step32 (st : Nat) : Op32 → Out × Nat
  | .init seed => (.none, r32Init seed)
  | .nextb => (.bool (r32Nextb st).1, (r32Nextb st).2)
  | .nexti => (.int (r32Nexti st).1, (r32Nexti st).2)
  | .nextf => (.flt (r32Nextf st).1, (r32Nextf st).2)

def runStep32 (acc : Nat × List Out) (op : Op32) : Nat × List Out :=
  ((step32 acc.1 op).2, acc.2 ++ [(step32 acc.1 op).1])

def run32 (ops : List Op32) (st : Nat) : Nat × List Out := ops.foldl runStep32 (st, [])

end ImathVerif.Rand48
