/-
Hand model (H-route) of PyImath's task dispatch and of the vectorised execute
loops.  Core Lean only (no Mathlib): this file is linked into `drv_dispatch`.

Sources mirrored (src/python/PyImath):
  PyImathTask.h/.cpp        Task::execute(start,end[,tid]), WorkerPool, dispatchTask, workers()
  PyImathFixedArray.h       ReadOnly/Writable Direct/Masked accessors, match_dimension
  PyImathAutovectorize.h    VectorizedOperationN / VectorizedVoidOperationN /
                            VectorizedMaskedVoidOperation1 execute loops,
                            measure_arguments / match_lengths,
                            VectorizedVoidMaskableMemberFunction1::apply
  PyImathBox.cpp            ExtendByTask (tid-indexed partial boxes) and box_extendBy
-/
namespace ImathVerif.Dispatch

/-! ## Heap -/

/-- One flat address space; every FixedArray buffer is a base address in it. -/
abbrev Addr := Nat

/-- The heap: contents of every cell.  (A structure rather than a bare function type, so that the
    compiled driver evaluates a written value once, when the cell is written: a definition returning a
    bare function is eta-expanded by the compiler and would recompute the value on every read.) -/
structure Heap (α : Type) where
  get : Addr → α

/-- `ptr[a] = v` -/
def Heap.write {α : Type} (h : Heap α) (a : Addr) (v : α) : Heap α :=
  ⟨fun x => if x = a then v else h.get x⟩

theorem Heap.ext' {α : Type} {h h' : Heap α} (e : ∀ x, h.get x = h'.get x) : h = h' := by
  cases h; cases h'; congr; funext x; exact e x

/-! ## Accessors (PyImathFixedArray.h:731-823) -/

/-- `ReadOnly/WritableDirectAccess::operator[] (i)  = _ptr[i*_stride]`,
    `ReadOnly/WritableMaskedAccess::operator[] (i)  = _ptr[_indices[i]*_stride]`. -/
inductive Access where
  | direct (base stride : Nat)
  | masked (base stride : Nat) (indices : List Nat)
  deriving Repr, DecidableEq

/-- address touched by `access[i]` -/
def Access.loc : Access → Nat → Addr
  | .direct b s, i => b + i * s
  | .masked b s idx, i => b + idx.getD i 0 * s

/-- `array.raw_ptr_index(i)` of the array an accessor was made from -/
def Access.rawIndex : Access → Nat → Nat
  | .direct _ _, i => i
  | .masked _ _ idx, i => idx.getD i 0

/-- The accessor `i ↦ arg[ri]`, `ri = self.raw_ptr_index(i)`, used by
    VectorizedMaskedVoidOperation1 (PyImathAutovectorize.h:1959-1977). -/
def Access.reindex (arg : Access) (self : Access) : Access :=
  match self, arg with
  | .direct _ _, a => a
  | .masked _ _ idx, .direct b s => .masked b s idx
  | .masked _ _ idx, .masked b s idx2 => .masked b s (idx.map fun ri => idx2.getD ri 0)

/-- An operand of an element operation: a FixedArray accessor or the
    `SimpleNonArrayWrapper` of a scalar (same value for every `i`). -/
inductive Arg (α : Type) where
  | arr (a : Access)
  | const (v : α)

def Arg.read {α : Type} : Arg α → Heap α → Nat → α
  | .arr a, h, i => h.get (a.loc i)
  | .const v, _, _ => v

/-- cells read by `arg[i]` -/
def Arg.locs {α : Type} : Arg α → Nat → List Addr
  | .arr a, i => [a.loc i]
  | .const _, _ => []

/-! ## Tasks -/

/-- `Task::execute (start, end, tid)` acting on a state `σ` (the heap for
    element-wise tasks, the per-thread partial results for reductions). -/
abbrev Task (σ : Type) := (start stop tid : Nat) → σ → σ

/-- The loop `for (size_t i = start; i < end; ++i) body(i)`. -/
def exec {σ : Type} (step : Nat → σ → σ) (s e : Nat) (h : σ) : σ :=
  if s < e then exec step (s + 1) e (step s h) else h
termination_by e - s

/-- A task whose `execute(start,end)` is that loop; the default
    `execute(start,end,tid) {execute(start,end);}` drops `tid`. -/
def Task.ofStep {σ : Type} (step : Nat → σ → σ) : Task σ := fun s e _ => exec step s e

/-- Element-wise task: `retAccess[i] = Op::apply (arg1[i], arg2[i], ...)`
    (VectorizedOperationN), or `Op::apply (access[i], arg1[i], ...)` mutating
    `access[i]` (VectorizedVoidOperationN: then `ret` is `access` and `access`
    is also the first operand). -/
structure ElemTask (α : Type) where
  ret  : Access
  args : List (Arg α)
  op   : List α → α

/-- one loop iteration -/
def ElemTask.step {α : Type} (t : ElemTask α) (i : Nat) (h : Heap α) : Heap α :=
  h.write (t.ret.loc i) (t.op (t.args.map fun a => a.read h i))

/-- the cell written by iteration `i` -/
def ElemTask.w {α : Type} (t : ElemTask α) (i : Nat) : Addr := t.ret.loc i

/-- the cells read by iteration `i` -/
def ElemTask.r {α : Type} (t : ElemTask α) (i : Nat) : List Addr := t.args.flatMap fun a => a.locs i

def ElemTask.task {α : Type} (t : ElemTask α) : Task (Heap α) := Task.ofStep t.step

/-- Running a list of indices one after another: an interleaving at element granularity. -/
def runList {σ : Type} (step : Nat → σ → σ) (l : List Nat) (h : σ) : σ :=
  l.foldl (fun h i => step i h) h

/-! ## Pool and dispatchTask (PyImathTask.cpp:33-57) -/

/-- one `task.execute (start, stop, tid)` call made by a pool -/
structure Range where
  start : Nat
  stop  : Nat
  tid   : Nat
  deriving Repr, DecidableEq

/-- A scripted WorkerPool: `dispatch (task,length)` performs the listed calls in
    the listed order. -/
structure Pool where
  workers        : Nat
  script         : Nat → List Range
  inWorkerThread : Bool

def runRanges {σ : Type} (t : Task σ) (rs : List Range) (h : σ) : σ :=
  rs.foldl (fun h r => t r.start r.stop r.tid h) h

def Pool.dispatch {σ : Type} (p : Pool) (t : Task σ) (len : Nat) (h : σ) : σ :=
  runRanges t (p.script len) h

/-- `_minIterations` -/
def minIterations : Nat := 200

/-- does `dispatchTask` hand the task to the pool? -/
def usesPool (pool : Option Pool) (len : Nat) : Bool :=
  if len > minIterations then
    match pool with
    | some p => !p.inWorkerThread
    | none => false
  else false

/-- `dispatchTask (task, length)`, statement by statement. -/
def dispatchTask {σ : Type} (pool : Option Pool) (t : Task σ) (len : Nat) (h : σ) : σ :=
  if len > minIterations then
    match pool with
    | some p => if !p.inWorkerThread then p.dispatch t len h else t 0 len 0 h
    | none => t 0 len 0 h
  else t 0 len 0 h

/-- `PyImath::workers()` -/
def workers (pool : Option Pool) : Nat :=
  match pool with
  | some p => if !p.inWorkerThread then p.workers else 1
  | none => 1

/-! ## Ranges covering `[0,len)` -/

def Range.covers (r : Range) (i : Nat) : Bool := decide (r.start ≤ i) && decide (i < r.stop)

/-- how many ranges contain index `i` -/
def coverCount (rs : List Range) (i : Nat) : Nat := (rs.filter fun r => r.covers i).length

/-- Every range is well-formed and inside `[0,len)`, and every index below `len`
    lies in exactly one range.  Decidable. -/
def IsPartition (len : Nat) (rs : List Range) : Prop :=
  (∀ r ∈ rs, r.start ≤ r.stop ∧ r.stop ≤ len) ∧ ∀ i, i < len → coverCount rs i = 1

instance (len : Nat) (rs : List Range) : Decidable (IsPartition len rs) := by
  unfold IsPartition; exact inferInstance

/-- Every index below `len` lies in at least one range (overlaps allowed). -/
def IsCover (len : Nat) (rs : List Range) : Prop :=
  (∀ r ∈ rs, r.start ≤ r.stop ∧ r.stop ≤ len) ∧ ∀ i, i < len → 1 ≤ coverCount rs i

instance (len : Nat) (rs : List Range) : Decidable (IsCover len rs) := by
  unfold IsCover; exact inferInstance

/-- the indices visited by a list of ranges, in visiting order -/
def flatten (rs : List Range) : List Nat := rs.flatMap fun r => List.range' r.start (r.stop - r.start)

/-! ## Aliasing condition -/

/-- The cell written by index `i` is neither written nor read by any other index
    `j ≠ i` (it may be read by `i` itself: `a += a`, `ret` aliasing an operand at
    the same index).  Decidable. -/
def NoCrossAlias (len : Nat) (w : Nat → Addr) (r : Nat → List Addr) : Prop :=
  ∀ i, i < len → ∀ j, j < len → i ≠ j → w i ≠ w j ∧ w i ∉ r j

instance (len : Nat) (w : Nat → Addr) (r : Nat → List Addr) : Decidable (NoCrossAlias len w r) := by
  unfold NoCrossAlias; exact inferInstance

/-- element-wise specification: cell `w i` (`i < len`) holds what iteration `i`
    computes from the ORIGINAL heap, every other cell is unchanged: `map op`. -/
def elementwise {α : Type} (step : Nat → Heap α → Heap α) (w : Nat → Addr) (len : Nat) (h : Heap α) : Heap α :=
  ⟨fun x => match (List.range len).find? (fun i => w i = x) with
    | some i => (step i h).get x
    | none => h.get x⟩

/-! ## Argument measurement (PyImathAutovectorize.h:143-233, PyImathFixedArray.h:685-708) -/

/-- `measure_argument`: (length, is a vectorised argument) -/
abbrev Measure := Nat × Bool

/-- `match_lengths`; `none` is the thrown
    "Array dimensions passed into function do not match". -/
def matchLengths (l1 l2 : Measure) : Option Measure :=
  if l1.2 = false then some l2
  else if l2.2 = false then some l1
  else if l1.1 ≠ l2.1 then none
  else some l1

/-- `measure_arguments (arg1, ..., argN)`: left fold of `match_lengths`. -/
def measureArguments : List Measure → Option Nat
  | [] => none
  | m :: ms => (ms.foldl (fun acc x => acc.bind fun l => matchLengths l x) (some m)).map (·.1)

/-- `FixedArray::match_dimension (a1, strictComparison)`; `selfLen` is `len()`,
    `selfUnmasked` is `some _unmaskedLength` for a masked reference. -/
def matchDimension (selfLen : Nat) (selfUnmasked : Option Nat) (otherLen : Nat) (strict : Bool) : Option Nat :=
  if selfLen = otherLen then some selfLen
  else if strict then none
  else match selfUnmasked with
    | some u => if u ≠ otherLen then none else some selfLen
    | none => none

/-- `VectorizedFunctionN::apply` / `VectorizedVoidMemberFunctionN::apply`:
    measure, then build accessors and dispatch.  The heap is only touched after
    the lengths matched. -/
def applyVectorized {α : Type} (pool : Option Pool) (ms : List Measure)
    (mk : Nat → ElemTask α) (h : Heap α) : Heap α × Bool :=
  match measureArguments ms with
  | none => (h, false)
  | some len => (dispatchTask pool (mk len).task len h, true)

/-- `VectorizedVoidMaskableMemberFunction1::apply` (in-place `+=` etc.):
    `match_dimension (arg1, false)`; when self is masked and the argument has the
    UNMASKED length, the argument is read at `raw_ptr_index (i)`. -/
def applyMaskable {α : Type} (pool : Option Pool) (self : Access) (selfLen : Nat) (selfUnmasked : Option Nat)
    (arg : Access) (argLen : Nat) (op : List α → α) (h : Heap α) : Heap α × Bool :=
  match matchDimension selfLen selfUnmasked argLen false with
  | none => (h, false)
  | some len =>
    let arg' := if selfUnmasked.isSome && decide (selfUnmasked = some argLen) then arg.reindex self else arg
    (dispatchTask pool ({ ret := self, args := [.arr self, .arr arg'], op := op } : ElemTask α).task len h, true)

/-! ## Reduction (PyImathBox.cpp:226-256) -/

/-- `boxes[tid].extendBy (points[p])` for `p` in `[start,end)`: partial results
    indexed by thread id; `join b (pt p)` is `extendBy`. -/
def reduceStep {β : Type} (join : β → β → β) (pt : Nat → β) (tid : Nat) (p : Nat) (P : Nat → β) : Nat → β :=
  fun t => if t = tid then join (P t) (pt p) else P t

def reduceTask {β : Type} (join : β → β → β) (pt : Nat → β) : Task (Nat → β) :=
  fun s e tid => exec (reduceStep join pt tid) s e

/-- `box_extendBy`: `numBoxes = workers()`, empty partial boxes, dispatch, then
    `box.extendBy (boxes[i])` for every `i`. -/
def boxExtendBy {β : Type} (join : β → β → β) (empty : β) (pool : Option Pool) (pt : Nat → β) (len : Nat) (box : β) : β :=
  let n := workers pool
  let P := dispatchTask pool (reduceTask join pt) len (fun _ => empty)
  (List.range n).foldl (fun b i => join b (P i)) box

/-- the unsplit reference: fold all points into the box -/
def foldPoints {β : Type} (join : β → β → β) (pt : Nat → β) (len : Nat) (box : β) : β :=
  (List.range len).foldl (fun b p => join b (pt p)) box

/-! ### The same reduction with the TWO member functions the C++ uses (PyImathBox.cpp:224-256)

`ExtendByTask::execute (start,end,tid)` calls `boxes[tid].extendBy (points[p])` — the POINT overload
`Box<V>::extendBy (const V&)`; `box_extendBy` default-constructs `std::vector<Box<T>> boxes (numBoxes)`
(`Box()` = `makeEmpty()`), dispatches, and merges with `box.extendBy (boxes[i])` — the BOX overload
`Box<V>::extendBy (const Box<V>&)`.  `extP` / `extB` / `empty` are instantiated with the definitions
GENERATED from ImathBox.h (`Gen.Box3.extendByPoint`, `Gen.Box3.extendByBox`, `Gen.Box3.default`). -/

/-- `boxes[tid].extendBy (points[p])`: partial results indexed by thread id. -/
def reduceStep2 {β π : Type} (extP : β → π → β) (pts : Nat → π) (tid : Nat) (p : Nat) (P : Nat → β) : Nat → β :=
  fun t => if t = tid then extP (P t) (pts p) else P t

/-- `ExtendByTask::execute (start, end, tid)` -/
def reduceTask2 {β π : Type} (extP : β → π → β) (pts : Nat → π) : Task (Nat → β) :=
  fun s e tid => exec (reduceStep2 extP pts tid) s e

/-- `box_extendBy (box, points)`: `numBoxes = workers ()`, `boxes (numBoxes)` default-constructed,
    `dispatchTask (task, points.len ())`, then `box.extendBy (boxes[i])` for `i = 0 .. numBoxes-1`. -/
def boxExtendBy2 {β π : Type} (extP : β → π → β) (extB : β → β → β) (empty : β) (pool : Option Pool)
    (pts : Nat → π) (len : Nat) (box : β) : β :=
  let n := workers pool
  let P := dispatchTask pool (reduceTask2 extP pts) len (fun _ => empty)
  (List.range n).foldl (fun b i => extB b (P i)) box

/-- the unsplit reference: `box.extendBy (points[p])` for `p = 0 .. len-1` -/
def foldPoints2 {β π : Type} (extP : β → π → β) (pts : Nat → π) (len : Nat) (box : β) : β :=
  (List.range len).foldl (fun b p => extP b (pts p)) box

/-- A 1-D closed interval box, `none` = empty (`Box()`); `hull` is `extendBy`:
    component-wise min / max. -/
abbrev IBox := Option (Int × Int)

def hull : IBox → IBox → IBox
  | none, b => b
  | a, none => a
  | some (a, b), some (c, d) => some (min a c, max b d)

end ImathVerif.Dispatch
