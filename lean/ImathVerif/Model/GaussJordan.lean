import ImathVerif.Basic.Types
/-!
# Hand model (H-route) of `Matrix33<T>::gjInverse` / `Matrix44<T>::gjInverse`

Source: /repo/src/Imath/ImathMatrix.h 2638-2828 (3×3) and 4204-4394 (4×4); the throwing
(`singExc`) and the `noexcept` bodies are separate textual copies of the same algorithm and
the 3×3 and 4×4 bodies differ only in the dimension, so ONE model generic in `n` mirrors all
four, statement by statement:

```
Matrix s;            // identity
Matrix t (*this);
for (i = 0; i < n-1; i++) {                       -- `forwardStep`, folded over `fwdIdx n`
    int pivot = i;  T pivotsize = t[i][i];  if (pivotsize < 0) pivotsize = -pivotsize;
    for (j = i+1; j < n; j++) {                    -- `pivotSearch`
        T tmp = t[j][i];  if (tmp < 0) tmp = -tmp;
        if (tmp > pivotsize) { pivot = j; pivotsize = tmp; } }
    if (pivotsize == 0) return Matrix ();          -- `none`  (or throw std::invalid_argument)
    if (pivot != i) swap rows i, pivot of t and of s;
    for (j = i+1; j < n; j++) {                    -- `elimRows` over the rows below
        T f = t[j][i] / t[i][i];
        for k: t[j][k] -= f * t[i][k];  s[j][k] -= f * s[i][k]; } }
for (i = n-1; i >= 0; --i) {                      -- `backwardStep`, folded over `bwdIdx n`
    T f;  if ((f = t[i][i]) == 0) return Matrix ();   -- `none`
    for j: t[i][j] /= f;  s[i][j] /= f;            -- `scaleRow`
    for (j = 0; j < i; j++) {                      -- `elimRowsB` over the rows above
        f = t[j][i];
        for k: t[j][k] -= f * t[i][k];  s[j][k] -= f * s[i][k]; } }
return s;
```
The element loops over `k` are whole-row operations here (row `i` is never the row being
written, and `f` is read before the loop, so the element order is immaterial); every
arithmetic expression keeps the operand order of the C++ (`t[j][k] - f * t[i][k]`,
`t[j][i] / t[i][i]`, `t[i][j] / f`), so the model evaluated at `Float`/`Float32` reproduces
the compiled code bit for bit (checked by harness/corr/c06_inv.cpp on every run).

Core Lean only (linked into `drv_gj`).  Generic over a scalar with exactly the operations
used; `==` is a `BEq` (IEEE `==` at `Float`, decidable equality in the theorems).
-/
namespace ImathVerif.GJ

/-- an n×n matrix, materialised (so that evaluation shares work) -/
structure Mat (n : Nat) (α : Type) where
  a : Vector (Vector α n) n

variable {n : Nat} {α : Type}

@[inline] def Mat.get (m : Mat n α) (i j : Fin n) : α := (m.a[i.1])[j.1]

def Mat.ofFn (f : Fin n → Fin n → α) : Mat n α :=
  ⟨Vector.ofFn fun i => Vector.ofFn fun j => f i j⟩

/-- `Matrix ()`: the identity -/
def Mat.identity [OfNat α 0] [OfNat α 1] : Mat n α := Mat.ofFn fun i j => if i = j then 1 else 0

/-- exchange rows `i` and `p` (the `tmp` swap loop over `j`) -/
def swapRows (m : Mat n α) (i p : Fin n) : Mat n α :=
  Mat.ofFn fun r k => if r = i then m.get p k else if r = p then m.get i k else m.get r k

/-- `for k: m[j][k] -= f * m[i][k]` -/
def axpyRow [Sub α] [Mul α] (m : Mat n α) (j i : Fin n) (f : α) : Mat n α :=
  Mat.ofFn fun r k => if r = j then m.get j k - f * m.get i k else m.get r k

/-- `for j: m[i][j] /= f` -/
def scaleRow [Div α] (m : Mat n α) (i : Fin n) (f : α) : Mat n α :=
  Mat.ofFn fun r k => if r = i then m.get i k / f else m.get r k

/-- `if (x < 0) x = -x` -/
def absNeg [LT α] [DecidableLT α] [Neg α] [OfNat α 0] (x : α) : α := if x < 0 then -x else x

/-- rows `j = i+1 .. n-1`, ascending -/
def rowsBelow (i : Fin n) : List (Fin n) := (List.finRange n).filter fun j => i < j
/-- rows `j = 0 .. i-1`, ascending -/
def rowsAbove (i : Fin n) : List (Fin n) := (List.finRange n).filter fun j => j < i
/-- `i = 0 .. n-2` -/
def fwdIdx (n : Nat) : List (Fin n) := (List.finRange n).filter fun i => i.val + 1 < n
/-- `i = n-1 .. 0` -/
def bwdIdx (n : Nat) : List (Fin n) := (List.finRange n).reverse

/-- partial pivoting: first row at or below `i` with the largest `|t[j][i]|` (strict `>` keeps the first) -/
def pivotSearch [LT α] [DecidableLT α] [Neg α] [OfNat α 0] (t : Mat n α) (i : Fin n) : Fin n × α :=
  (rowsBelow i).foldl
    (fun (acc : Fin n × α) j =>
      let tmp := absNeg (t.get j i)
      if acc.2 < tmp then (j, tmp) else acc)
    (i, absNeg (t.get i i))

/-- forward: `f = t[j][i] / t[i][i]`, then the same row operation on `t` and on `s` -/
def elimRows [Sub α] [Mul α] [Div α] (i : Fin n) (st : Mat n α × Mat n α) (js : List (Fin n)) : Mat n α × Mat n α :=
  js.foldl (fun (st : Mat n α × Mat n α) j =>
      let f := st.2.get j i / st.2.get i i
      (axpyRow st.1 j i f, axpyRow st.2 j i f)) st

/-- backward: `f = t[j][i]`, then the same row operation on `t` and on `s` -/
def elimRowsB [Sub α] [Mul α] (i : Fin n) (st : Mat n α × Mat n α) (js : List (Fin n)) : Mat n α × Mat n α :=
  js.foldl (fun (st : Mat n α × Mat n α) j =>
      let f := st.2.get j i
      (axpyRow st.1 j i f, axpyRow st.2 j i f)) st

/-- one iteration of the forward-elimination loop on the pair `(s, t)`; `none` = zero pivot -/
def forwardStep [Sub α] [Mul α] [Div α] [Neg α] [LT α] [DecidableLT α] [BEq α] [OfNat α 0]
    (st : Mat n α × Mat n α) (i : Fin n) : Option (Mat n α × Mat n α) :=
  let pv := pivotSearch st.2 i
  if pv.2 == 0 then none
  else
    let st' := if pv.1 = i then st else (swapRows st.1 i pv.1, swapRows st.2 i pv.1)
    some (elimRows i st' (rowsBelow i))

/-- one iteration of the backward-substitution loop; `none` = zero diagonal element -/
def backwardStep [Sub α] [Mul α] [Div α] [BEq α] [OfNat α 0]
    (st : Mat n α × Mat n α) (i : Fin n) : Option (Mat n α × Mat n α) :=
  let f := st.2.get i i
  if f == 0 then none
  else some (elimRowsB i (scaleRow st.1 i f, scaleRow st.2 i f) (rowsAbove i))

/-- the final pair `(s, t)`; `none` when a pivot is zero -/
def gjRun [Sub α] [Mul α] [Div α] [Neg α] [LT α] [DecidableLT α] [BEq α] [OfNat α 0] [OfNat α 1]
    (m : Mat n α) : Option (Mat n α × Mat n α) :=
  ((fwdIdx n).foldlM forwardStep (Mat.identity, m)).bind fun st => (bwdIdx n).foldlM backwardStep st

/-- Gauss-Jordan inverse; `none` = the code's "singular" exit (identity / throw) -/
def gjCore [Sub α] [Mul α] [Div α] [Neg α] [LT α] [DecidableLT α] [BEq α] [OfNat α 0] [OfNat α 1]
    (m : Mat n α) : Option (Mat n α) :=
  (gjRun m).map Prod.fst

end ImathVerif.GJ

namespace ImathVerif
open GJ

def M33.toGJ {α : Type} (a : M33 α) : Mat 3 α :=
  ⟨#v[#v[a.x00, a.x01, a.x02], #v[a.x10, a.x11, a.x12], #v[a.x20, a.x21, a.x22]]⟩
def M33.ofGJ {α : Type} (m : Mat 3 α) : M33 α :=
  ⟨m.get 0 0, m.get 0 1, m.get 0 2, m.get 1 0, m.get 1 1, m.get 1 2, m.get 2 0, m.get 2 1, m.get 2 2⟩
def M44.toGJ {α : Type} (a : M44 α) : Mat 4 α :=
  ⟨#v[#v[a.x00, a.x01, a.x02, a.x03], #v[a.x10, a.x11, a.x12, a.x13],
      #v[a.x20, a.x21, a.x22, a.x23], #v[a.x30, a.x31, a.x32, a.x33]]⟩
def M44.ofGJ {α : Type} (m : Mat 4 α) : M44 α :=
  ⟨m.get 0 0, m.get 0 1, m.get 0 2, m.get 0 3, m.get 1 0, m.get 1 1, m.get 1 2, m.get 1 3,
   m.get 2 0, m.get 2 1, m.get 2 2, m.get 2 3, m.get 3 0, m.get 3 1, m.get 3 2, m.get 3 3⟩

def M33.identity {α : Type} [OfNat α 0] [OfNat α 1] : M33 α := ⟨1, 0, 0, 0, 1, 0, 0, 0, 1⟩
def M44.identity {α : Type} [OfNat α 0] [OfNat α 1] : M44 α := ⟨1, 0, 0, 0, 0, 1, 0, 0, 0, 0, 1, 0, 0, 0, 0, 1⟩

variable {α : Type} [Sub α] [Mul α] [Div α] [Neg α] [LT α] [DecidableLT α] [BEq α] [OfNat α 0] [OfNat α 1]

/-- `Matrix33<T>::gjInverse () const noexcept` (ImathMatrix.h 2740-2828): identity when singular -/
def M33.gjInverse (a : M33 α) : M33 α :=
  match gjCore a.toGJ with
  | some s => M33.ofGJ s
  | none => M33.identity

/-- `Matrix33<T>::gjInverse (bool singExc = true) const` (2638-2738): throws `std::invalid_argument` -/
def M33.gjInverseExc (a : M33 α) : Except Exc (M33 α) :=
  match gjCore a.toGJ with
  | some s => .ok (M33.ofGJ s)
  | none => .error Exc.invalidArgument

/-- `Matrix44<T>::gjInverse () const noexcept` (ImathMatrix.h 4306-4394) -/
def M44.gjInverse (a : M44 α) : M44 α :=
  match gjCore a.toGJ with
  | some s => M44.ofGJ s
  | none => M44.identity

/-- `Matrix44<T>::gjInverse (bool singExc = true) const` (4204-4304) -/
def M44.gjInverseExc (a : M44 α) : Except Exc (M44 α) :=
  match gjCore a.toGJ with
  | some s => .ok (M44.ofGJ s)
  | none => .error Exc.invalidArgument

end ImathVerif
