import ImathVerif.Basic.Types
/-!
# Hand model (H-route) of the Jacobi building blocks of ImathMatrixAlgo.cpp

Source: /repo/src/Imath/ImathMatrixAlgo.cpp
  * `jacobiRotateRight`, `twoSidedJacobiRotation` (3×3 template <j,k,l> 283-469; 4×4 (j,k) with loops over l 471-631)
  * post-passes of `twoSidedJacobiSVD` (3×3 732-798, 4×4 835-913): sign fix-up, sort, forcePositiveDeterminant
  * `jacobiRotateRight<j,k>` / `jacobiRotation` of the symmetric eigen solver (3×3 998-1054, 4×4 1056-1111)
  * index selection of `maxEigenVector` / `minEigenVector` (1205-1239)

The iteration to convergence (`do … while (maxOffDiag > absTol && numIter < maxIter)`) IS modelled (section `loops`: sweeps over
all pairs, `changed` aggregation, the stopping test, `maxIter = 20`, reading `S` off the diagonal, the post-passes, and for the
eigen solver the end-of-sweep update `S[i] += Z[i]; A[i][i] = S[i]` with `Z` reset per sweep); the driver runs exactly these
definitions.  The theorems (Lemmas/C12Loops.lean) are the loop INVARIANTS and the bookkeeping (`S` = diagonal of the rotated
matrix); that the loop CONVERGES, and its accuracy, are measured (harness/corr/c12_residue.cpp).

Matrices are functions `Nat → Nat → α` (row, column), so that ONE definition mirrors the 3×3 template
(`l` = the third index) and the 4×4 body (loops over `l ∉ {j,k}`): "every other row/column".
Operand order of every arithmetic expression is that of the C++ (bitwise correspondence at `Float`:
harness/corr/c12_corr.cpp vs lean/Driver/SHRT.lean).  Core Lean only.
-/
namespace ImathVerif.Jacobi

abbrev Mat (α : Type) := Nat → Nat → α

def M33.toFn {α : Type} (m : M33 α) : Mat α := fun i j =>
  match i, j with
  | 0, 0 => m.x00 | 0, 1 => m.x01 | 0, _ => m.x02
  | 1, 0 => m.x10 | 1, 1 => m.x11 | 1, _ => m.x12
  | _, 0 => m.x20 | _, 1 => m.x21 | _, _ => m.x22
def M33.ofFn {α : Type} (f : Mat α) : M33 α := ⟨f 0 0, f 0 1, f 0 2, f 1 0, f 1 1, f 1 2, f 2 0, f 2 1, f 2 2⟩
def M44.toFn {α : Type} (m : M44 α) : Mat α := fun i j =>
  match i, j with
  | 0, 0 => m.x00 | 0, 1 => m.x01 | 0, 2 => m.x02 | 0, _ => m.x03
  | 1, 0 => m.x10 | 1, 1 => m.x11 | 1, 2 => m.x12 | 1, _ => m.x13
  | 2, 0 => m.x20 | 2, 1 => m.x21 | 2, 2 => m.x22 | 2, _ => m.x23
  | _, 0 => m.x30 | _, 1 => m.x31 | _, 2 => m.x32 | _, _ => m.x33
def M44.ofFn {α : Type} (f : Mat α) : M44 α :=
  ⟨f 0 0, f 0 1, f 0 2, f 0 3, f 1 0, f 1 1, f 1 2, f 1 3, f 2 0, f 2 1, f 2 2, f 2 3, f 3 0, f 3 1, f 3 2, f 3 3⟩
def V3.toFn {α : Type} (v : V3 α) : Nat → α := fun i => match i with | 0 => v.x | 1 => v.y | _ => v.z
def V4.toFn {α : Type} (v : V4 α) : Nat → α := fun i => match i with | 0 => v.x | 1 => v.y | 2 => v.z | _ => v.w
def V3.ofFn {α : Type} (f : Nat → α) : V3 α := ⟨f 0, f 1, f 2⟩
def V4.ofFn {α : Type} (f : Nat → α) : V4 α := ⟨f 0, f 1, f 2, f 3⟩

section svd
variable {α : Type} [Add α] [Sub α] [Mul α] [Div α] [Neg α] [LT α] [LE α] [DecidableLT α] [DecidableLE α]
  [OfNat α 0] [OfNat α 1] [OfNat α 2]

/-- `jacobiRotateRight (A, j, k, c, s)`: `A[i][j] = c*tau1 - s*tau2; A[i][k] = s*tau1 + c*tau2` for every row `i` (= `A * J`) -/
def rotRight (A : Mat α) (j k : Nat) (c s : α) : Mat α := fun i m =>
  if m = j then c * A i j - s * A i k else if m = k then s * A i j + c * A i k else A i m

/-- the rotation parameters computed by `twoSidedJacobiRotation` from the 2×2 block `[[w, x], [y, z]]` -/
structure Angles (α : Type) where
  c : α
  s : α
  c2 : α
  s2 : α
  changed : Bool

/-- lines 353-401 (3×3) = 496-544 (4×4): symmetrise, then diagonalise -/
def svdAngles (tol : α) (sqrt : α → α) (w x y z : α) : Angles α :=
  let mu1 := w + z
  let mu2 := x - y
  -- (c, s, mu_1, mu_2, changed) after the first stage
  let st : α × α × α × α × Bool :=
    if sabs mu2 ≤ tol * sabs mu1 then (1, 0, z - w, x + y, false)
    else
      let rho := mu1 / mu2
      let s0 := 1 / sqrt (1 + rho * rho)
      let s := if rho < 0 then -s0 else s0
      let c := s * rho
      (c, s, s * (x + y) + c * (z - w), 2 * (c * x - s * z), true)
  let c := st.1
  let s := st.2.1
  let m1 := st.2.2.1
  let m2 := st.2.2.2.1
  let ch := st.2.2.2.2
  if sabs m2 ≤ tol * sabs m1 then ⟨c, s, 1, 0, ch⟩
  else
    let rho2 := m1 / m2
    let t0 := 1 / (sabs rho2 + sqrt (1 + rho2 * rho2))
    let t2 := if rho2 < 0 then -t0 else t0
    let c2 := 1 / sqrt (1 + t2 * t2)
    let s2 := c2 * t2
    ⟨c, s, c2, s2, true⟩

/-- state of the SVD iteration -/
structure SVDState (α : Type) where
  A : Mat α
  U : Mat α
  V : Mat α

/-- lines 403-468 / 546-630: apply the rotation given its parameters; returns (`changed`, new state) -/
def svdApply (j k : Nat) (p : Angles α) (st : SVDState α) : Bool × SVDState α :=
  let A := st.A
  let w := A j j
  let x := A j k
  let y := A k j
  let z := A k k
  let c1 := p.c2 * p.c - p.s2 * p.s
  let s1 := p.s2 * p.c + p.c2 * p.s
  if !p.changed then
    (false, ⟨fun i m => if (i = k ∧ m = j) ∨ (i = j ∧ m = k) then 0 else A i m, st.U, st.V⟩)
  else
    let d1 := c1 * (w * p.c2 - x * p.s2) - s1 * (y * p.c2 - z * p.s2)
    let d2 := s1 * (w * p.s2 + x * p.c2) + c1 * (y * p.s2 + z * p.c2)
    let A' : Mat α := fun i m =>
      if i = j then
        (if m = j then d1 else if m = k then 0 else c1 * A j m - s1 * A k m)
      else if i = k then
        (if m = j then 0 else if m = k then d2 else s1 * A j m + c1 * A k m)
      else
        (if m = j then p.c2 * A i j - p.s2 * A i k else if m = k then p.s2 * A i j + p.c2 * A i k else A i m)
    (true, ⟨A', rotRight st.U j k c1 s1, rotRight st.V j k p.c2 p.s2⟩)

/-- `twoSidedJacobiRotation (A, j, k, U, V, tol)` -/
def twoSidedJacobiRotation (tol : α) (sqrt : α → α) (j k : Nat) (st : SVDState α) : Bool × SVDState α :=
  svdApply j k (svdAngles tol sqrt (st.A j j) (st.A j k) (st.A k j) (st.A k k)) st

/-! ## post-passes of `twoSidedJacobiSVD` on `(U, S, V)` -/

structure USV (α : Type) where
  U : Mat α
  S : Nat → α
  V : Mat α

/-- `if (S[i] < 0) { S[i] = -S[i]; for j: U[j][i] = -U[j][i]; }` -/
def signFix (i : Nat) (t : USV α) : USV α :=
  if t.S i < 0 then ⟨fun r c => if c = i then -t.U r c else t.U r c, fun c => if c = i then -t.S c else t.S c, t.V⟩
  else t

/-- swap of singular values `j`, `k` with the corresponding columns of `U` and `V` -/
def swapCols (j k : Nat) (t : USV α) : USV α :=
  let sw (c : Nat) : Nat := if c = j then k else if c = k then j else c
  ⟨fun r c => t.U r (sw c), fun c => t.S (sw c), fun r c => t.V r (sw c)⟩

/-- bubble-sort step of the 3×3 version: `if (S[j] < S[j+1]) swap` -/
def bubble (j : Nat) (t : USV α) : USV α := if t.S j < t.S (j + 1) then swapCols j (j + 1) t else t

/-- the 3×3 post-pass up to sorting (lines 741-770) -/
def post3 (t : USV α) : USV α :=
  bubble 0 (bubble 1 (bubble 0 (signFix 2 (signFix 1 (signFix 0 t)))))

/-- insertion of column `i` (4×4 version, lines 858-884): the `while (abs (S[j]) < abs (sVal))` loop moves
larger-or-equal… smaller entries one slot to the right; written as repeated adjacent swaps from `i` downwards -/
def insertCol : Nat → USV α → USV α
  | 0, t => t
  | i + 1, t => if sabs (t.S i) < sabs (t.S (i + 1)) then insertCol i (swapCols i (i + 1) t) else t

/-- the 4×4 post-pass up to sorting (lines 845-884) -/
def post4 (t : USV α) : USV α :=
  insertCol 3 (insertCol 2 (insertCol 1 (signFix 3 (signFix 2 (signFix 1 (signFix 0 t))))))

/-- `forcePositiveDeterminant`: `if (det U < 0) { U[:, last] = -U[:, last]; S[last] = -S[last]; }`, same for `V` -/
def forcePos (last : Nat) (detU detV : α) (t : USV α) : USV α :=
  let t1 : USV α :=
    if detU < 0 then ⟨fun r c => if c = last then -t.U r c else t.U r c, fun c => if c = last then -t.S c else t.S c, t.V⟩
    else t
  if detV < 0 then ⟨t1.U, fun c => if c = last then -t1.S c else t1.S c, fun r c => if c = last then -t1.V r c else t1.V r c⟩
  else t1

end svd

section eig
variable {α : Type} [Add α] [Sub α] [Mul α] [Div α] [Neg α] [LT α] [LE α] [DecidableLT α] [DecidableLE α]
  [OfNat α 0] [OfNat α 1] [OfNat α 2]

/-- parameters of one rotation of the symmetric eigen solver -/
structure EigAngles (α : Type) where
  t : α
  c : α
  s : α
  tau : α

/-- `none` = the "already small" exit (`abs (mu2) <= tol * abs (mu1)`).  `cs` = the 4×4 spelling `s = c * t`
(the 3×3 body has `s = t * c`). -/
def eigAngles (tol : α) (sqrt : α → α) (cs : Bool) (x y z : α) : Option (EigAngles α) :=
  let mu1 := z - x
  let mu2 := 2 * y
  if sabs mu2 ≤ tol * sabs mu1 then none
  else
    let rho := mu1 / mu2
    let t := (if rho < 0 then -1 else 1) / (sabs rho + sqrt (1 + rho * rho))
    let c := 1 / sqrt (1 + t * t)
    let s := if cs then c * t else t * c
    some ⟨t, c, s, s / (1 + c)⟩

structure EigState (α : Type) where
  A : Mat α
  V : Mat α
  Z : Nat → α

/-- eigen-solver `jacobiRotateRight<j,k> (V, s, tau)`: `V[i][j] -= s*(nu2 + tau*nu1); V[i][k] += s*(nu1 - tau*nu2)` -/
def rotRightTau (A : Mat α) (j k : Nat) (s tau : α) : Mat α := fun i m =>
  if m = j then A i j - s * (A i k + tau * A i j) else if m = k then A i k + s * (A i j - tau * A i k) else A i m

/-- `jacobiRotation<j,k,l…>` given its parameters (only the upper triangle of `A` is read and written;
`n` = dimension, the other indices `l` are all `l < n`, `l ∉ {j,k}`) -/
def eigApply (n j k : Nat) (p : EigAngles α) (st : EigState α) : EigState α :=
  let A := st.A
  let h := p.t * A j k
  -- position of the element coupling `l` with `q` in the upper triangle
  let A' : Mat α := fun i m =>
    if i = j ∧ m = j then A j j - h
    else if i = k ∧ m = k then A k k + h
    else if i = j ∧ m = k then 0
    else if i < n ∧ m < n ∧ i < m then
      -- offd1 couples l with j, offd2 couples l with k
      let nu1 (l : Nat) := if l < j then A l j else A j l
      let nu2 (l : Nat) := if l < k then A l k else A k l
      if i = j ∧ m ≠ k then nu1 m - p.s * (nu2 m + p.tau * nu1 m)          -- A[j][l], l > j
      else if m = j ∧ i ≠ k then nu1 i - p.s * (nu2 i + p.tau * nu1 i)     -- A[l][j], l < j
      else if i = k ∧ m ≠ j then nu2 m + p.s * (nu1 m - p.tau * nu2 m)     -- A[k][l], l > k
      else if m = k ∧ i ≠ j then nu2 i + p.s * (nu1 i - p.tau * nu2 i)     -- A[l][k], l < k
      else A i m
    else A i m
  ⟨A', rotRightTau st.V j k p.s p.tau, fun i => if i = j then st.Z j - h else if i = k then st.Z k + h else st.Z i⟩

/-- `jacobiRotation`: returns (`changed` as the C++ returns it, new state).  The 3×3 body returns `false` on the
early exit, the 4×4 body returns `true` (`ret4`). -/
def jacobiRotation (tol : α) (sqrt : α → α) (n j k : Nat) (st : EigState α) : Bool × EigState α :=
  match eigAngles tol sqrt (n == 4) (st.A j j) (st.A j k) (st.A k k) with
  | none => (n == 4, ⟨fun i m => if i = j ∧ m = k then 0 else st.A i m, st.V, st.Z⟩)
  | some p => (true, eigApply n j k p st)

/-- `maxEigenVector`: `maxIdx = 0; for i in 1..n-1: if (abs (S[i]) > abs (S[maxIdx])) maxIdx = i` -/
def maxIdx (n : Nat) (S : Nat → α) : Nat :=
  (List.range n).foldl (fun best i => if i = 0 then best else if sabs (S best) < sabs (S i) then i else best) 0
/-- `minEigenVector`: `if (abs (S[i]) < abs (S[minIdx])) minIdx = i` -/
def minIdx (n : Nat) (S : Nat → α) : Nat :=
  (List.range n).foldl (fun best i => if i = 0 then best else if sabs (S i) < sabs (S best) then i else best) 0

end eig
/-! ## The solver loops (`twoSidedJacobiSVD` 3×3 698-798 / 4×4 800-913, `jacobiEigenSolver` 1113-1203)

State is kept as functions `Nat → Nat → α`; `matFreeze` / `vecFreeze` re-tabulate a function into an array after every rotation so
that the executable does not re-evaluate a tower of closures (they are the identity: Lemmas/C12Loops.lean `matFreeze_eq`). -/
section loops
variable {α : Type} [Add α] [Sub α] [Mul α] [Div α] [Neg α] [LT α] [LE α] [DecidableLT α] [DecidableLE α] [BEq α]
  [OfNat α 0] [OfNat α 1] [OfNat α 2] [Inhabited α]

@[noinline] def matArr (n : Nat) (f : Mat α) : Array α := (Array.range (n * n)).map fun t => f (t / n) (t % n)
@[noinline] def vecArr (n : Nat) (f : Nat → α) : Array α := (Array.range n).map f
/-- a function whose `n × n` block is read from the table `a` -/
@[noinline] def matOfArr (n : Nat) (f : Mat α) (a : Array α) : Mat α := fun i j => if i < n ∧ j < n then a[n * i + j]! else f i j
@[noinline] def vecOfArr (n : Nat) (f : Nat → α) (a : Array α) : Nat → α := fun i => if i < n then a[i]! else f i
/-- the same function, its `n × n` block tabulated (the table is built when `matFreeze n f` is evaluated, not per access) -/
def matFreeze (n : Nat) (f : Mat α) : Mat α := matOfArr n f (matArr n f)
def vecFreeze (n : Nat) (f : Nat → α) : Nat → α := vecOfArr n f (vecArr n f)

def identM : Mat α := fun i j => if i = j then 1 else 0

/-- the pairs `(j, k)`, `j < k < n`, in the order of the C++ sweeps -/
def pairs (n : Nat) : List (Nat × Nat) :=
  if n == 3 then [(0, 1), (0, 2), (1, 2)] else [(0, 1), (0, 2), (0, 3), (1, 2), (1, 3), (2, 3)]

/-- `maxOffDiag`: `result = std::max (result, std::abs (A[i][j]))` over i ≠ j, row-major -/
def maxOffDiag (n : Nat) (A : Mat α) : α :=
  (List.range n).foldl (fun r i => (List.range n).foldl (fun r j => if i != j then smax r (sabs (A i j)) else r) r) 0
/-- `maxOffDiagSymm`: upper triangle only -/
def maxOffDiagSymm (n : Nat) (A : Mat α) : α :=
  (List.range n).foldl (fun r i => (List.range n).foldl (fun r j => if i < j then smax r (sabs (A i j)) else r) r) 0

def freezeSVD (n : Nat) (st : SVDState α) : SVDState α :=
  let aArr := matArr n st.A
  let a := matOfArr n st.A aArr
  let uArr := matArr n st.U
  let u := matOfArr n st.U uArr
  let vArr := matArr n st.V
  let v := matOfArr n st.V vArr
  ⟨a, u, v⟩

/-- one sweep of `twoSidedJacobiSVD`: every pair once; returns (some rotation changed the matrix, state) -/
def svdSweep (tol : α) (sqrt : α → α) (n : Nat) (st : SVDState α) : Bool × SVDState α :=
  (pairs n).foldl (fun (acc : Bool × SVDState α) jk =>
    let r := twoSidedJacobiRotation tol sqrt jk.1 jk.2 acc.2
    (r.1 || acc.1, freezeSVD n r.2)) (false, st)

/-- `do { ++numIter; sweep; if (!changed) break; } while (maxOffDiag (A) > absTol && numIter < maxIter)`, `maxIter = 20` -/
def svdLoop (tol : α) (sqrt : α → α) (n : Nat) (absTol : α) : Nat → Nat → SVDState α → SVDState α
  | 0, _, st => st
  | fuel + 1, numIter, st =>
    let numIter := numIter + 1
    let r := svdSweep tol sqrt n st
    if !r.1 then r.2
    else if absTol < maxOffDiag n r.2.A && numIter < 20 then svdLoop tol sqrt n absTol fuel numIter r.2 else r.2

/-- the iteration of `twoSidedJacobiSVD` from `U = V = 1` (`if (absTol != 0)` guards the loop) -/
def svdIterate (tol : α) (sqrt : α → α) (n : Nat) (A : Mat α) : SVDState α :=
  let absTol := tol * maxOffDiag n A
  let st0 : SVDState α := freezeSVD n ⟨A, identM, identM⟩
  if absTol != 0 then svdLoop tol sqrt n absTol 21 0 st0 else st0

def freezeUSV (n : Nat) (t : USV α) : USV α :=
  let uArr := matArr n t.U
  let u := matOfArr n t.U uArr
  let sArr := vecArr n t.S
  let s := vecOfArr n t.S sArr
  let vArr := matArr n t.V
  let v := matOfArr n t.V vArr
  ⟨u, s, v⟩

/-- whole `twoSidedJacobiSVD`.  The determinants tested by `forcePositiveDeterminant` are inputs (the harness passes the values
`U.determinant ()`, `V.determinant ()` the real code computes at that point) -/
def svdFull (n : Nat) (force : Bool) (detU detV : α) (tol : α) (sqrt : α → α) (A : Mat α) : USV α :=
  let st := svdIterate tol sqrt n A
  let t : USV α := freezeUSV n ⟨st.U, fun i => st.A i i, st.V⟩
  let t := freezeUSV n (if n == 3 then post3 t else post4 t)
  if force then forcePos (n - 1) detU detV t else t

/-- state of `jacobiEigenSolver` between sweeps: `A` (upper triangle), eigenvalues `S`, eigenvectors `V` -/
structure EigRun (α : Type) where
  A : Mat α
  S : Nat → α
  V : Mat α

def freezeEig (n : Nat) (st : EigState α) : EigState α :=
  let aArr := matArr n st.A
  let a := matOfArr n st.A aArr
  let vArr := matArr n st.V
  let v := matOfArr n st.V vArr
  let zArr := vecArr n st.Z
  let z := vecOfArr n st.Z zArr
  ⟨a, v, z⟩

/-- one sweep of the eigen solver: `Z = 0`, then every pair once -/
def eigSweep (tol : α) (sqrt : α → α) (n : Nat) (A V : Mat α) : Bool × EigState α :=
  (pairs n).foldl (fun (acc : Bool × EigState α) jk =>
    let r := jacobiRotation tol sqrt n jk.1 jk.2 acc.2
    (r.1 || acc.1, freezeEig n r.2)) (false, ⟨A, V, fun _ => 0⟩)

/-- the end-of-sweep update `for i: A[i][i] = S[i] += Z[i]` -/
def eigUpdate (n : Nat) (st : EigRun α) (r : EigState α) : EigRun α :=
  let SpArr := vecArr n (fun i => st.S i + r.Z i)
  let S' := vecOfArr n (fun i => st.S i + r.Z i) SpArr
  let ApArr := matArr n (fun i j => if i = j ∧ i < n then S' i else r.A i j)
  let A' := matOfArr n (fun i j => if i = j ∧ i < n then S' i else r.A i j) ApArr
  ⟨A', S', r.V⟩

def eigLoop (tol : α) (sqrt : α → α) (n : Nat) (absTol : α) : Nat → Nat → EigRun α → EigRun α
  | 0, _, st => st
  | fuel + 1, numIter, st =>
    let numIter := numIter + 1
    let r := eigSweep tol sqrt n st.A st.V
    let st' := eigUpdate n st r.2
    if !r.1 then st'
    else if absTol < maxOffDiagSymm n st'.A && numIter < 20 then eigLoop tol sqrt n absTol fuel numIter st' else st'

/-- whole `jacobiEigenSolver`: `S` starts as the diagonal of `A`, `V = 1` -/
def eigFull (n : Nat) (tol : α) (sqrt : α → α) (A : Mat α) : EigRun α :=
  let a0Arr := matArr n A
  let a0 := matOfArr n A a0Arr
  let s0Arr := vecArr n (fun i => A i i)
  let s0 := vecOfArr n (fun i => A i i) s0Arr
  let v0Arr := matArr n identM
  let v0 := matOfArr n identM v0Arr
  let st0 : EigRun α := ⟨a0, s0, v0⟩
  let absTol := tol * maxOffDiagSymm n A
  if absTol != 0 then eigLoop tol sqrt n absTol 21 0 st0 else st0

end loops

end ImathVerif.Jacobi
