/-
Hand model (H-route) of src/Imath/ImathRoots.h 90-210, statement by statement,
generic over the scalar.  Every solver returns `(count, x)` where `x` lists the
array slots the C++ writes, in order (`x[0]`, `x[1]`, `x[2]`).

`std::sqrt`, `std::copysign (T(1), ·)`, `std::pow`, and the two
`std::complex<T>` library functions the Cardano code calls (`sqrt` of a complex,
`pow (complex, T)`) are fields of `CubicFns`; complex `+ - * /` are the textbook
formulas on pairs (what `std::complex` computes for finite operands).

Core Lean only (no Mathlib): linked into the `drv_fun` driver.
-/
namespace ImathVerif.Roots

section
variable {α : Type} [Add α] [Sub α] [Mul α] [Div α] [Neg α] [LT α] [DecidableLT α] [BEq α]
  [OfNat α 0] [OfNat α 1] [OfNat α 2] [OfNat α 3] [OfNat α 4] [OfNat α 27]

/-- `solveLinear (a, b, x)`: 1 root `-b / a`; 0 if `a = 0 ≠ b`; -1 if both vanish -/
def solveLinear (a b : α) : Int × List α :=
  if a != 0 then (1, [-b / a])
  else if b != 0 then (0, [])
  else (-1, [])

/-- `solveQuadratic (a, b, c, x)` -/
def solveQuadratic (sqrt : α → α) (a b c : α) : Int × List α :=
  if a == 0 then solveLinear b c
  else
    let D := b * b - 4 * a * c
    if D > 0 then
      let s := sqrt D
      let q := -(b + (if b > 0 then 1 else -1) * s) / 2
      (2, [q / a, c / q])
    else if D == 0 then (1, [-b / (2 * a)])
    else (0, [])

/-- library functions used by `solveNormalizedCubic` -/
structure CubicFns (α : Type) where
  /-- `std::sqrt` -/
  sqrt : α → α
  /-- `std::copysign (T (1), a)` -/
  copysign1 : α → α
  /-- `std::pow (x, y)` -/
  pow : α → α → α
  /-- `std::sqrt (std::complex<T>)` -/
  csqrt : α × α → α × α
  /-- `std::pow (std::complex<T>, T)` -/
  cpow : α × α → α → α × α
  /-- the literal `T (1.73205080756887729352744634150587)` -/
  sqrt3 : α

/-! complex arithmetic on pairs `(re, im)` -/
def cadd (u v : α × α) : α × α := (u.1 + v.1, u.2 + v.2)
def csub (u v : α × α) : α × α := (u.1 - v.1, u.2 - v.2)
def cneg (u : α × α) : α × α := (-u.1, -u.2)
def cmul (u v : α × α) : α × α := (u.1 * v.1 - u.2 * v.2, u.1 * v.2 + u.2 * v.1)
/-- `T * complex` (libstdc++: `r = u; r *= k`, i.e. the components are the LEFT factors) -/
def smul (k : α) (u : α × α) : α × α := (u.1 * k, u.2 * k)
/-- `complex / T` -/
def cdivs (u : α × α) (k : α) : α × α := (u.1 / k, u.2 / k)
/-- `T + complex` (libstdc++: `r = u; r += k`) -/
def sadd (k : α) (u : α × α) : α × α := (u.1 + k, u.2)
/-- `T / complex` = `complex (k, 0) / u` -/
def sdivc (k : α) (u : α × α) : α × α :=
  let n := u.1 * u.1 + u.2 * u.2
  ((k * u.1 + 0 * u.2) / n, (0 * u.1 - k * u.2) / n)

/-- the lambda `real_root (a, x)` with `x = 3`: `sign * pow (sign * a, T (1) / x)` -/
def realRoot (F : CubicFns α) (a : α) (x : α) : α :=
  let sign := F.copysign1 a
  sign * F.pow (sign * a) (1 / x)

/-- the quantities every branch of `solveNormalizedCubic` starts from -/
def cubicP (r s : α) : α := (3 * s - r * r) / 3
def cubicQ (r s t : α) : α := 2 * r * r * r / 27 - r * s / 3 + t
def cubicD (r s t : α) : α :=
  let p3 := cubicP r s / 3
  let q2 := cubicQ r s t / 2
  p3 * p3 * p3 + q2 * q2

/-- `solveNormalizedCubic (r, s, t, x)`: x³ + r x² + s x + t = 0 (Cardano) -/
def solveNormalizedCubic (F : CubicFns α) (r s t : α) : Int × List α :=
  let p := (3 * s - r * r) / 3
  let q := 2 * r * r * r / 27 - r * s / 3 + t
  let p3 := p / 3
  let q2 := q / 2
  let D := p3 * p3 * p3 + q2 * q2
  if D == 0 && p3 == 0 then (1, [-r / 3, -r / 3, -r / 3])
  else if D > 0 then
    let u := realRoot F (if q > 0 then -q / 2 - F.sqrt D else -q / 2 + F.sqrt D) 3
    let v := -p / (3 * u)
    (1, [u + v - r / 3])
  else
    let u := F.cpow (sadd (-q / 2) (F.csqrt (D, 0))) (1 / 3)
    let v := sdivc (-p) (smul 3 u)
    let y0 := cadd u v
    let y1 := cadd (cdivs (cneg (cadd u v)) 2) (cmul (cdivs (csub u v) 2) (0, F.sqrt3))
    let y2 := csub (cdivs (cneg (cadd u v)) 2) (cmul (cdivs (csub u v) 2) (0, F.sqrt3))
    if D == 0 then (2, [y0.1 - r / 3, y1.1 - r / 3])
    else (3, [y0.1 - r / 3, y1.1 - r / 3, y2.1 - r / 3])


/-! The branch bodies of `solveNormalizedCubic`, named (the lemma
`solveNormalizedCubic_cases : solveNormalizedCubic = if … then … else if … then
cubicReal … else cubicComplex …` holds by `rfl`, so these are the same text). -/

/-- the argument of the real cube root in the D > 0 branch (as repaired in /repo commit 7563d4d):
`(q > 0) ? -q / 2 - std::sqrt (D) : -q / 2 + std::sqrt (D)` — the larger-magnitude value of
-q/2 ± sqrt (D), never 0 for D > 0 -/
def cardanoA (F : CubicFns α) (r s t : α) : α :=
  if cubicQ r s t > 0 then -(cubicQ r s t) / 2 - F.sqrt (cubicD r s t)
  else -(cubicQ r s t) / 2 + F.sqrt (cubicD r s t)

/-- the D > 0 branch -/
def cubicReal (F : CubicFns α) (r s t : α) : Int × List α :=
  let u := realRoot F (cardanoA F r s t) 3
  let v := -(cubicP r s) / (3 * u)
  (1, [u + v - r / 3])

/-- the complex `u` of the last branch -/
def cubicU (F : CubicFns α) (r s t : α) : α × α :=
  F.cpow (sadd (-(cubicQ r s t) / 2) (F.csqrt (cubicD r s t, 0))) (1 / 3)

/-- the D ≤ 0 branch (complex intermediates) -/
def cubicComplex (F : CubicFns α) (r s t : α) : Int × List α :=
  let u := cubicU F r s t
  let v := sdivc (-(cubicP r s)) (smul 3 u)
  let y0 := cadd u v
  let y1 := cadd (cdivs (cneg (cadd u v)) 2) (cmul (cdivs (csub u v) 2) (0, F.sqrt3))
  let y2 := csub (cdivs (cneg (cadd u v)) 2) (cmul (cdivs (csub u v) 2) (0, F.sqrt3))
  if cubicD r s t == 0 then (2, [y0.1 - r / 3, y1.1 - r / 3])
  else (3, [y0.1 - r / 3, y1.1 - r / 3, y2.1 - r / 3])

/-- `solveCubic (a, b, c, d, x)` -/
def solveCubic (F : CubicFns α) (a b c d : α) : Int × List α :=
  if a == 0 then solveQuadratic F.sqrt b c d
  else solveNormalizedCubic F (b / a) (c / a) (d / a)


/-- which branch `solveNormalizedCubic` takes (for hit counts): 0 triple root,
1 real (D > 0), 2 complex with D = 0, 3 complex with D < 0 -/
def cubicBranch (r s t : α) : Nat :=
  let p3 := cubicP r s / 3
  let D := cubicD r s t
  if D == 0 && p3 == 0 then 0 else if D > 0 then 1 else if D == 0 then 2 else 3

end
end ImathVerif.Roots
