/-!
# C16 hand model (H-route): the machine-integer parts of `Frustum::ZToDepth` / `Frustum::DepthToZ`

CORE LEAN ONLY (evaluated with `#eval` by the check: tools/props/c16.py, obligation `H:zmodel`).

ImathFrustum.h (LP64: `long` = 64 bits, `int` = 32 bits, two's complement, conversions `long → int` modular):

```
T Frustum<T>::ZToDepth (long zval, long zmin, long zmax) const
{
    long zdiff = zmax - zmin;                        -- (1) (`int zdiff` before /repo 6489c36: defect found by this check, fixed)
    if (zval > zmax + 1) zval -= zdiff;              -- (2) z-buffer wrap
    T fzval = (T (zval) - T (zmin)) / T (zdiff);     -- (3) floating point from here on
    return normalizedZToDepth (fzval);
}
long Frustum<T>::DepthToZ (T depth, long zmin, long zmax) const
{
    long zdiff = zmax - zmin;                        -- (4)
    …  Zp  …
    return long (0.5 * (Zp + 1) * zdiff) + zmin;     -- (5) truncation toward zero, then + zmin
}
```
The model below is (1), (2), (4) and the integer tail of (5); the floating-point parts are the generated
`Gen.Frustum.normalizedZToDepth_*` and `Gen.Frustum.depthToZp_*` (Props/C16Z.lean puts them together).
Signed `long` arithmetic is modelled as wrapping (what the compiled code does; the C++ standard leaves overflow undefined).
-/
namespace ImathVerif.FrustumZ

/-- two's complement reduction to 64 bits (`long`) -/
def wrap64 (x : Int) : Int := (x + 9223372036854775808) % 18446744073709551616 - 9223372036854775808
/-- two's complement reduction to 32 bits (`int`) -/
def wrap32 (x : Int) : Int := (x + 2147483648) % 4294967296 - 2147483648

/-- `long zdiff = zmax - zmin;` (ZToDepth since /repo 6489c36, DepthToZ always) -/
def zdiffLong (zmin zmax : Int) : Int := wrap64 (zmax - zmin)
/-- the FORMER `int zdiff = zmax - zmin;` of ZToDepth (before /repo 6489c36), kept for the record of the defect -/
def zdiffIntOld (zmin zmax : Int) : Int := wrap32 (wrap64 (zmax - zmin))

/-- the value of `zval` after `if (zval > zmax + 1) zval -= zdiff;` -/
def zvalWrapped (zval zmin zmax : Int) : Int :=
  if zval > wrap64 (zmax + 1) then wrap64 (zval - zdiffLong zmin zmax) else zval

/-- `long (v) + zmin` given the truncated value of `v` -/
def depthToZTail (truncv zmin : Int) : Int := wrap64 (truncv + zmin)

/-- truncation toward zero of the rational `num / den` (`den > 0`): the value of `long (v)` for a finite double `v = num / den`
inside the range of `long` -/
def truncRat (num : Int) (den : Nat) : Int := Int.tdiv num den

/-- one line of the correspondence protocol: `zval zmin zmax ↦ zval' zdiff(ZToDepth) zdiff(DepthToZ)` -/
def protoArgs (zval zmin zmax : Int) : String :=
  s!"{zval} {zmin} {zmax} {zvalWrapped zval zmin zmax} {zdiffLong zmin zmax} {zdiffLong zmin zmax}"
/-- one line of the correspondence protocol: `num den zmin ↦ long (num/den) + zmin` -/
def protoTail (num : Int) (den : Nat) (zmin : Int) : String := s!"{depthToZTail (truncRat num den) zmin}"

end ImathVerif.FrustumZ
