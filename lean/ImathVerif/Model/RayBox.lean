/-!
# Hand model of `findEntryAndExitPoints` and `intersects(box, ray[, ip])`
(`/repo/src/Imath/ImathBoxAlgo.h` lines 369-897), CORE LEAN ONLY.

The model is generic in the scalar type `α`: only the core operator classes are
required, so that it is *executed* at core `Rat` by `Driver/RayBox.lean` and
*reasoned about* over an ordered field in `Props/C14.lean` (Mathlib's
`Field`/`LinearOrder` instances provide every class argument).

`TMAX` (`std::numeric_limits<T>::max()`) is a parameter.

The C++ text is mirrored statement by statement.  The three axis sections of each
function are written out separately (`feX`, `feY`, `feZ`, `isX`, `isY`, `isZ`),
each with both of its sign blocks spelled out, exactly like the source: six
per-face blocks per function.  A block returns `none` where the C++ executes
`return false`; in the source every such `return` precedes all assignments of
its block, so the out-parameters then hold the state *before* the block.

Out-parameters (`entry`, `exit`, `ip`) are uninitialised in C++; the model takes
their initial values as arguments and returns the final values, also when the
result is `false`.  The correspondence (tools/props/c14.py) compares them whenever
the result is `true` — including the case where they were never assigned and still
hold the initial values; what they hold after a `false` result is unspecified by
the property and only counted as an observation.
-/
namespace ImathVerif.RayBox

structure V3 (α : Type) where
  x : α
  y : α
  z : α
deriving Repr, BEq, DecidableEq

/-- `Line3<T>`: public members `pos`, `dir` (not necessarily normalised). -/
structure Line3 (α : Type) where
  pos : V3 α
  dir : V3 α

/-- `Box<Vec3<T>>`: public members `min`, `max`. -/
structure Box3 (α : Type) where
  min : V3 α
  max : V3 α

section
variable {α : Type} [Add α] [Sub α] [Mul α] [Div α] [Neg α] [LT α] [LE α]
  [DecidableLT α] [DecidableLE α] [OfNat α 0] [OfNat α 1]

/-- `Imath::abs` (ImathFun.h): `(a > T(0)) ? a : -a`. -/
@[inline] def iabs (a : α) : α := if a > 0 then a else -a

/-- `Imath::clamp` (ImathFun.h): `(a < l) ? l : ((a > h) ? h : a)`. -/
@[inline] def clamp (a l h : α) : α := if a < l then l else (if a > h then h else a)

/-- `Box<Vec3<T>>::isEmpty`: `max.x < min.x || max.y < min.y || max.z < min.z`. -/
def Box3.isEmpty (b : Box3 α) : Bool :=
  decide (b.max.x < b.min.x) || decide (b.max.y < b.min.y) || decide (b.max.z < b.min.z)

/-- `Box<Vec3<T>>::intersects(point)`. -/
def Box3.containsPt (b : Box3 α) (p : V3 α) : Bool :=
  decide (p.x >= b.min.x) && decide (p.x <= b.max.x) &&
  decide (p.y >= b.min.y) && decide (p.y <= b.max.y) &&
  decide (p.z >= b.min.z) && decide (p.z <= b.max.z)

/-! ## findEntryAndExitPoints -/

/-- Local state of `findEntryAndExitPoints`. -/
structure FEState (α : Type) where
  tFrontMax : α
  tBackMin : α
  entry : V3 α
  exit : V3 α

/-- "Minimum and maximum X sides." (lines 411-478) -/
def feX (TMAX : α) (r : Line3 α) (b : Box3 α) (s : FEState α) : Option (FEState α) :=
  if r.dir.x >= 0 then
    let d1 := b.max.x - r.pos.x
    let d2 := b.min.x - r.pos.x
    if r.dir.x > 1 ∨ (iabs d1 < TMAX * r.dir.x ∧ iabs d2 < TMAX * r.dir.x) then
      let t1 := d1 / r.dir.x
      let t2 := d2 / r.dir.x
      let s1 : FEState α :=
        if s.tBackMin > t1 then
          { s with
            tBackMin := t1
            exit := ⟨b.max.x,
                     clamp (r.pos.y + t1 * r.dir.y) b.min.y b.max.y,
                     clamp (r.pos.z + t1 * r.dir.z) b.min.z b.max.z⟩ }
        else s
      let s2 : FEState α :=
        if s1.tFrontMax < t2 then
          { s1 with
            tFrontMax := t2
            entry := ⟨b.min.x,
                      clamp (r.pos.y + t2 * r.dir.y) b.min.y b.max.y,
                      clamp (r.pos.z + t2 * r.dir.z) b.min.z b.max.z⟩ }
        else s1
      some s2
    else if r.pos.x < b.min.x ∨ r.pos.x > b.max.x then
      none
    else some s
  else -- r.dir.x < 0
    let d1 := b.min.x - r.pos.x
    let d2 := b.max.x - r.pos.x
    if r.dir.x < -1 ∨ (iabs d1 < -TMAX * r.dir.x ∧ iabs d2 < -TMAX * r.dir.x) then
      let t1 := d1 / r.dir.x
      let t2 := d2 / r.dir.x
      let s1 : FEState α :=
        if s.tBackMin > t1 then
          { s with
            tBackMin := t1
            exit := ⟨b.min.x,
                     clamp (r.pos.y + t1 * r.dir.y) b.min.y b.max.y,
                     clamp (r.pos.z + t1 * r.dir.z) b.min.z b.max.z⟩ }
        else s
      let s2 : FEState α :=
        if s1.tFrontMax < t2 then
          { s1 with
            tFrontMax := t2
            entry := ⟨b.max.x,
                      clamp (r.pos.y + t2 * r.dir.y) b.min.y b.max.y,
                      clamp (r.pos.z + t2 * r.dir.z) b.min.z b.max.z⟩ }
        else s1
      some s2
    else if r.pos.x < b.min.x ∨ r.pos.x > b.max.x then
      none
    else some s

/-- "Minimum and maximum Y sides." (lines 484-551) -/
def feY (TMAX : α) (r : Line3 α) (b : Box3 α) (s : FEState α) : Option (FEState α) :=
  if r.dir.y >= 0 then
    let d1 := b.max.y - r.pos.y
    let d2 := b.min.y - r.pos.y
    if r.dir.y > 1 ∨ (iabs d1 < TMAX * r.dir.y ∧ iabs d2 < TMAX * r.dir.y) then
      let t1 := d1 / r.dir.y
      let t2 := d2 / r.dir.y
      let s1 : FEState α :=
        if s.tBackMin > t1 then
          { s with
            tBackMin := t1
            exit := ⟨clamp (r.pos.x + t1 * r.dir.x) b.min.x b.max.x,
                     b.max.y,
                     clamp (r.pos.z + t1 * r.dir.z) b.min.z b.max.z⟩ }
        else s
      let s2 : FEState α :=
        if s1.tFrontMax < t2 then
          { s1 with
            tFrontMax := t2
            entry := ⟨clamp (r.pos.x + t2 * r.dir.x) b.min.x b.max.x,
                      b.min.y,
                      clamp (r.pos.z + t2 * r.dir.z) b.min.z b.max.z⟩ }
        else s1
      some s2
    else if r.pos.y < b.min.y ∨ r.pos.y > b.max.y then
      none
    else some s
  else -- r.dir.y < 0
    let d1 := b.min.y - r.pos.y
    let d2 := b.max.y - r.pos.y
    if r.dir.y < -1 ∨ (iabs d1 < -TMAX * r.dir.y ∧ iabs d2 < -TMAX * r.dir.y) then
      let t1 := d1 / r.dir.y
      let t2 := d2 / r.dir.y
      let s1 : FEState α :=
        if s.tBackMin > t1 then
          { s with
            tBackMin := t1
            exit := ⟨clamp (r.pos.x + t1 * r.dir.x) b.min.x b.max.x,
                     b.min.y,
                     clamp (r.pos.z + t1 * r.dir.z) b.min.z b.max.z⟩ }
        else s
      let s2 : FEState α :=
        if s1.tFrontMax < t2 then
          { s1 with
            tFrontMax := t2
            entry := ⟨clamp (r.pos.x + t2 * r.dir.x) b.min.x b.max.x,
                      b.max.y,
                      clamp (r.pos.z + t2 * r.dir.z) b.min.z b.max.z⟩ }
        else s1
      some s2
    else if r.pos.y < b.min.y ∨ r.pos.y > b.max.y then
      none
    else some s

/-- "Minimum and maximum Z sides." (lines 557-624) -/
def feZ (TMAX : α) (r : Line3 α) (b : Box3 α) (s : FEState α) : Option (FEState α) :=
  if r.dir.z >= 0 then
    let d1 := b.max.z - r.pos.z
    let d2 := b.min.z - r.pos.z
    if r.dir.z > 1 ∨ (iabs d1 < TMAX * r.dir.z ∧ iabs d2 < TMAX * r.dir.z) then
      let t1 := d1 / r.dir.z
      let t2 := d2 / r.dir.z
      let s1 : FEState α :=
        if s.tBackMin > t1 then
          { s with
            tBackMin := t1
            exit := ⟨clamp (r.pos.x + t1 * r.dir.x) b.min.x b.max.x,
                     clamp (r.pos.y + t1 * r.dir.y) b.min.y b.max.y,
                     b.max.z⟩ }
        else s
      let s2 : FEState α :=
        if s1.tFrontMax < t2 then
          { s1 with
            tFrontMax := t2
            entry := ⟨clamp (r.pos.x + t2 * r.dir.x) b.min.x b.max.x,
                      clamp (r.pos.y + t2 * r.dir.y) b.min.y b.max.y,
                      b.min.z⟩ }
        else s1
      some s2
    else if r.pos.z < b.min.z ∨ r.pos.z > b.max.z then
      none
    else some s
  else -- r.dir.z < 0
    let d1 := b.min.z - r.pos.z
    let d2 := b.max.z - r.pos.z
    if r.dir.z < -1 ∨ (iabs d1 < -TMAX * r.dir.z ∧ iabs d2 < -TMAX * r.dir.z) then
      let t1 := d1 / r.dir.z
      let t2 := d2 / r.dir.z
      let s1 : FEState α :=
        if s.tBackMin > t1 then
          { s with
            tBackMin := t1
            exit := ⟨clamp (r.pos.x + t1 * r.dir.x) b.min.x b.max.x,
                     clamp (r.pos.y + t1 * r.dir.y) b.min.y b.max.y,
                     b.min.z⟩ }
        else s
      let s2 : FEState α :=
        if s1.tFrontMax < t2 then
          { s1 with
            tFrontMax := t2
            entry := ⟨clamp (r.pos.x + t2 * r.dir.x) b.min.x b.max.x,
                      clamp (r.pos.y + t2 * r.dir.y) b.min.y b.max.y,
                      b.max.z⟩ }
        else s1
      some s2
    else if r.pos.z < b.min.z ∨ r.pos.z > b.max.z then
      none
    else some s

/-- `findEntryAndExitPoints (r, b, entry, exit)`; returns `(result, entry, exit)`. -/
def findEntryAndExitPoints (TMAX : α) (r : Line3 α) (b : Box3 α) (entry exit : V3 α) :
    Bool × V3 α × V3 α :=
  if b.isEmpty then (false, entry, exit)
  else
    let s0 : FEState α := { tFrontMax := -TMAX, tBackMin := TMAX, entry := entry, exit := exit }
    match feX TMAX r b s0 with
    | none => (false, s0.entry, s0.exit)
    | some s1 =>
      match feY TMAX r b s1 with
      | none => (false, s1.entry, s1.exit)
      | some s2 =>
        match feZ TMAX r b s2 with
        | none => (false, s2.entry, s2.exit)
        | some s3 => (decide (s3.tFrontMax <= s3.tBackMin), s3.entry, s3.exit)

/-! ## intersects (box, ray, ip) -/

/-- Local state of `intersects`. -/
structure ISState (α : Type) where
  tFrontMax : α
  tBackMin : α
  ip : V3 α

/-- "Minimum and maximum X sides." (lines 693-752) -/
def isX (TMAX : α) (r : Line3 α) (b : Box3 α) (s : ISState α) : Option (ISState α) :=
  if r.dir.x > 0 then
    if r.pos.x > b.max.x then none
    else
      let d := b.max.x - r.pos.x
      let s1 : ISState α :=
        if r.dir.x > 1 ∨ d < TMAX * r.dir.x then
          let t := d / r.dir.x
          if s.tBackMin > t then { s with tBackMin := t } else s
        else s
      if r.pos.x <= b.min.x then
        let d := b.min.x - r.pos.x
        let t := if r.dir.x > 1 ∨ d < TMAX * r.dir.x then d / r.dir.x else TMAX
        if s1.tFrontMax < t then
          some { s1 with
                 tFrontMax := t
                 ip := ⟨b.min.x,
                        clamp (r.pos.y + t * r.dir.y) b.min.y b.max.y,
                        clamp (r.pos.z + t * r.dir.z) b.min.z b.max.z⟩ }
        else some s1
      else some s1
  else if r.dir.x < 0 then
    if r.pos.x < b.min.x then none
    else
      let d := b.min.x - r.pos.x
      let s1 : ISState α :=
        if r.dir.x < -1 ∨ d > TMAX * r.dir.x then
          let t := d / r.dir.x
          if s.tBackMin > t then { s with tBackMin := t } else s
        else s
      if r.pos.x >= b.max.x then
        let d := b.max.x - r.pos.x
        let t := if r.dir.x < -1 ∨ d > TMAX * r.dir.x then d / r.dir.x else TMAX
        if s1.tFrontMax < t then
          some { s1 with
                 tFrontMax := t
                 ip := ⟨b.max.x,
                        clamp (r.pos.y + t * r.dir.y) b.min.y b.max.y,
                        clamp (r.pos.z + t * r.dir.z) b.min.z b.max.z⟩ }
        else some s1
      else some s1
  else -- r.dir.x == 0
    if r.pos.x < b.min.x ∨ r.pos.x > b.max.x then none else some s

/-- "Minimum and maximum Y sides." (lines 758-817) -/
def isY (TMAX : α) (r : Line3 α) (b : Box3 α) (s : ISState α) : Option (ISState α) :=
  if r.dir.y > 0 then
    if r.pos.y > b.max.y then none
    else
      let d := b.max.y - r.pos.y
      let s1 : ISState α :=
        if r.dir.y > 1 ∨ d < TMAX * r.dir.y then
          let t := d / r.dir.y
          if s.tBackMin > t then { s with tBackMin := t } else s
        else s
      if r.pos.y <= b.min.y then
        let d := b.min.y - r.pos.y
        let t := if r.dir.y > 1 ∨ d < TMAX * r.dir.y then d / r.dir.y else TMAX
        if s1.tFrontMax < t then
          some { s1 with
                 tFrontMax := t
                 ip := ⟨clamp (r.pos.x + t * r.dir.x) b.min.x b.max.x,
                        b.min.y,
                        clamp (r.pos.z + t * r.dir.z) b.min.z b.max.z⟩ }
        else some s1
      else some s1
  else if r.dir.y < 0 then
    if r.pos.y < b.min.y then none
    else
      let d := b.min.y - r.pos.y
      let s1 : ISState α :=
        if r.dir.y < -1 ∨ d > TMAX * r.dir.y then
          let t := d / r.dir.y
          if s.tBackMin > t then { s with tBackMin := t } else s
        else s
      if r.pos.y >= b.max.y then
        let d := b.max.y - r.pos.y
        let t := if r.dir.y < -1 ∨ d > TMAX * r.dir.y then d / r.dir.y else TMAX
        if s1.tFrontMax < t then
          some { s1 with
                 tFrontMax := t
                 ip := ⟨clamp (r.pos.x + t * r.dir.x) b.min.x b.max.x,
                        b.max.y,
                        clamp (r.pos.z + t * r.dir.z) b.min.z b.max.z⟩ }
        else some s1
      else some s1
  else -- r.dir.y == 0
    if r.pos.y < b.min.y ∨ r.pos.y > b.max.y then none else some s

/-- "Minimum and maximum Z sides." (lines 823-882) -/
def isZ (TMAX : α) (r : Line3 α) (b : Box3 α) (s : ISState α) : Option (ISState α) :=
  if r.dir.z > 0 then
    if r.pos.z > b.max.z then none
    else
      let d := b.max.z - r.pos.z
      let s1 : ISState α :=
        if r.dir.z > 1 ∨ d < TMAX * r.dir.z then
          let t := d / r.dir.z
          if s.tBackMin > t then { s with tBackMin := t } else s
        else s
      if r.pos.z <= b.min.z then
        let d := b.min.z - r.pos.z
        let t := if r.dir.z > 1 ∨ d < TMAX * r.dir.z then d / r.dir.z else TMAX
        if s1.tFrontMax < t then
          some { s1 with
                 tFrontMax := t
                 ip := ⟨clamp (r.pos.x + t * r.dir.x) b.min.x b.max.x,
                        clamp (r.pos.y + t * r.dir.y) b.min.y b.max.y,
                        b.min.z⟩ }
        else some s1
      else some s1
  else if r.dir.z < 0 then
    if r.pos.z < b.min.z then none
    else
      let d := b.min.z - r.pos.z
      let s1 : ISState α :=
        if r.dir.z < -1 ∨ d > TMAX * r.dir.z then
          let t := d / r.dir.z
          if s.tBackMin > t then { s with tBackMin := t } else s
        else s
      if r.pos.z >= b.max.z then
        let d := b.max.z - r.pos.z
        let t := if r.dir.z < -1 ∨ d > TMAX * r.dir.z then d / r.dir.z else TMAX
        if s1.tFrontMax < t then
          some { s1 with
                 tFrontMax := t
                 ip := ⟨clamp (r.pos.x + t * r.dir.x) b.min.x b.max.x,
                        clamp (r.pos.y + t * r.dir.y) b.min.y b.max.y,
                        b.max.z⟩ }
        else some s1
      else some s1
  else -- r.dir.z == 0
    if r.pos.z < b.min.z ∨ r.pos.z > b.max.z then none else some s

/-- `intersects (b, r, ip)`; returns `(result, ip)`. -/
def intersects (TMAX : α) (b : Box3 α) (r : Line3 α) (ip : V3 α) : Bool × V3 α :=
  if b.isEmpty then (false, ip)
  else if b.containsPt r.pos then (true, r.pos)
  else
    let s0 : ISState α := { tFrontMax := -1, tBackMin := TMAX, ip := ip }
    match isX TMAX r b s0 with
    | none => (false, s0.ip)
    | some s1 =>
      match isY TMAX r b s1 with
      | none => (false, s1.ip)
      | some s2 =>
        match isZ TMAX r b s2 with
        | none => (false, s2.ip)
        | some s3 => (decide (s3.tFrontMax <= s3.tBackMin), s3.ip)

/-- `intersects (box, ray)`: the wrapper discarding `ip` (lines 891-897).  The
ignored local is uninitialised in C++; its value cannot influence the result
(`intersects` never reads `ip`), so any initial value may be supplied. -/
def intersectsBool (TMAX : α) (b : Box3 α) (r : Line3 α) (ignored : V3 α) : Bool :=
  (intersects TMAX b r ignored).1

end
end ImathVerif.RayBox
