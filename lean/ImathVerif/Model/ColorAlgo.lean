/-
Hand model (H-route) of src/Imath/ImathColorAlgo.cpp 14-196 and
ImathColorAlgo.h 35-262, statement by statement, generic over the scalar.

* `hsv2rgb_d` / `rgb2hsv_d`: the Vec3 and the Color4 bodies are two separate
  textual copies in the .cpp; BOTH are modelled (`…V3`, `…C4`).
  `int (std::floor (hue))` is the parameter `floorInt : α → Int`.
* the templated wrappers for integer element types: the element is mapped into
  [0,1] by `scaleIn` (`x / double (max)` in both the Vec3 and the Color4 copies since /repo
  commit 9e7d4a2; before it the Color4 copies divided by `float (max)`) and back by `scaleOut`
  (`(T) (c * max)`).
  Both are parameters so that the driver can execute the real float/double
  arithmetic and the theorems can state the exact-arithmetic meaning.
* `rgb2packed` / `packed2rgb` for floating and for integer element types.

Core Lean only (no Mathlib): linked into the `drv_fun` driver.
-/
namespace ImathVerif.ColorAlgo

structure V3 (α : Type) where
  x : α
  y : α
  z : α
deriving Repr, DecidableEq

structure C4 (α : Type) where
  r : α
  g : α
  b : α
  a : α
deriving Repr, DecidableEq

section
variable {α : Type} [Add α] [Sub α] [Mul α] [Div α] [Neg α] [LT α] [DecidableLT α] [BEq α]
  [OfNat α 0] [OfNat α 1] [OfNat α 2] [OfNat α 4] [OfNat α 6] [IntCast α]

/-- `Vec3<double> hsv2rgb_d (const Vec3<double>& hsv)` (ColorAlgo.cpp 16-70) -/
def hsv2rgbV3 (floorInt : α → Int) (hsv : V3 α) : V3 α :=
  let hue := hsv.x
  let sat := hsv.y
  let val := hsv.z
  let hue := if hue == 1 then 0 else hue * 6
  let i := floorInt hue
  let f := hue - ((i : Int) : α)
  let p := val * (1 - sat)
  let q := val * (1 - (sat * f))
  let t := val * (1 - (sat * (1 - f)))
  match i with
  | 0 => ⟨val, t, p⟩
  | 1 => ⟨q, val, p⟩
  | 2 => ⟨p, val, t⟩
  | 3 => ⟨p, q, val⟩
  | 4 => ⟨t, p, val⟩
  | 5 => ⟨val, p, q⟩
  | _ => ⟨0, 0, 0⟩

/-- `Color4<double> hsv2rgb_d (const Color4<double>& hsv)` (ColorAlgo.cpp 72-126) -/
def hsv2rgbC4 (floorInt : α → Int) (hsv : C4 α) : C4 α :=
  let hue := hsv.r
  let sat := hsv.g
  let val := hsv.b
  let hue := if hue == 1 then 0 else hue * 6
  let i := floorInt hue
  let f := hue - ((i : Int) : α)
  let p := val * (1 - sat)
  let q := val * (1 - (sat * f))
  let t := val * (1 - (sat * (1 - f)))
  match i with
  | 0 => ⟨val, t, p, hsv.a⟩
  | 1 => ⟨q, val, p, hsv.a⟩
  | 2 => ⟨p, val, t, hsv.a⟩
  | 3 => ⟨p, q, val, hsv.a⟩
  | 4 => ⟨t, p, val, hsv.a⟩
  | 5 => ⟨val, p, q, hsv.a⟩
  | _ => ⟨0, 0, 0, hsv.a⟩

/-- `Vec3<double> rgb2hsv_d (const Vec3<double>& c)` (ColorAlgo.cpp 128-161) -/
def rgb2hsvV3 (c : V3 α) : V3 α :=
  let x := c.x
  let y := c.y
  let z := c.z
  let max := if x > y then (if x > z then x else z) else (if y > z then y else z)
  let min := if x < y then (if x < z then x else z) else (if y < z then y else z)
  let range := max - min
  let val := max
  let sat := if max != 0 then range / max else 0
  if sat != 0 then
    let h := if x == max then (y - z) / range
             else if y == max then 2 + (z - x) / range
             else 4 + (x - y) / range
    let hue := h / 6
    let hue := if hue < 0 then hue + 1 else hue
    ⟨hue, sat, val⟩
  else ⟨0, sat, val⟩

/-- `Color4<double> rgb2hsv_d (const Color4<double>& c)` (ColorAlgo.cpp 163-196) -/
def rgb2hsvC4 (c : C4 α) : C4 α :=
  let r := c.r
  let g := c.g
  let b := c.b
  let max := if r > g then (if r > b then r else b) else (if g > b then g else b)
  let min := if r < g then (if r < b then r else b) else (if g < b then g else b)
  let range := max - min
  let val := max
  let sat := if max != 0 then range / max else 0
  if sat != 0 then
    let h := if r == max then (g - b) / range
             else if g == max then 2 + (b - r) / range
             else 4 + (r - g) / range
    let hue := h / 6
    let hue := if hue < 0 then hue + 1 else hue
    ⟨hue, sat, val, c.a⟩
  else ⟨0, sat, val, c.a⟩

/-! ### templated wrappers, integer element types (ColorAlgo.h 48-161)

`scaleIn n` is `n / double (max)` (all four wrappers); `scaleOut c` is `(T) (c * max)`. -/

def hsv2rgbV3I (floorInt : α → Int) (scaleIn : Int → α) (scaleOut : α → Int) (hsv : V3 Int) : V3 Int :=
  let v : V3 α := ⟨scaleIn hsv.x, scaleIn hsv.y, scaleIn hsv.z⟩
  let c := hsv2rgbV3 floorInt v
  ⟨scaleOut c.x, scaleOut c.y, scaleOut c.z⟩

def hsv2rgbC4I (floorInt : α → Int) (scaleIn : Int → α) (scaleOut : α → Int) (hsv : C4 Int) : C4 Int :=
  let v : C4 α := ⟨scaleIn hsv.r, scaleIn hsv.g, scaleIn hsv.b, scaleIn hsv.a⟩
  let c := hsv2rgbC4 floorInt v
  ⟨scaleOut c.r, scaleOut c.g, scaleOut c.b, scaleOut c.a⟩

def rgb2hsvV3I (scaleIn : Int → α) (scaleOut : α → Int) (rgb : V3 Int) : V3 Int :=
  let v : V3 α := ⟨scaleIn rgb.x, scaleIn rgb.y, scaleIn rgb.z⟩
  let c := rgb2hsvV3 v
  ⟨scaleOut c.x, scaleOut c.y, scaleOut c.z⟩

def rgb2hsvC4I (scaleIn : Int → α) (scaleOut : α → Int) (rgb : C4 Int) : C4 Int :=
  let v : C4 α := ⟨scaleIn rgb.r, scaleIn rgb.g, scaleIn rgb.b, scaleIn rgb.a⟩
  let c := rgb2hsvC4 v
  ⟨scaleOut c.r, scaleOut c.g, scaleOut c.b, scaleOut c.a⟩

/-- floating element types: `(T) c.x` of the double result (`narrow` = identity for double) -/
def hsv2rgbV3F (floorInt : α → Int) (hsv : V3 α) : V3 α := hsv2rgbV3 floorInt hsv
def hsv2rgbC4F (floorInt : α → Int) (hsv : C4 α) : C4 α := hsv2rgbC4 floorInt hsv
def rgb2hsvV3F (rgb : V3 α) : V3 α := rgb2hsvV3 rgb
def rgb2hsvC4F (rgb : C4 α) : C4 α := rgb2hsvC4 rgb

end

/-! ### rgb2packed / packed2rgb (ColorAlgo.h 163-262) -/
section Packed
variable {α : Type} [Mul α] [Div α] [OfNat α 1] [OfNat α 255] [NatCast α]

def u32 (n : Nat) : Nat := n % 4294967296

/-- `rgb2packed (Vec3<T>)`, floating `T`; `toU` is the cast `(PackedColor) (·)` -/
def rgb2packedV3 (toU : α → Nat) (c : V3 α) : Nat :=
  toU (c.x * 255) ||| u32 (toU (c.y * 255) <<< 8) ||| u32 (toU (c.z * 255) <<< 16) ||| 0xFF000000

/-- `rgb2packed (Color4<T>)`, floating `T` -/
def rgb2packedC4 (toU : α → Nat) (c : C4 α) : Nat :=
  toU (c.r * 255) ||| u32 (toU (c.g * 255) <<< 8) ||| u32 (toU (c.b * 255) <<< 16) |||
    u32 (toU (c.a * 255) <<< 24)

/-- `packed2rgb (packed, Vec3<T>&)`, floating `T`: `f = T(1)/T(255)`, `out.x = (packed & 0xFF) * f` … -/
def packed2rgbV3 (packed : Nat) : V3 α :=
  let f : α := 1 / 255
  ⟨((packed &&& 0xFF : Nat) : α) * f, (((packed &&& 0xFF00) >>> 8 : Nat) : α) * f,
   (((packed &&& 0xFF0000) >>> 16 : Nat) : α) * f⟩

/-- `packed2rgb (packed, Color4<T>&)`, floating `T` -/
def packed2rgbC4 (packed : Nat) : C4 α :=
  let f : α := 1 / 255
  ⟨((packed &&& 0xFF : Nat) : α) * f, (((packed &&& 0xFF00) >>> 8 : Nat) : α) * f,
   (((packed &&& 0xFF0000) >>> 16 : Nat) : α) * f, (((packed &&& 0xFF000000) >>> 24 : Nat) : α) * f⟩

end Packed

/-- integer `T`: `T f = max / 0xFF` (unsigned division); `out.x = (packed & 0xFF) * f`
(unsigned product converted to `T`; `wrapT` is that conversion) -/
def packed2rgbV3I (tmax : Nat) (wrapT : Nat → Int) (packed : Nat) : V3 Int :=
  let f := tmax / 0xFF
  ⟨wrapT (u32 ((packed &&& 0xFF) * f)), wrapT (u32 (((packed &&& 0xFF00) >>> 8) * f)),
   wrapT (u32 (((packed &&& 0xFF0000) >>> 16) * f))⟩

def packed2rgbC4I (tmax : Nat) (wrapT : Nat → Int) (packed : Nat) : C4 Int :=
  let f := tmax / 0xFF
  ⟨wrapT (u32 ((packed &&& 0xFF) * f)), wrapT (u32 (((packed &&& 0xFF00) >>> 8) * f)),
   wrapT (u32 (((packed &&& 0xFF0000) >>> 16) * f)), wrapT (u32 (((packed &&& 0xFF000000) >>> 24) * f))⟩

/-- integer `T`: `float x = c.x / float (max)`, then the `V3f` overload -/
def rgb2packedV3I {α : Type} [Mul α] [OfNat α 255] (scaleInF : Int → α) (toU : α → Nat) (c : V3 Int) : Nat :=
  rgb2packedV3 toU (⟨scaleInF c.x, scaleInF c.y, scaleInF c.z⟩ : V3 α)

def rgb2packedC4I {α : Type} [Mul α] [OfNat α 255] (scaleInF : Int → α) (toU : α → Nat) (c : C4 Int) : Nat :=
  rgb2packedC4 toU (⟨scaleInF c.r, scaleInF c.g, scaleInF c.b, scaleInF c.a⟩ : C4 α)

end ImathVerif.ColorAlgo
