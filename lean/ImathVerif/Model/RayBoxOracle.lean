import ImathVerif.Model.RayBox
/-!
# The exact interval oracle of C14 (CORE LEAN ONLY — linked into `drv_raybox`)

An executable decision procedure for "the line / the ray meets the closed box",
written independently of the model of the C++ (`Model/RayBox.lean`): per axis the exact
parameter interval of the slab, intersected over the three axes (and with `t ≥ 0` for
the ray); hit/miss and the entry / exit / first-contact points are read off the interval.

Generic in the scalar like the model: `Driver/RayBox.lean` EXECUTES these very
definitions at core `Rat`; `Lemmas/RayBoxOracleLemmas.lean` / `Props/C14.lean` PROVE them
correct over an arbitrary ordered field (`oracleLine_iff`, `oracleRay_iff`, `spec_entry`, …),
so the lattice correspondence compares the real code with a proved decision procedure.
-/
namespace ImathVerif.RayBox

/-- A closed parameter interval with optional infinite ends (`lo` / `hi` are ignored when the
corresponding flag is set); emptiness is represented by `none : Option (Ival α)`. -/
structure Ival (α : Type) where
  loInf : Bool
  lo : α
  hiInf : Bool
  hi : α

section
variable {α : Type} [Add α] [Sub α] [Mul α] [Div α] [LT α] [LE α]
  [DecidableLT α] [DecidableLE α] [DecidableEq α] [OfNat α 0]

def Ival.all : Ival α := ⟨true, 0, true, 0⟩

def omin (a b : α) : α := if a ≤ b then a else b
def omax (a b : α) : α := if a ≤ b then b else a

/-- `{t | lo ≤ p + t·d ≤ hi}` for one axis. -/
def slab (p d lo hi : α) : Option (Ival α) :=
  if hi < lo then none
  else if d = 0 then (if lo ≤ p ∧ p ≤ hi then some Ival.all else none)
  else
    let a := (lo - p) / d
    let b := (hi - p) / d
    some ⟨false, omin a b, false, omax a b⟩

def Ival.inter (i j : Ival α) : Option (Ival α) :=
  let li := i.loInf && j.loInf
  let l := if i.loInf then j.lo else if j.loInf then i.lo else omax i.lo j.lo
  let hi' := i.hiInf && j.hiInf
  let h := if i.hiInf then j.hi else if j.hiInf then i.hi else omin i.hi j.hi
  if li = false ∧ hi' = false ∧ h < l then none else some ⟨li, l, hi', h⟩

def oInter (a b : Option (Ival α)) : Option (Ival α) :=
  match a, b with
  | some i, some j => i.inter j
  | _, _ => none

/-- Parameter interval of the full line inside the box. -/
def lineIval (r : Line3 α) (b : Box3 α) : Option (Ival α) :=
  oInter (oInter (slab r.pos.x r.dir.x b.min.x b.max.x) (slab r.pos.y r.dir.y b.min.y b.max.y))
    (slab r.pos.z r.dir.z b.min.z b.max.z)

/-- … of the ray `t ≥ 0`. -/
def rayIval (r : Line3 α) (b : Box3 α) : Option (Ival α) :=
  oInter (lineIval r b) (some ⟨false, 0, true, 0⟩)

/-- Does the full line meet the closed box? -/
def oracleLine (r : Line3 α) (b : Box3 α) : Bool := (lineIval r b).isSome
/-- Does the ray (`t ≥ 0`) meet the closed box? -/
def oracleRay (r : Line3 α) (b : Box3 α) : Bool := (rayIval r b).isSome

def ptAt (r : Line3 α) (t : α) : V3 α :=
  ⟨r.pos.x + t * r.dir.x, r.pos.y + t * r.dir.y, r.pos.z + t * r.dir.z⟩

structure SpecOut (α : Type) where
  feHit : Bool
  entry : Option (V3 α)   -- defined when hit and the interval has a finite lower end (direction ≠ 0)
  exit : Option (V3 α)
  isHit : Bool
  ip : Option (V3 α)

/-- Everything the property specifies, decided exactly. -/
def spec (r : Line3 α) (b : Box3 α) : SpecOut α :=
  { feHit := oracleLine r b
    entry := match lineIval r b with
      | some i => if i.loInf then none else some (ptAt r i.lo)
      | none => none
    exit := match lineIval r b with
      | some i => if i.hiInf then none else some (ptAt r i.hi)
      | none => none
    isHit := oracleRay r b
    ip := match rayIval r b with
      | some i => some (ptAt r i.lo)      -- the ray interval always has a finite lower end ≥ 0 (`spec_ip`)
      | none => none }

end
end ImathVerif.RayBox
