-- GENERATED from /repo/src/Imath by harness/sym (T = Sym path extraction); do not edit.
import ImathVerif.Basic.Types
import ImathVerif.Gen.C10Quat
set_option linter.unusedVariables false
namespace ImathVerif.Gen
open ImathVerif

/-- extracted from the C++ template at T = Sym; 1 path(s) -/
def C10.Quat.squad {α : Type} [Add α] [Sub α] [Mul α] [Div α] [LT α] [DecidableLT α] [DecidableEq α] [OfNat α 0] [OfNat α 1] [OfNat α 2] (teps : α) (sqrt : α → α) (sin : α → α) (atan2 : α → α → α) (q1 : Quat α) (qa : Quat α) (qb : Quat α) (q2 : Quat α) (t : α) : (Quat α) :=
  let t19 := (C10.Quat.slerp teps sqrt sin atan2 ⟨q1.r, ⟨q1.v.x, q1.v.y, q1.v.z⟩⟩ ⟨q2.r, ⟨q2.v.x, q2.v.y, q2.v.z⟩⟩ t)
  let t24 := (C10.Quat.slerp teps sqrt sin atan2 ⟨qa.r, ⟨qa.v.x, qa.v.y, qa.v.z⟩⟩ ⟨qb.r, ⟨qb.v.x, qb.v.y, qb.v.z⟩⟩ t)
  let t33 := (C10.Quat.slerp teps sqrt sin atan2 ⟨(t19).r, ⟨(t19).v.x, (t19).v.y, (t19).v.z⟩⟩ ⟨(t24).r, ⟨(t24).v.x, (t24).v.y, (t24).v.z⟩⟩ (((2 : α) * t) * ((1 : α) - t)))
  ⟨(t33).r, ⟨(t33).v.x, (t33).v.y, (t33).v.z⟩⟩

/-- extracted from the C++ template at T = Sym; 1 path(s) -/
def C10.Quat.spline {α : Type} [Add α] [Sub α] [Mul α] [Div α] [Neg α] [LT α] [LE α] [DecidableLT α] [DecidableLE α] [DecidableEq α] [OfNat α 0] [OfNat α 1] [OfNat α 2] [OfNat α 4] (tmin : α) (tmax : α) (teps : α) (sqrt : α → α) (sin : α → α) (cos : α → α) (acos : α → α) (atan2 : α → α → α) (q0 : Quat α) (q1 : Quat α) (q2 : Quat α) (q3 : Quat α) (t : α) : (Quat α) :=
  let t19 := (C10.Quat.slerp teps sqrt sin atan2 ⟨q1.r, ⟨q1.v.x, q1.v.y, q1.v.z⟩⟩ ⟨q2.r, ⟨q2.v.x, q2.v.y, q2.v.z⟩⟩ t)
  let t46 := (C10.Quat.intermediate tmin tmax sqrt sin cos acos ⟨q0.r, ⟨q0.v.x, q0.v.y, q0.v.z⟩⟩ ⟨q1.r, ⟨q1.v.x, q1.v.y, q1.v.z⟩⟩ ⟨q2.r, ⟨q2.v.x, q2.v.y, q2.v.z⟩⟩)
  let t51 := (C10.Quat.intermediate tmin tmax sqrt sin cos acos ⟨q1.r, ⟨q1.v.x, q1.v.y, q1.v.z⟩⟩ ⟨q2.r, ⟨q2.v.x, q2.v.y, q2.v.z⟩⟩ ⟨q3.r, ⟨q3.v.x, q3.v.y, q3.v.z⟩⟩)
  let t56 := (C10.Quat.slerp teps sqrt sin atan2 ⟨(t46).r, ⟨(t46).v.x, (t46).v.y, (t46).v.z⟩⟩ ⟨(t51).r, ⟨(t51).v.x, (t51).v.y, (t51).v.z⟩⟩ t)
  let t61 := (C10.Quat.slerp teps sqrt sin atan2 ⟨(t19).r, ⟨(t19).v.x, (t19).v.y, (t19).v.z⟩⟩ ⟨(t56).r, ⟨(t56).v.x, (t56).v.y, (t56).v.z⟩⟩ (((2 : α) * t) * ((1 : α) - t)))
  ⟨(t61).r, ⟨(t61).v.x, (t61).v.y, (t61).v.z⟩⟩

end ImathVerif.Gen
