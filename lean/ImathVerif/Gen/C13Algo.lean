-- GENERATED from /repo/src/Imath by harness/sym (T = Sym path extraction); do not edit.
import ImathVerif.Basic.Types
set_option linter.unusedVariables false
namespace ImathVerif.Gen
open ImathVerif

/-- extracted from the C++ template at T = Sym; 9 path(s) -/
def Box2.clip {α : Type} [LT α] [DecidableLT α] (p : V2 α) (b : Box2 α) : (V2 α) :=
  if p.x < b.min.x then
    if p.y < b.min.y then
      ⟨b.min.x, b.min.y⟩
    else
      if b.max.y < p.y then
        ⟨b.min.x, b.max.y⟩
      else
        ⟨b.min.x, p.y⟩
  else
    if b.max.x < p.x then
      if p.y < b.min.y then
        ⟨b.max.x, b.min.y⟩
      else
        if b.max.y < p.y then
          ⟨b.max.x, b.max.y⟩
        else
          ⟨b.max.x, p.y⟩
    else
      if p.y < b.min.y then
        ⟨p.x, b.min.y⟩
      else
        if b.max.y < p.y then
          ⟨p.x, b.max.y⟩
        else
          ⟨p.x, p.y⟩

/-- extracted from the C++ template at T = Sym; 9 path(s) -/
def Box2.closestPointInBox {α : Type} [LT α] [DecidableLT α] (p : V2 α) (b : Box2 α) : (V2 α) :=
  if p.x < b.min.x then
    if p.y < b.min.y then
      ⟨b.min.x, b.min.y⟩
    else
      if b.max.y < p.y then
        ⟨b.min.x, b.max.y⟩
      else
        ⟨b.min.x, p.y⟩
  else
    if b.max.x < p.x then
      if p.y < b.min.y then
        ⟨b.max.x, b.min.y⟩
      else
        if b.max.y < p.y then
          ⟨b.max.x, b.max.y⟩
        else
          ⟨b.max.x, p.y⟩
    else
      if p.y < b.min.y then
        ⟨p.x, b.min.y⟩
      else
        if b.max.y < p.y then
          ⟨p.x, b.max.y⟩
        else
          ⟨p.x, p.y⟩

/-- extracted from the C++ template at T = Sym; 27 path(s) -/
def Box3.clip {α : Type} [LT α] [DecidableLT α] (p : V3 α) (b : Box3 α) : (V3 α) :=
  if p.x < b.min.x then
    if p.y < b.min.y then
      if p.z < b.min.z then
        ⟨b.min.x, b.min.y, b.min.z⟩
      else
        if b.max.z < p.z then
          ⟨b.min.x, b.min.y, b.max.z⟩
        else
          ⟨b.min.x, b.min.y, p.z⟩
    else
      if b.max.y < p.y then
        if p.z < b.min.z then
          ⟨b.min.x, b.max.y, b.min.z⟩
        else
          if b.max.z < p.z then
            ⟨b.min.x, b.max.y, b.max.z⟩
          else
            ⟨b.min.x, b.max.y, p.z⟩
      else
        if p.z < b.min.z then
          ⟨b.min.x, p.y, b.min.z⟩
        else
          if b.max.z < p.z then
            ⟨b.min.x, p.y, b.max.z⟩
          else
            ⟨b.min.x, p.y, p.z⟩
  else
    if b.max.x < p.x then
      if p.y < b.min.y then
        if p.z < b.min.z then
          ⟨b.max.x, b.min.y, b.min.z⟩
        else
          if b.max.z < p.z then
            ⟨b.max.x, b.min.y, b.max.z⟩
          else
            ⟨b.max.x, b.min.y, p.z⟩
      else
        if b.max.y < p.y then
          if p.z < b.min.z then
            ⟨b.max.x, b.max.y, b.min.z⟩
          else
            if b.max.z < p.z then
              ⟨b.max.x, b.max.y, b.max.z⟩
            else
              ⟨b.max.x, b.max.y, p.z⟩
        else
          if p.z < b.min.z then
            ⟨b.max.x, p.y, b.min.z⟩
          else
            if b.max.z < p.z then
              ⟨b.max.x, p.y, b.max.z⟩
            else
              ⟨b.max.x, p.y, p.z⟩
    else
      if p.y < b.min.y then
        if p.z < b.min.z then
          ⟨p.x, b.min.y, b.min.z⟩
        else
          if b.max.z < p.z then
            ⟨p.x, b.min.y, b.max.z⟩
          else
            ⟨p.x, b.min.y, p.z⟩
      else
        if b.max.y < p.y then
          if p.z < b.min.z then
            ⟨p.x, b.max.y, b.min.z⟩
          else
            if b.max.z < p.z then
              ⟨p.x, b.max.y, b.max.z⟩
            else
              ⟨p.x, b.max.y, p.z⟩
        else
          if p.z < b.min.z then
            ⟨p.x, p.y, b.min.z⟩
          else
            if b.max.z < p.z then
              ⟨p.x, p.y, b.max.z⟩
            else
              ⟨p.x, p.y, p.z⟩

/-- extracted from the C++ template at T = Sym; 27 path(s) -/
def Box3.closestPointInBox {α : Type} [LT α] [DecidableLT α] (p : V3 α) (b : Box3 α) : (V3 α) :=
  if p.x < b.min.x then
    if p.y < b.min.y then
      if p.z < b.min.z then
        ⟨b.min.x, b.min.y, b.min.z⟩
      else
        if b.max.z < p.z then
          ⟨b.min.x, b.min.y, b.max.z⟩
        else
          ⟨b.min.x, b.min.y, p.z⟩
    else
      if b.max.y < p.y then
        if p.z < b.min.z then
          ⟨b.min.x, b.max.y, b.min.z⟩
        else
          if b.max.z < p.z then
            ⟨b.min.x, b.max.y, b.max.z⟩
          else
            ⟨b.min.x, b.max.y, p.z⟩
      else
        if p.z < b.min.z then
          ⟨b.min.x, p.y, b.min.z⟩
        else
          if b.max.z < p.z then
            ⟨b.min.x, p.y, b.max.z⟩
          else
            ⟨b.min.x, p.y, p.z⟩
  else
    if b.max.x < p.x then
      if p.y < b.min.y then
        if p.z < b.min.z then
          ⟨b.max.x, b.min.y, b.min.z⟩
        else
          if b.max.z < p.z then
            ⟨b.max.x, b.min.y, b.max.z⟩
          else
            ⟨b.max.x, b.min.y, p.z⟩
      else
        if b.max.y < p.y then
          if p.z < b.min.z then
            ⟨b.max.x, b.max.y, b.min.z⟩
          else
            if b.max.z < p.z then
              ⟨b.max.x, b.max.y, b.max.z⟩
            else
              ⟨b.max.x, b.max.y, p.z⟩
        else
          if p.z < b.min.z then
            ⟨b.max.x, p.y, b.min.z⟩
          else
            if b.max.z < p.z then
              ⟨b.max.x, p.y, b.max.z⟩
            else
              ⟨b.max.x, p.y, p.z⟩
    else
      if p.y < b.min.y then
        if p.z < b.min.z then
          ⟨p.x, b.min.y, b.min.z⟩
        else
          if b.max.z < p.z then
            ⟨p.x, b.min.y, b.max.z⟩
          else
            ⟨p.x, b.min.y, p.z⟩
      else
        if b.max.y < p.y then
          if p.z < b.min.z then
            ⟨p.x, b.max.y, b.min.z⟩
          else
            if b.max.z < p.z then
              ⟨p.x, b.max.y, b.max.z⟩
            else
              ⟨p.x, b.max.y, p.z⟩
        else
          if p.z < b.min.z then
            ⟨p.x, p.y, b.min.z⟩
          else
            if b.max.z < p.z then
              ⟨p.x, p.y, b.max.z⟩
            else
              ⟨p.x, p.y, p.z⟩

/-- extracted from the C++ template at T = Sym; 81 path(s) -/
def Box4.clip {α : Type} [LT α] [DecidableLT α] (p : V4 α) (b : Box4 α) : (V4 α) :=
  if p.x < b.min.x then
    if p.y < b.min.y then
      if p.z < b.min.z then
        if p.w < b.min.w then
          ⟨b.min.x, b.min.y, b.min.z, b.min.w⟩
        else
          if b.max.w < p.w then
            ⟨b.min.x, b.min.y, b.min.z, b.max.w⟩
          else
            ⟨b.min.x, b.min.y, b.min.z, p.w⟩
      else
        if b.max.z < p.z then
          if p.w < b.min.w then
            ⟨b.min.x, b.min.y, b.max.z, b.min.w⟩
          else
            if b.max.w < p.w then
              ⟨b.min.x, b.min.y, b.max.z, b.max.w⟩
            else
              ⟨b.min.x, b.min.y, b.max.z, p.w⟩
        else
          if p.w < b.min.w then
            ⟨b.min.x, b.min.y, p.z, b.min.w⟩
          else
            if b.max.w < p.w then
              ⟨b.min.x, b.min.y, p.z, b.max.w⟩
            else
              ⟨b.min.x, b.min.y, p.z, p.w⟩
    else
      if b.max.y < p.y then
        if p.z < b.min.z then
          if p.w < b.min.w then
            ⟨b.min.x, b.max.y, b.min.z, b.min.w⟩
          else
            if b.max.w < p.w then
              ⟨b.min.x, b.max.y, b.min.z, b.max.w⟩
            else
              ⟨b.min.x, b.max.y, b.min.z, p.w⟩
        else
          if b.max.z < p.z then
            if p.w < b.min.w then
              ⟨b.min.x, b.max.y, b.max.z, b.min.w⟩
            else
              if b.max.w < p.w then
                ⟨b.min.x, b.max.y, b.max.z, b.max.w⟩
              else
                ⟨b.min.x, b.max.y, b.max.z, p.w⟩
          else
            if p.w < b.min.w then
              ⟨b.min.x, b.max.y, p.z, b.min.w⟩
            else
              if b.max.w < p.w then
                ⟨b.min.x, b.max.y, p.z, b.max.w⟩
              else
                ⟨b.min.x, b.max.y, p.z, p.w⟩
      else
        if p.z < b.min.z then
          if p.w < b.min.w then
            ⟨b.min.x, p.y, b.min.z, b.min.w⟩
          else
            if b.max.w < p.w then
              ⟨b.min.x, p.y, b.min.z, b.max.w⟩
            else
              ⟨b.min.x, p.y, b.min.z, p.w⟩
        else
          if b.max.z < p.z then
            if p.w < b.min.w then
              ⟨b.min.x, p.y, b.max.z, b.min.w⟩
            else
              if b.max.w < p.w then
                ⟨b.min.x, p.y, b.max.z, b.max.w⟩
              else
                ⟨b.min.x, p.y, b.max.z, p.w⟩
          else
            if p.w < b.min.w then
              ⟨b.min.x, p.y, p.z, b.min.w⟩
            else
              if b.max.w < p.w then
                ⟨b.min.x, p.y, p.z, b.max.w⟩
              else
                ⟨b.min.x, p.y, p.z, p.w⟩
  else
    if b.max.x < p.x then
      if p.y < b.min.y then
        if p.z < b.min.z then
          if p.w < b.min.w then
            ⟨b.max.x, b.min.y, b.min.z, b.min.w⟩
          else
            if b.max.w < p.w then
              ⟨b.max.x, b.min.y, b.min.z, b.max.w⟩
            else
              ⟨b.max.x, b.min.y, b.min.z, p.w⟩
        else
          if b.max.z < p.z then
            if p.w < b.min.w then
              ⟨b.max.x, b.min.y, b.max.z, b.min.w⟩
            else
              if b.max.w < p.w then
                ⟨b.max.x, b.min.y, b.max.z, b.max.w⟩
              else
                ⟨b.max.x, b.min.y, b.max.z, p.w⟩
          else
            if p.w < b.min.w then
              ⟨b.max.x, b.min.y, p.z, b.min.w⟩
            else
              if b.max.w < p.w then
                ⟨b.max.x, b.min.y, p.z, b.max.w⟩
              else
                ⟨b.max.x, b.min.y, p.z, p.w⟩
      else
        if b.max.y < p.y then
          if p.z < b.min.z then
            if p.w < b.min.w then
              ⟨b.max.x, b.max.y, b.min.z, b.min.w⟩
            else
              if b.max.w < p.w then
                ⟨b.max.x, b.max.y, b.min.z, b.max.w⟩
              else
                ⟨b.max.x, b.max.y, b.min.z, p.w⟩
          else
            if b.max.z < p.z then
              if p.w < b.min.w then
                ⟨b.max.x, b.max.y, b.max.z, b.min.w⟩
              else
                if b.max.w < p.w then
                  ⟨b.max.x, b.max.y, b.max.z, b.max.w⟩
                else
                  ⟨b.max.x, b.max.y, b.max.z, p.w⟩
            else
              if p.w < b.min.w then
                ⟨b.max.x, b.max.y, p.z, b.min.w⟩
              else
                if b.max.w < p.w then
                  ⟨b.max.x, b.max.y, p.z, b.max.w⟩
                else
                  ⟨b.max.x, b.max.y, p.z, p.w⟩
        else
          if p.z < b.min.z then
            if p.w < b.min.w then
              ⟨b.max.x, p.y, b.min.z, b.min.w⟩
            else
              if b.max.w < p.w then
                ⟨b.max.x, p.y, b.min.z, b.max.w⟩
              else
                ⟨b.max.x, p.y, b.min.z, p.w⟩
          else
            if b.max.z < p.z then
              if p.w < b.min.w then
                ⟨b.max.x, p.y, b.max.z, b.min.w⟩
              else
                if b.max.w < p.w then
                  ⟨b.max.x, p.y, b.max.z, b.max.w⟩
                else
                  ⟨b.max.x, p.y, b.max.z, p.w⟩
            else
              if p.w < b.min.w then
                ⟨b.max.x, p.y, p.z, b.min.w⟩
              else
                if b.max.w < p.w then
                  ⟨b.max.x, p.y, p.z, b.max.w⟩
                else
                  ⟨b.max.x, p.y, p.z, p.w⟩
    else
      if p.y < b.min.y then
        if p.z < b.min.z then
          if p.w < b.min.w then
            ⟨p.x, b.min.y, b.min.z, b.min.w⟩
          else
            if b.max.w < p.w then
              ⟨p.x, b.min.y, b.min.z, b.max.w⟩
            else
              ⟨p.x, b.min.y, b.min.z, p.w⟩
        else
          if b.max.z < p.z then
            if p.w < b.min.w then
              ⟨p.x, b.min.y, b.max.z, b.min.w⟩
            else
              if b.max.w < p.w then
                ⟨p.x, b.min.y, b.max.z, b.max.w⟩
              else
                ⟨p.x, b.min.y, b.max.z, p.w⟩
          else
            if p.w < b.min.w then
              ⟨p.x, b.min.y, p.z, b.min.w⟩
            else
              if b.max.w < p.w then
                ⟨p.x, b.min.y, p.z, b.max.w⟩
              else
                ⟨p.x, b.min.y, p.z, p.w⟩
      else
        if b.max.y < p.y then
          if p.z < b.min.z then
            if p.w < b.min.w then
              ⟨p.x, b.max.y, b.min.z, b.min.w⟩
            else
              if b.max.w < p.w then
                ⟨p.x, b.max.y, b.min.z, b.max.w⟩
              else
                ⟨p.x, b.max.y, b.min.z, p.w⟩
          else
            if b.max.z < p.z then
              if p.w < b.min.w then
                ⟨p.x, b.max.y, b.max.z, b.min.w⟩
              else
                if b.max.w < p.w then
                  ⟨p.x, b.max.y, b.max.z, b.max.w⟩
                else
                  ⟨p.x, b.max.y, b.max.z, p.w⟩
            else
              if p.w < b.min.w then
                ⟨p.x, b.max.y, p.z, b.min.w⟩
              else
                if b.max.w < p.w then
                  ⟨p.x, b.max.y, p.z, b.max.w⟩
                else
                  ⟨p.x, b.max.y, p.z, p.w⟩
        else
          if p.z < b.min.z then
            if p.w < b.min.w then
              ⟨p.x, p.y, b.min.z, b.min.w⟩
            else
              if b.max.w < p.w then
                ⟨p.x, p.y, b.min.z, b.max.w⟩
              else
                ⟨p.x, p.y, b.min.z, p.w⟩
          else
            if b.max.z < p.z then
              if p.w < b.min.w then
                ⟨p.x, p.y, b.max.z, b.min.w⟩
              else
                if b.max.w < p.w then
                  ⟨p.x, p.y, b.max.z, b.max.w⟩
                else
                  ⟨p.x, p.y, b.max.z, p.w⟩
            else
              if p.w < b.min.w then
                ⟨p.x, p.y, p.z, b.min.w⟩
              else
                if b.max.w < p.w then
                  ⟨p.x, p.y, p.z, b.max.w⟩
                else
                  ⟨p.x, p.y, p.z, p.w⟩

/-- extracted from the C++ template at T = Sym; 81 path(s) -/
def Box4.closestPointInBox {α : Type} [LT α] [DecidableLT α] (p : V4 α) (b : Box4 α) : (V4 α) :=
  if p.x < b.min.x then
    if p.y < b.min.y then
      if p.z < b.min.z then
        if p.w < b.min.w then
          ⟨b.min.x, b.min.y, b.min.z, b.min.w⟩
        else
          if b.max.w < p.w then
            ⟨b.min.x, b.min.y, b.min.z, b.max.w⟩
          else
            ⟨b.min.x, b.min.y, b.min.z, p.w⟩
      else
        if b.max.z < p.z then
          if p.w < b.min.w then
            ⟨b.min.x, b.min.y, b.max.z, b.min.w⟩
          else
            if b.max.w < p.w then
              ⟨b.min.x, b.min.y, b.max.z, b.max.w⟩
            else
              ⟨b.min.x, b.min.y, b.max.z, p.w⟩
        else
          if p.w < b.min.w then
            ⟨b.min.x, b.min.y, p.z, b.min.w⟩
          else
            if b.max.w < p.w then
              ⟨b.min.x, b.min.y, p.z, b.max.w⟩
            else
              ⟨b.min.x, b.min.y, p.z, p.w⟩
    else
      if b.max.y < p.y then
        if p.z < b.min.z then
          if p.w < b.min.w then
            ⟨b.min.x, b.max.y, b.min.z, b.min.w⟩
          else
            if b.max.w < p.w then
              ⟨b.min.x, b.max.y, b.min.z, b.max.w⟩
            else
              ⟨b.min.x, b.max.y, b.min.z, p.w⟩
        else
          if b.max.z < p.z then
            if p.w < b.min.w then
              ⟨b.min.x, b.max.y, b.max.z, b.min.w⟩
            else
              if b.max.w < p.w then
                ⟨b.min.x, b.max.y, b.max.z, b.max.w⟩
              else
                ⟨b.min.x, b.max.y, b.max.z, p.w⟩
          else
            if p.w < b.min.w then
              ⟨b.min.x, b.max.y, p.z, b.min.w⟩
            else
              if b.max.w < p.w then
                ⟨b.min.x, b.max.y, p.z, b.max.w⟩
              else
                ⟨b.min.x, b.max.y, p.z, p.w⟩
      else
        if p.z < b.min.z then
          if p.w < b.min.w then
            ⟨b.min.x, p.y, b.min.z, b.min.w⟩
          else
            if b.max.w < p.w then
              ⟨b.min.x, p.y, b.min.z, b.max.w⟩
            else
              ⟨b.min.x, p.y, b.min.z, p.w⟩
        else
          if b.max.z < p.z then
            if p.w < b.min.w then
              ⟨b.min.x, p.y, b.max.z, b.min.w⟩
            else
              if b.max.w < p.w then
                ⟨b.min.x, p.y, b.max.z, b.max.w⟩
              else
                ⟨b.min.x, p.y, b.max.z, p.w⟩
          else
            if p.w < b.min.w then
              ⟨b.min.x, p.y, p.z, b.min.w⟩
            else
              if b.max.w < p.w then
                ⟨b.min.x, p.y, p.z, b.max.w⟩
              else
                ⟨b.min.x, p.y, p.z, p.w⟩
  else
    if b.max.x < p.x then
      if p.y < b.min.y then
        if p.z < b.min.z then
          if p.w < b.min.w then
            ⟨b.max.x, b.min.y, b.min.z, b.min.w⟩
          else
            if b.max.w < p.w then
              ⟨b.max.x, b.min.y, b.min.z, b.max.w⟩
            else
              ⟨b.max.x, b.min.y, b.min.z, p.w⟩
        else
          if b.max.z < p.z then
            if p.w < b.min.w then
              ⟨b.max.x, b.min.y, b.max.z, b.min.w⟩
            else
              if b.max.w < p.w then
                ⟨b.max.x, b.min.y, b.max.z, b.max.w⟩
              else
                ⟨b.max.x, b.min.y, b.max.z, p.w⟩
          else
            if p.w < b.min.w then
              ⟨b.max.x, b.min.y, p.z, b.min.w⟩
            else
              if b.max.w < p.w then
                ⟨b.max.x, b.min.y, p.z, b.max.w⟩
              else
                ⟨b.max.x, b.min.y, p.z, p.w⟩
      else
        if b.max.y < p.y then
          if p.z < b.min.z then
            if p.w < b.min.w then
              ⟨b.max.x, b.max.y, b.min.z, b.min.w⟩
            else
              if b.max.w < p.w then
                ⟨b.max.x, b.max.y, b.min.z, b.max.w⟩
              else
                ⟨b.max.x, b.max.y, b.min.z, p.w⟩
          else
            if b.max.z < p.z then
              if p.w < b.min.w then
                ⟨b.max.x, b.max.y, b.max.z, b.min.w⟩
              else
                if b.max.w < p.w then
                  ⟨b.max.x, b.max.y, b.max.z, b.max.w⟩
                else
                  ⟨b.max.x, b.max.y, b.max.z, p.w⟩
            else
              if p.w < b.min.w then
                ⟨b.max.x, b.max.y, p.z, b.min.w⟩
              else
                if b.max.w < p.w then
                  ⟨b.max.x, b.max.y, p.z, b.max.w⟩
                else
                  ⟨b.max.x, b.max.y, p.z, p.w⟩
        else
          if p.z < b.min.z then
            if p.w < b.min.w then
              ⟨b.max.x, p.y, b.min.z, b.min.w⟩
            else
              if b.max.w < p.w then
                ⟨b.max.x, p.y, b.min.z, b.max.w⟩
              else
                ⟨b.max.x, p.y, b.min.z, p.w⟩
          else
            if b.max.z < p.z then
              if p.w < b.min.w then
                ⟨b.max.x, p.y, b.max.z, b.min.w⟩
              else
                if b.max.w < p.w then
                  ⟨b.max.x, p.y, b.max.z, b.max.w⟩
                else
                  ⟨b.max.x, p.y, b.max.z, p.w⟩
            else
              if p.w < b.min.w then
                ⟨b.max.x, p.y, p.z, b.min.w⟩
              else
                if b.max.w < p.w then
                  ⟨b.max.x, p.y, p.z, b.max.w⟩
                else
                  ⟨b.max.x, p.y, p.z, p.w⟩
    else
      if p.y < b.min.y then
        if p.z < b.min.z then
          if p.w < b.min.w then
            ⟨p.x, b.min.y, b.min.z, b.min.w⟩
          else
            if b.max.w < p.w then
              ⟨p.x, b.min.y, b.min.z, b.max.w⟩
            else
              ⟨p.x, b.min.y, b.min.z, p.w⟩
        else
          if b.max.z < p.z then
            if p.w < b.min.w then
              ⟨p.x, b.min.y, b.max.z, b.min.w⟩
            else
              if b.max.w < p.w then
                ⟨p.x, b.min.y, b.max.z, b.max.w⟩
              else
                ⟨p.x, b.min.y, b.max.z, p.w⟩
          else
            if p.w < b.min.w then
              ⟨p.x, b.min.y, p.z, b.min.w⟩
            else
              if b.max.w < p.w then
                ⟨p.x, b.min.y, p.z, b.max.w⟩
              else
                ⟨p.x, b.min.y, p.z, p.w⟩
      else
        if b.max.y < p.y then
          if p.z < b.min.z then
            if p.w < b.min.w then
              ⟨p.x, b.max.y, b.min.z, b.min.w⟩
            else
              if b.max.w < p.w then
                ⟨p.x, b.max.y, b.min.z, b.max.w⟩
              else
                ⟨p.x, b.max.y, b.min.z, p.w⟩
          else
            if b.max.z < p.z then
              if p.w < b.min.w then
                ⟨p.x, b.max.y, b.max.z, b.min.w⟩
              else
                if b.max.w < p.w then
                  ⟨p.x, b.max.y, b.max.z, b.max.w⟩
                else
                  ⟨p.x, b.max.y, b.max.z, p.w⟩
            else
              if p.w < b.min.w then
                ⟨p.x, b.max.y, p.z, b.min.w⟩
              else
                if b.max.w < p.w then
                  ⟨p.x, b.max.y, p.z, b.max.w⟩
                else
                  ⟨p.x, b.max.y, p.z, p.w⟩
        else
          if p.z < b.min.z then
            if p.w < b.min.w then
              ⟨p.x, p.y, b.min.z, b.min.w⟩
            else
              if b.max.w < p.w then
                ⟨p.x, p.y, b.min.z, b.max.w⟩
              else
                ⟨p.x, p.y, b.min.z, p.w⟩
          else
            if b.max.z < p.z then
              if p.w < b.min.w then
                ⟨p.x, p.y, b.max.z, b.min.w⟩
              else
                if b.max.w < p.w then
                  ⟨p.x, p.y, b.max.z, b.max.w⟩
                else
                  ⟨p.x, p.y, b.max.z, p.w⟩
            else
              if p.w < b.min.w then
                ⟨p.x, p.y, p.z, b.min.w⟩
              else
                if b.max.w < p.w then
                  ⟨p.x, p.y, p.z, b.max.w⟩
                else
                  ⟨p.x, p.y, p.z, p.w⟩

/-- extracted from the C++ template at T = Sym; 69 path(s) -/
def Box3.closestPointOnBox {α : Type} [Sub α] [LT α] [DecidableLT α] (p : V3 α) (b : Box3 α) : (V3 α) :=
  let t76 := (p.z - b.min.z)
  let t77 := (p.y - b.min.y)
  let t78 := (p.x - b.min.x)
  let t79 := (b.max.z - p.z)
  let t80 := (b.max.y - p.y)
  let t81 := (b.max.x - p.x)
  if b.max.x < b.min.x then
    ⟨p.x, p.y, p.z⟩
  else
    if b.max.y < b.min.y then
      ⟨p.x, p.y, p.z⟩
    else
      if b.max.z < b.min.z then
        ⟨p.x, p.y, p.z⟩
      else
        if p.x < b.min.x then
          if p.y < b.min.y then
            if p.z < b.min.z then
              ⟨b.min.x, b.min.y, b.min.z⟩
            else
              if b.max.z < p.z then
                ⟨b.min.x, b.min.y, b.max.z⟩
              else
                ⟨b.min.x, b.min.y, p.z⟩
          else
            if b.max.y < p.y then
              if p.z < b.min.z then
                ⟨b.min.x, b.max.y, b.min.z⟩
              else
                if b.max.z < p.z then
                  ⟨b.min.x, b.max.y, b.max.z⟩
                else
                  ⟨b.min.x, b.max.y, p.z⟩
            else
              if p.z < b.min.z then
                ⟨b.min.x, p.y, b.min.z⟩
              else
                if b.max.z < p.z then
                  ⟨b.min.x, p.y, b.max.z⟩
                else
                  ⟨b.min.x, p.y, p.z⟩
        else
          if b.max.x < p.x then
            if p.y < b.min.y then
              if p.z < b.min.z then
                ⟨b.max.x, b.min.y, b.min.z⟩
              else
                if b.max.z < p.z then
                  ⟨b.max.x, b.min.y, b.max.z⟩
                else
                  ⟨b.max.x, b.min.y, p.z⟩
            else
              if b.max.y < p.y then
                if p.z < b.min.z then
                  ⟨b.max.x, b.max.y, b.min.z⟩
                else
                  if b.max.z < p.z then
                    ⟨b.max.x, b.max.y, b.max.z⟩
                  else
                    ⟨b.max.x, b.max.y, p.z⟩
              else
                if p.z < b.min.z then
                  ⟨b.max.x, p.y, b.min.z⟩
                else
                  if b.max.z < p.z then
                    ⟨b.max.x, p.y, b.max.z⟩
                  else
                    ⟨b.max.x, p.y, p.z⟩
          else
            if p.y < b.min.y then
              if p.z < b.min.z then
                ⟨p.x, b.min.y, b.min.z⟩
              else
                if b.max.z < p.z then
                  ⟨p.x, b.min.y, b.max.z⟩
                else
                  ⟨p.x, b.min.y, p.z⟩
            else
              if b.max.y < p.y then
                if p.z < b.min.z then
                  ⟨p.x, b.max.y, b.min.z⟩
                else
                  if b.max.z < p.z then
                    ⟨p.x, b.max.y, b.max.z⟩
                  else
                    ⟨p.x, b.max.y, p.z⟩
              else
                if p.z < b.min.z then
                  ⟨p.x, p.y, b.min.z⟩
                else
                  if b.max.z < p.z then
                    ⟨p.x, p.y, b.max.z⟩
                  else
                    if t76 < t79 then
                      if t77 < t80 then
                        if t78 < t81 then
                          if t78 < t77 then
                            if t78 < t76 then
                              ⟨b.min.x, p.y, p.z⟩
                            else
                              if t77 < t76 then
                                ⟨p.x, b.min.y, p.z⟩
                              else
                                ⟨p.x, p.y, b.min.z⟩
                          else
                            if t77 < t76 then
                              ⟨p.x, b.min.y, p.z⟩
                            else
                              ⟨p.x, p.y, b.min.z⟩
                        else
                          if t81 < t77 then
                            if t81 < t76 then
                              ⟨b.max.x, p.y, p.z⟩
                            else
                              if t77 < t76 then
                                ⟨p.x, b.min.y, p.z⟩
                              else
                                ⟨p.x, p.y, b.min.z⟩
                          else
                            if t77 < t76 then
                              ⟨p.x, b.min.y, p.z⟩
                            else
                              ⟨p.x, p.y, b.min.z⟩
                      else
                        if t78 < t81 then
                          if t78 < t80 then
                            if t78 < t76 then
                              ⟨b.min.x, p.y, p.z⟩
                            else
                              if t80 < t76 then
                                ⟨p.x, b.max.y, p.z⟩
                              else
                                ⟨p.x, p.y, b.min.z⟩
                          else
                            if t80 < t76 then
                              ⟨p.x, b.max.y, p.z⟩
                            else
                              ⟨p.x, p.y, b.min.z⟩
                        else
                          if t81 < t80 then
                            if t81 < t76 then
                              ⟨b.max.x, p.y, p.z⟩
                            else
                              if t80 < t76 then
                                ⟨p.x, b.max.y, p.z⟩
                              else
                                ⟨p.x, p.y, b.min.z⟩
                          else
                            if t80 < t76 then
                              ⟨p.x, b.max.y, p.z⟩
                            else
                              ⟨p.x, p.y, b.min.z⟩
                    else
                      if t77 < t80 then
                        if t78 < t81 then
                          if t78 < t77 then
                            if t78 < t79 then
                              ⟨b.min.x, p.y, p.z⟩
                            else
                              if t77 < t79 then
                                ⟨p.x, b.min.y, p.z⟩
                              else
                                ⟨p.x, p.y, b.max.z⟩
                          else
                            if t77 < t79 then
                              ⟨p.x, b.min.y, p.z⟩
                            else
                              ⟨p.x, p.y, b.max.z⟩
                        else
                          if t81 < t77 then
                            if t81 < t79 then
                              ⟨b.max.x, p.y, p.z⟩
                            else
                              if t77 < t79 then
                                ⟨p.x, b.min.y, p.z⟩
                              else
                                ⟨p.x, p.y, b.max.z⟩
                          else
                            if t77 < t79 then
                              ⟨p.x, b.min.y, p.z⟩
                            else
                              ⟨p.x, p.y, b.max.z⟩
                      else
                        if t78 < t81 then
                          if t78 < t80 then
                            if t78 < t79 then
                              ⟨b.min.x, p.y, p.z⟩
                            else
                              if t80 < t79 then
                                ⟨p.x, b.max.y, p.z⟩
                              else
                                ⟨p.x, p.y, b.max.z⟩
                          else
                            if t80 < t79 then
                              ⟨p.x, b.max.y, p.z⟩
                            else
                              ⟨p.x, p.y, b.max.z⟩
                        else
                          if t81 < t80 then
                            if t81 < t79 then
                              ⟨b.max.x, p.y, p.z⟩
                            else
                              if t80 < t79 then
                                ⟨p.x, b.max.y, p.z⟩
                              else
                                ⟨p.x, p.y, b.max.z⟩
                          else
                            if t80 < t79 then
                              ⟨p.x, b.max.y, p.z⟩
                            else
                              ⟨p.x, p.y, b.max.z⟩

/-- extracted from the C++ template at T = Sym; 1 path(s) -/
def BoxAlgo.vecTimesM44 {α : Type} [Add α] [Mul α] [Div α] (v : V3 α) (m : M44 α) : (V3 α) :=
  let t125 := ((((v.x * m.x03) + (v.y * m.x13)) + (v.z * m.x23)) + m.x33)
  ⟨(((((v.x * m.x00) + (v.y * m.x10)) + (v.z * m.x20)) + m.x30) / t125), (((((v.x * m.x01) + (v.y * m.x11)) + (v.z * m.x21)) + m.x31) / t125), (((((v.x * m.x02) + (v.y * m.x12)) + (v.z * m.x22)) + m.x32) / t125)⟩

end ImathVerif.Gen
