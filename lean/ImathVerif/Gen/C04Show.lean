-- GENERATED from /repo/src/Imath by harness/sym (T = Sym path extraction); do not edit.
import ImathVerif.Basic.Types
set_option linter.unusedVariables false
namespace ImathVerif.Gen
open ImathVerif

/-- extracted from the C++ template at T = Sym; 1 path(s) -/
def V2.show {α : Type} (a : V2 α) : (List Seg) :=
  [Seg.lit ['('], Seg.tok 0 0 4098 6, Seg.lit [' '], Seg.tok 1 0 4098 6, Seg.lit [')']]

/-- extracted from the C++ template at T = Sym; 1 path(s) -/
def V2.showFixed {α : Type} (a : V2 α) : (List Seg) :=
  [Seg.lit ['('], Seg.tok 0 0 4102 3, Seg.lit [' '], Seg.tok 1 0 4102 3, Seg.lit [')']]

/-- extracted from the C++ template at T = Sym; 1 path(s) -/
def V2.showSci {α : Type} (a : V2 α) : (List Seg) :=
  [Seg.lit ['('], Seg.tok 0 0 4354 9, Seg.lit [' '], Seg.tok 1 0 4354 9, Seg.lit [')']]

/-- extracted from the C++ template at T = Sym; 1 path(s) -/
def V3.show {α : Type} (a : V3 α) : (List Seg) :=
  [Seg.lit ['('], Seg.tok 0 0 4098 6, Seg.lit [' '], Seg.tok 1 0 4098 6, Seg.lit [' '], Seg.tok 2 0 4098 6, Seg.lit [')']]

/-- extracted from the C++ template at T = Sym; 1 path(s) -/
def V3.showFixed {α : Type} (a : V3 α) : (List Seg) :=
  [Seg.lit ['('], Seg.tok 0 0 4102 3, Seg.lit [' '], Seg.tok 1 0 4102 3, Seg.lit [' '], Seg.tok 2 0 4102 3, Seg.lit [')']]

/-- extracted from the C++ template at T = Sym; 1 path(s) -/
def V3.showSci {α : Type} (a : V3 α) : (List Seg) :=
  [Seg.lit ['('], Seg.tok 0 0 4354 9, Seg.lit [' '], Seg.tok 1 0 4354 9, Seg.lit [' '], Seg.tok 2 0 4354 9, Seg.lit [')']]

/-- extracted from the C++ template at T = Sym; 1 path(s) -/
def V4.show {α : Type} (a : V4 α) : (List Seg) :=
  [Seg.lit ['('], Seg.tok 0 0 4098 6, Seg.lit [' '], Seg.tok 1 0 4098 6, Seg.lit [' '], Seg.tok 2 0 4098 6, Seg.lit [' '], Seg.tok 3 0 4098 6, Seg.lit [')']]

/-- extracted from the C++ template at T = Sym; 1 path(s) -/
def V4.showFixed {α : Type} (a : V4 α) : (List Seg) :=
  [Seg.lit ['('], Seg.tok 0 0 4102 3, Seg.lit [' '], Seg.tok 1 0 4102 3, Seg.lit [' '], Seg.tok 2 0 4102 3, Seg.lit [' '], Seg.tok 3 0 4102 3, Seg.lit [')']]

/-- extracted from the C++ template at T = Sym; 1 path(s) -/
def V4.showSci {α : Type} (a : V4 α) : (List Seg) :=
  [Seg.lit ['('], Seg.tok 0 0 4354 9, Seg.lit [' '], Seg.tok 1 0 4354 9, Seg.lit [' '], Seg.tok 2 0 4354 9, Seg.lit [' '], Seg.tok 3 0 4354 9, Seg.lit [')']]

/-- extracted from the C++ template at T = Sym; 1 path(s) -/
def C3.show {α : Type} (a : V3 α) : (List Seg) :=
  [Seg.lit ['('], Seg.tok 0 0 4098 6, Seg.lit [' '], Seg.tok 1 0 4098 6, Seg.lit [' '], Seg.tok 2 0 4098 6, Seg.lit [')']]

/-- extracted from the C++ template at T = Sym; 1 path(s) -/
def C3.showFixed {α : Type} (a : V3 α) : (List Seg) :=
  [Seg.lit ['('], Seg.tok 0 0 4102 3, Seg.lit [' '], Seg.tok 1 0 4102 3, Seg.lit [' '], Seg.tok 2 0 4102 3, Seg.lit [')']]

/-- extracted from the C++ template at T = Sym; 1 path(s) -/
def C3.showSci {α : Type} (a : V3 α) : (List Seg) :=
  [Seg.lit ['('], Seg.tok 0 0 4354 9, Seg.lit [' '], Seg.tok 1 0 4354 9, Seg.lit [' '], Seg.tok 2 0 4354 9, Seg.lit [')']]

/-- extracted from the C++ template at T = Sym; 1 path(s) -/
def C4.show {α : Type} (a : C4 α) : (List Seg) :=
  [Seg.lit ['('], Seg.tok 0 0 4098 6, Seg.lit [' '], Seg.tok 1 0 4098 6, Seg.lit [' '], Seg.tok 2 0 4098 6, Seg.lit [' '], Seg.tok 3 0 4098 6, Seg.lit [')']]

/-- extracted from the C++ template at T = Sym; 1 path(s) -/
def C4.showFixed {α : Type} (a : C4 α) : (List Seg) :=
  [Seg.lit ['('], Seg.tok 0 0 4102 3, Seg.lit [' '], Seg.tok 1 0 4102 3, Seg.lit [' '], Seg.tok 2 0 4102 3, Seg.lit [' '], Seg.tok 3 0 4102 3, Seg.lit [')']]

/-- extracted from the C++ template at T = Sym; 1 path(s) -/
def C4.showSci {α : Type} (a : C4 α) : (List Seg) :=
  [Seg.lit ['('], Seg.tok 0 0 4354 9, Seg.lit [' '], Seg.tok 1 0 4354 9, Seg.lit [' '], Seg.tok 2 0 4354 9, Seg.lit [' '], Seg.tok 3 0 4354 9, Seg.lit [')']]

/-- extracted from the C++ template at T = Sym; 1 path(s) -/
def Shear6.show {α : Type} (a : Shear6 α) : (List Seg) :=
  [Seg.lit ['('], Seg.tok 0 0 4098 6, Seg.lit [' '], Seg.tok 1 0 4098 6, Seg.lit [' '], Seg.tok 2 0 4098 6, Seg.lit [' '], Seg.tok 3 0 4098 6, Seg.lit [' '], Seg.tok 4 0 4098 6, Seg.lit [' '], Seg.tok 5 0 4098 6, Seg.lit [')']]

/-- extracted from the C++ template at T = Sym; 1 path(s) -/
def Shear6.showFixed {α : Type} (a : Shear6 α) : (List Seg) :=
  [Seg.lit ['('], Seg.tok 0 0 4102 3, Seg.lit [' '], Seg.tok 1 0 4102 3, Seg.lit [' '], Seg.tok 2 0 4102 3, Seg.lit [' '], Seg.tok 3 0 4102 3, Seg.lit [' '], Seg.tok 4 0 4102 3, Seg.lit [' '], Seg.tok 5 0 4102 3, Seg.lit [')']]

/-- extracted from the C++ template at T = Sym; 1 path(s) -/
def Shear6.showSci {α : Type} (a : Shear6 α) : (List Seg) :=
  [Seg.lit ['('], Seg.tok 0 0 4354 9, Seg.lit [' '], Seg.tok 1 0 4354 9, Seg.lit [' '], Seg.tok 2 0 4354 9, Seg.lit [' '], Seg.tok 3 0 4354 9, Seg.lit [' '], Seg.tok 4 0 4354 9, Seg.lit [' '], Seg.tok 5 0 4354 9, Seg.lit [')']]

/-- extracted from the C++ template at T = Sym; 1 path(s) -/
def Quat.show {α : Type} (a : Quat α) : (List Seg) :=
  [Seg.lit ['('], Seg.tok 0 0 4098 6, Seg.lit [' '], Seg.tok 1 0 4098 6, Seg.lit [' '], Seg.tok 2 0 4098 6, Seg.lit [' '], Seg.tok 3 0 4098 6, Seg.lit [')']]

/-- extracted from the C++ template at T = Sym; 1 path(s) -/
def Quat.showFixed {α : Type} (a : Quat α) : (List Seg) :=
  [Seg.lit ['('], Seg.tok 0 0 4102 3, Seg.lit [' '], Seg.tok 1 0 4102 3, Seg.lit [' '], Seg.tok 2 0 4102 3, Seg.lit [' '], Seg.tok 3 0 4102 3, Seg.lit [')']]

/-- extracted from the C++ template at T = Sym; 1 path(s) -/
def Quat.showSci {α : Type} (a : Quat α) : (List Seg) :=
  [Seg.lit ['('], Seg.tok 0 0 4354 9, Seg.lit [' '], Seg.tok 1 0 4354 9, Seg.lit [' '], Seg.tok 2 0 4354 9, Seg.lit [' '], Seg.tok 3 0 4354 9, Seg.lit [')']]

/-- extracted from the C++ template at T = Sym; 1 path(s) -/
def M22.show {α : Type} (a : M22 α) : (List Seg) :=
  [Seg.lit ['('], Seg.tok 0 14 5378 6, Seg.lit [' '], Seg.tok 1 14 5378 6, Seg.lit ['\n', ' '], Seg.tok 2 14 5378 6, Seg.lit [' '], Seg.tok 3 14 5378 6, Seg.lit [')', '\n']]

/-- extracted from the C++ template at T = Sym; 1 path(s) -/
def M22.showFixed {α : Type} (a : M22 α) : (List Seg) :=
  [Seg.lit ['('], Seg.tok 0 8 5126 3, Seg.lit [' '], Seg.tok 1 8 5126 3, Seg.lit ['\n', ' '], Seg.tok 2 8 5126 3, Seg.lit [' '], Seg.tok 3 8 5126 3, Seg.lit [')', '\n']]

/-- extracted from the C++ template at T = Sym; 1 path(s) -/
def M22.showSci {α : Type} (a : M22 α) : (List Seg) :=
  [Seg.lit ['('], Seg.tok 0 17 5378 9, Seg.lit [' '], Seg.tok 1 17 5378 9, Seg.lit ['\n', ' '], Seg.tok 2 17 5378 9, Seg.lit [' '], Seg.tok 3 17 5378 9, Seg.lit [')', '\n']]

/-- extracted from the C++ template at T = Sym; 1 path(s) -/
def M33.show {α : Type} (a : M33 α) : (List Seg) :=
  [Seg.lit ['('], Seg.tok 0 14 5378 6, Seg.lit [' '], Seg.tok 1 14 5378 6, Seg.lit [' '], Seg.tok 2 14 5378 6, Seg.lit ['\n', ' '], Seg.tok 3 14 5378 6, Seg.lit [' '], Seg.tok 4 14 5378 6, Seg.lit [' '], Seg.tok 5 14 5378 6, Seg.lit ['\n', ' '], Seg.tok 6 14 5378 6, Seg.lit [' '], Seg.tok 7 14 5378 6, Seg.lit [' '], Seg.tok 8 14 5378 6, Seg.lit [')', '\n']]

/-- extracted from the C++ template at T = Sym; 1 path(s) -/
def M33.showFixed {α : Type} (a : M33 α) : (List Seg) :=
  [Seg.lit ['('], Seg.tok 0 8 5126 3, Seg.lit [' '], Seg.tok 1 8 5126 3, Seg.lit [' '], Seg.tok 2 8 5126 3, Seg.lit ['\n', ' '], Seg.tok 3 8 5126 3, Seg.lit [' '], Seg.tok 4 8 5126 3, Seg.lit [' '], Seg.tok 5 8 5126 3, Seg.lit ['\n', ' '], Seg.tok 6 8 5126 3, Seg.lit [' '], Seg.tok 7 8 5126 3, Seg.lit [' '], Seg.tok 8 8 5126 3, Seg.lit [')', '\n']]

/-- extracted from the C++ template at T = Sym; 1 path(s) -/
def M33.showSci {α : Type} (a : M33 α) : (List Seg) :=
  [Seg.lit ['('], Seg.tok 0 17 5378 9, Seg.lit [' '], Seg.tok 1 17 5378 9, Seg.lit [' '], Seg.tok 2 17 5378 9, Seg.lit ['\n', ' '], Seg.tok 3 17 5378 9, Seg.lit [' '], Seg.tok 4 17 5378 9, Seg.lit [' '], Seg.tok 5 17 5378 9, Seg.lit ['\n', ' '], Seg.tok 6 17 5378 9, Seg.lit [' '], Seg.tok 7 17 5378 9, Seg.lit [' '], Seg.tok 8 17 5378 9, Seg.lit [')', '\n']]

/-- extracted from the C++ template at T = Sym; 1 path(s) -/
def M44.show {α : Type} (a : M44 α) : (List Seg) :=
  [Seg.lit ['('], Seg.tok 0 14 5378 6, Seg.lit [' '], Seg.tok 1 14 5378 6, Seg.lit [' '], Seg.tok 2 14 5378 6, Seg.lit [' '], Seg.tok 3 14 5378 6, Seg.lit ['\n', ' '], Seg.tok 4 14 5378 6, Seg.lit [' '], Seg.tok 5 14 5378 6, Seg.lit [' '], Seg.tok 6 14 5378 6, Seg.lit [' '], Seg.tok 7 14 5378 6, Seg.lit ['\n', ' '], Seg.tok 8 14 5378 6, Seg.lit [' '], Seg.tok 9 14 5378 6, Seg.lit [' '], Seg.tok 10 14 5378 6, Seg.lit [' '], Seg.tok 11 14 5378 6, Seg.lit ['\n', ' '], Seg.tok 12 14 5378 6, Seg.lit [' '], Seg.tok 13 14 5378 6, Seg.lit [' '], Seg.tok 14 14 5378 6, Seg.lit [' '], Seg.tok 15 14 5378 6, Seg.lit [')', '\n']]

/-- extracted from the C++ template at T = Sym; 1 path(s) -/
def M44.showFixed {α : Type} (a : M44 α) : (List Seg) :=
  [Seg.lit ['('], Seg.tok 0 8 5126 3, Seg.lit [' '], Seg.tok 1 8 5126 3, Seg.lit [' '], Seg.tok 2 8 5126 3, Seg.lit [' '], Seg.tok 3 8 5126 3, Seg.lit ['\n', ' '], Seg.tok 4 8 5126 3, Seg.lit [' '], Seg.tok 5 8 5126 3, Seg.lit [' '], Seg.tok 6 8 5126 3, Seg.lit [' '], Seg.tok 7 8 5126 3, Seg.lit ['\n', ' '], Seg.tok 8 8 5126 3, Seg.lit [' '], Seg.tok 9 8 5126 3, Seg.lit [' '], Seg.tok 10 8 5126 3, Seg.lit [' '], Seg.tok 11 8 5126 3, Seg.lit ['\n', ' '], Seg.tok 12 8 5126 3, Seg.lit [' '], Seg.tok 13 8 5126 3, Seg.lit [' '], Seg.tok 14 8 5126 3, Seg.lit [' '], Seg.tok 15 8 5126 3, Seg.lit [')', '\n']]

/-- extracted from the C++ template at T = Sym; 1 path(s) -/
def M44.showSci {α : Type} (a : M44 α) : (List Seg) :=
  [Seg.lit ['('], Seg.tok 0 17 5378 9, Seg.lit [' '], Seg.tok 1 17 5378 9, Seg.lit [' '], Seg.tok 2 17 5378 9, Seg.lit [' '], Seg.tok 3 17 5378 9, Seg.lit ['\n', ' '], Seg.tok 4 17 5378 9, Seg.lit [' '], Seg.tok 5 17 5378 9, Seg.lit [' '], Seg.tok 6 17 5378 9, Seg.lit [' '], Seg.tok 7 17 5378 9, Seg.lit ['\n', ' '], Seg.tok 8 17 5378 9, Seg.lit [' '], Seg.tok 9 17 5378 9, Seg.lit [' '], Seg.tok 10 17 5378 9, Seg.lit [' '], Seg.tok 11 17 5378 9, Seg.lit ['\n', ' '], Seg.tok 12 17 5378 9, Seg.lit [' '], Seg.tok 13 17 5378 9, Seg.lit [' '], Seg.tok 14 17 5378 9, Seg.lit [' '], Seg.tok 15 17 5378 9, Seg.lit [')', '\n']]

/-- extracted from the C++ template at T = Sym; 1 path(s) -/
def V2.showKeepsState {α : Type} (a : V2 α) : Bool :=
  true

/-- extracted from the C++ template at T = Sym; 1 path(s) -/
def V3.showKeepsState {α : Type} (a : V3 α) : Bool :=
  true

/-- extracted from the C++ template at T = Sym; 1 path(s) -/
def V4.showKeepsState {α : Type} (a : V4 α) : Bool :=
  true

/-- extracted from the C++ template at T = Sym; 1 path(s) -/
def C3.showKeepsState {α : Type} (a : V3 α) : Bool :=
  true

/-- extracted from the C++ template at T = Sym; 1 path(s) -/
def C4.showKeepsState {α : Type} (a : C4 α) : Bool :=
  true

/-- extracted from the C++ template at T = Sym; 1 path(s) -/
def Shear6.showKeepsState {α : Type} (a : Shear6 α) : Bool :=
  true

/-- extracted from the C++ template at T = Sym; 1 path(s) -/
def Quat.showKeepsState {α : Type} (a : Quat α) : Bool :=
  true

/-- extracted from the C++ template at T = Sym; 1 path(s) -/
def M22.showKeepsState {α : Type} (a : M22 α) : Bool :=
  true

/-- extracted from the C++ template at T = Sym; 1 path(s) -/
def M33.showKeepsState {α : Type} (a : M33 α) : Bool :=
  true

/-- extracted from the C++ template at T = Sym; 1 path(s) -/
def M44.showKeepsState {α : Type} (a : M44 α) : Bool :=
  true

end ImathVerif.Gen
