-- GENERATED from /repo/src/Imath by harness/sym (T = Sym path extraction); do not edit.
import ImathVerif.Basic.Types
import ImathVerif.Gen.Leaf
set_option linter.unusedVariables false
namespace ImathVerif.Gen
open ImathVerif

/-- extracted from the C++ template at T = Sym; 2 path(s) -/
def Frustum.planesM_persp_0 {α : Type} [Add α] [Sub α] [Mul α] [Div α] [Neg α] [LT α] [LE α] [DecidableLT α] [DecidableLE α] [DecidableEq α] [OfNat α 0] [OfNat α 2] (tmin : α) (tmax : α) (sqrt : α → α) (n : α) (f : α) (l : α) (r : α) (t : α) (b : α) (M : M44 α) : (Plane3 α) :=
  let t24 := (-n)
  let t25 := (t24 * M.x20)
  let t31 := (t24 * M.x21)
  let t37 := (t24 * M.x22)
  let t43 := (t24 * M.x23)
  let t52 := (t * M.x10)
  let t56 := (t * M.x11)
  let t60 := (t * M.x12)
  let t64 := (t * M.x13)
  let t67 := ((((l * M.x03) + t64) + t43) + M.x33)
  let t86 := ((((r * M.x03) + t64) + t43) + M.x33)
  let t199 := (((((0 : α) * M.x03) + ((0 : α) * M.x13)) + ((0 : α) * M.x23)) + M.x33)
  let t200 := ((((((0 : α) * M.x02) + ((0 : α) * M.x12)) + ((0 : α) * M.x22)) + M.x32) / t199)
  let t201 := ((((((0 : α) * M.x01) + ((0 : α) * M.x11)) + ((0 : α) * M.x21)) + M.x31) / t199)
  let t202 := ((((((0 : α) * M.x00) + ((0 : α) * M.x10)) + ((0 : α) * M.x20)) + M.x30) / t199)
  let t203 := ((((((l * M.x02) + t60) + t37) + M.x32) / t67) - t200)
  let t204 := ((((((l * M.x01) + t56) + t31) + M.x31) / t67) - t201)
  let t205 := ((((((l * M.x00) + t52) + t25) + M.x30) / t67) - t202)
  let t206 := ((((((r * M.x02) + t60) + t37) + M.x32) / t86) - t200)
  let t207 := ((((((r * M.x01) + t56) + t31) + M.x31) / t86) - t201)
  let t208 := ((((((r * M.x00) + t52) + t25) + M.x30) / t86) - t202)
  let t211 := ((t208 * t204) - (t207 * t205))
  let t214 := ((t206 * t205) - (t208 * t203))
  let t217 := ((t207 * t203) - (t206 * t204))
  let t218 := (V3.length tmin tmax sqrt ⟨t217, t214, t211⟩)
  let t224 := (t217 / t218)
  let t225 := (t214 / t218)
  let t226 := (t211 / t218)
  if t218 = (0 : α) then
    ⟨⟨t217, t214, t211⟩, (((t217 * t202) + (t214 * t201)) + (t211 * t200))⟩
  else
    ⟨⟨t224, t225, t226⟩, (((t224 * t202) + (t225 * t201)) + (t226 * t200))⟩

/-- extracted from the C++ template at T = Sym; 2 path(s) -/
def Frustum.planesM_persp_1 {α : Type} [Add α] [Sub α] [Mul α] [Div α] [Neg α] [LT α] [LE α] [DecidableLT α] [DecidableLE α] [DecidableEq α] [OfNat α 0] [OfNat α 2] (tmin : α) (tmax : α) (sqrt : α → α) (n : α) (f : α) (l : α) (r : α) (t : α) (b : α) (M : M44 α) : (Plane3 α) :=
  let t24 := (-n)
  let t25 := (t24 * M.x20)
  let t31 := (t24 * M.x21)
  let t37 := (t24 * M.x22)
  let t43 := (t24 * M.x23)
  let t71 := (r * M.x00)
  let t75 := (r * M.x01)
  let t79 := (r * M.x02)
  let t83 := (r * M.x03)
  let t86 := (((t83 + (t * M.x13)) + t43) + M.x33)
  let t101 := (((t83 + (b * M.x13)) + t43) + M.x33)
  let t199 := (((((0 : α) * M.x03) + ((0 : α) * M.x13)) + ((0 : α) * M.x23)) + M.x33)
  let t200 := ((((((0 : α) * M.x02) + ((0 : α) * M.x12)) + ((0 : α) * M.x22)) + M.x32) / t199)
  let t201 := ((((((0 : α) * M.x01) + ((0 : α) * M.x11)) + ((0 : α) * M.x21)) + M.x31) / t199)
  let t202 := ((((((0 : α) * M.x00) + ((0 : α) * M.x10)) + ((0 : α) * M.x20)) + M.x30) / t199)
  let t206 := (((((t79 + (t * M.x12)) + t37) + M.x32) / t86) - t200)
  let t207 := (((((t75 + (t * M.x11)) + t31) + M.x31) / t86) - t201)
  let t208 := (((((t71 + (t * M.x10)) + t25) + M.x30) / t86) - t202)
  let t232 := (((((t79 + (b * M.x12)) + t37) + M.x32) / t101) - t200)
  let t233 := (((((t75 + (b * M.x11)) + t31) + M.x31) / t101) - t201)
  let t234 := (((((t71 + (b * M.x10)) + t25) + M.x30) / t101) - t202)
  let t237 := ((t234 * t207) - (t233 * t208))
  let t240 := ((t232 * t208) - (t234 * t206))
  let t243 := ((t233 * t206) - (t232 * t207))
  let t244 := (V3.length tmin tmax sqrt ⟨t243, t240, t237⟩)
  let t250 := (t243 / t244)
  let t251 := (t240 / t244)
  let t252 := (t237 / t244)
  if t244 = (0 : α) then
    ⟨⟨t243, t240, t237⟩, (((t243 * t202) + (t240 * t201)) + (t237 * t200))⟩
  else
    ⟨⟨t250, t251, t252⟩, (((t250 * t202) + (t251 * t201)) + (t252 * t200))⟩

/-- extracted from the C++ template at T = Sym; 2 path(s) -/
def Frustum.planesM_persp_2 {α : Type} [Add α] [Sub α] [Mul α] [Div α] [Neg α] [LT α] [LE α] [DecidableLT α] [DecidableLE α] [DecidableEq α] [OfNat α 0] [OfNat α 2] (tmin : α) (tmax : α) (sqrt : α → α) (n : α) (f : α) (l : α) (r : α) (t : α) (b : α) (M : M44 α) : (Plane3 α) :=
  let t24 := (-n)
  let t25 := (t24 * M.x20)
  let t26 := (b * M.x10)
  let t31 := (t24 * M.x21)
  let t32 := (b * M.x11)
  let t37 := (t24 * M.x22)
  let t38 := (b * M.x12)
  let t43 := (t24 * M.x23)
  let t44 := (b * M.x13)
  let t48 := ((((l * M.x03) + t44) + t43) + M.x33)
  let t101 := ((((r * M.x03) + t44) + t43) + M.x33)
  let t199 := (((((0 : α) * M.x03) + ((0 : α) * M.x13)) + ((0 : α) * M.x23)) + M.x33)
  let t200 := ((((((0 : α) * M.x02) + ((0 : α) * M.x12)) + ((0 : α) * M.x22)) + M.x32) / t199)
  let t201 := ((((((0 : α) * M.x01) + ((0 : α) * M.x11)) + ((0 : α) * M.x21)) + M.x31) / t199)
  let t202 := ((((((0 : α) * M.x00) + ((0 : α) * M.x10)) + ((0 : α) * M.x20)) + M.x30) / t199)
  let t232 := ((((((r * M.x02) + t38) + t37) + M.x32) / t101) - t200)
  let t233 := ((((((r * M.x01) + t32) + t31) + M.x31) / t101) - t201)
  let t234 := ((((((r * M.x00) + t26) + t25) + M.x30) / t101) - t202)
  let t258 := ((((((l * M.x02) + t38) + t37) + M.x32) / t48) - t200)
  let t259 := ((((((l * M.x01) + t32) + t31) + M.x31) / t48) - t201)
  let t260 := ((((((l * M.x00) + t26) + t25) + M.x30) / t48) - t202)
  let t263 := ((t260 * t233) - (t259 * t234))
  let t266 := ((t258 * t234) - (t260 * t232))
  let t269 := ((t259 * t232) - (t258 * t233))
  let t270 := (V3.length tmin tmax sqrt ⟨t269, t266, t263⟩)
  let t276 := (t269 / t270)
  let t277 := (t266 / t270)
  let t278 := (t263 / t270)
  if t270 = (0 : α) then
    ⟨⟨t269, t266, t263⟩, (((t269 * t202) + (t266 * t201)) + (t263 * t200))⟩
  else
    ⟨⟨t276, t277, t278⟩, (((t276 * t202) + (t277 * t201)) + (t278 * t200))⟩

/-- extracted from the C++ template at T = Sym; 2 path(s) -/
def Frustum.planesM_persp_3 {α : Type} [Add α] [Sub α] [Mul α] [Div α] [Neg α] [LT α] [LE α] [DecidableLT α] [DecidableLE α] [DecidableEq α] [OfNat α 0] [OfNat α 2] (tmin : α) (tmax : α) (sqrt : α → α) (n : α) (f : α) (l : α) (r : α) (t : α) (b : α) (M : M44 α) : (Plane3 α) :=
  let t24 := (-n)
  let t25 := (t24 * M.x20)
  let t27 := (l * M.x00)
  let t31 := (t24 * M.x21)
  let t33 := (l * M.x01)
  let t37 := (t24 * M.x22)
  let t39 := (l * M.x02)
  let t43 := (t24 * M.x23)
  let t45 := (l * M.x03)
  let t48 := (((t45 + (b * M.x13)) + t43) + M.x33)
  let t67 := (((t45 + (t * M.x13)) + t43) + M.x33)
  let t199 := (((((0 : α) * M.x03) + ((0 : α) * M.x13)) + ((0 : α) * M.x23)) + M.x33)
  let t200 := ((((((0 : α) * M.x02) + ((0 : α) * M.x12)) + ((0 : α) * M.x22)) + M.x32) / t199)
  let t201 := ((((((0 : α) * M.x01) + ((0 : α) * M.x11)) + ((0 : α) * M.x21)) + M.x31) / t199)
  let t202 := ((((((0 : α) * M.x00) + ((0 : α) * M.x10)) + ((0 : α) * M.x20)) + M.x30) / t199)
  let t203 := (((((t39 + (t * M.x12)) + t37) + M.x32) / t67) - t200)
  let t204 := (((((t33 + (t * M.x11)) + t31) + M.x31) / t67) - t201)
  let t205 := (((((t27 + (t * M.x10)) + t25) + M.x30) / t67) - t202)
  let t258 := (((((t39 + (b * M.x12)) + t37) + M.x32) / t48) - t200)
  let t259 := (((((t33 + (b * M.x11)) + t31) + M.x31) / t48) - t201)
  let t260 := (((((t27 + (b * M.x10)) + t25) + M.x30) / t48) - t202)
  let t286 := ((t205 * t259) - (t204 * t260))
  let t289 := ((t203 * t260) - (t205 * t258))
  let t292 := ((t204 * t258) - (t203 * t259))
  let t293 := (V3.length tmin tmax sqrt ⟨t292, t289, t286⟩)
  let t299 := (t292 / t293)
  let t300 := (t289 / t293)
  let t301 := (t286 / t293)
  if t293 = (0 : α) then
    ⟨⟨t292, t289, t286⟩, (((t292 * t202) + (t289 * t201)) + (t286 * t200))⟩
  else
    ⟨⟨t299, t300, t301⟩, (((t299 * t202) + (t300 * t201)) + (t301 * t200))⟩

/-- extracted from the C++ template at T = Sym; 2 path(s) -/
def Frustum.planesM_persp_4 {α : Type} [Add α] [Sub α] [Mul α] [Div α] [Neg α] [LT α] [LE α] [DecidableLT α] [DecidableLE α] [DecidableEq α] [OfNat α 0] [OfNat α 2] (tmin : α) (tmax : α) (sqrt : α → α) (n : α) (f : α) (l : α) (r : α) (t : α) (b : α) (M : M44 α) : (Plane3 α) :=
  let t24 := (-n)
  let t25 := (t24 * M.x20)
  let t26 := (b * M.x10)
  let t31 := (t24 * M.x21)
  let t32 := (b * M.x11)
  let t37 := (t24 * M.x22)
  let t38 := (b * M.x12)
  let t43 := (t24 * M.x23)
  let t44 := (b * M.x13)
  let t48 := ((((l * M.x03) + t44) + t43) + M.x33)
  let t49 := (((((l * M.x02) + t38) + t37) + M.x32) / t48)
  let t50 := (((((l * M.x01) + t32) + t31) + M.x31) / t48)
  let t51 := (((((l * M.x00) + t26) + t25) + M.x30) / t48)
  let t71 := (r * M.x00)
  let t75 := (r * M.x01)
  let t79 := (r * M.x02)
  let t83 := (r * M.x03)
  let t86 := (((t83 + (t * M.x13)) + t43) + M.x33)
  let t101 := (((t83 + t44) + t43) + M.x33)
  let t307 := (((((t79 + (t * M.x12)) + t37) + M.x32) / t86) - t49)
  let t308 := (((((t75 + (t * M.x11)) + t31) + M.x31) / t86) - t50)
  let t309 := (((((t71 + (t * M.x10)) + t25) + M.x30) / t86) - t51)
  let t310 := (((((t79 + t38) + t37) + M.x32) / t101) - t49)
  let t311 := (((((t75 + t32) + t31) + M.x31) / t101) - t50)
  let t312 := (((((t71 + t26) + t25) + M.x30) / t101) - t51)
  let t315 := ((t312 * t308) - (t311 * t309))
  let t318 := ((t310 * t309) - (t312 * t307))
  let t321 := ((t311 * t307) - (t310 * t308))
  let t322 := (V3.length tmin tmax sqrt ⟨t321, t318, t315⟩)
  let t328 := (t321 / t322)
  let t329 := (t318 / t322)
  let t330 := (t315 / t322)
  if t322 = (0 : α) then
    ⟨⟨t321, t318, t315⟩, (((t321 * t51) + (t318 * t50)) + (t315 * t49))⟩
  else
    ⟨⟨t328, t329, t330⟩, (((t328 * t51) + (t329 * t50)) + (t330 * t49))⟩

/-- extracted from the C++ template at T = Sym; 2 path(s) -/
def Frustum.planesM_persp_5 {α : Type} [Add α] [Sub α] [Mul α] [Div α] [Neg α] [LT α] [LE α] [DecidableLT α] [DecidableLE α] [DecidableEq α] [OfNat α 0] [OfNat α 2] (tmin : α) (tmax : α) (sqrt : α → α) (n : α) (f : α) (l : α) (r : α) (t : α) (b : α) (M : M44 α) : (Plane3 α) :=
  let t105 := (f / n)
  let t106 := (t105 * l)
  let t107 := (t105 * r)
  let t108 := (t105 * t)
  let t109 := (t105 * b)
  let t110 := (-f)
  let t111 := (t110 * M.x20)
  let t113 := (t106 * M.x00)
  let t117 := (t110 * M.x21)
  let t119 := (t106 * M.x01)
  let t123 := (t110 * M.x22)
  let t125 := (t106 * M.x02)
  let t129 := (t110 * M.x23)
  let t131 := (t106 * M.x03)
  let t134 := (((t131 + (t109 * M.x13)) + t129) + M.x33)
  let t135 := ((((t125 + (t109 * M.x12)) + t123) + M.x32) / t134)
  let t136 := ((((t119 + (t109 * M.x11)) + t117) + M.x31) / t134)
  let t137 := ((((t113 + (t109 * M.x10)) + t111) + M.x30) / t134)
  let t138 := (t108 * M.x10)
  let t142 := (t108 * M.x11)
  let t146 := (t108 * M.x12)
  let t150 := (t108 * M.x13)
  let t153 := (((t131 + t150) + t129) + M.x33)
  let t172 := ((((t107 * M.x03) + t150) + t129) + M.x33)
  let t336 := ((((((t107 * M.x02) + t146) + t123) + M.x32) / t172) - t135)
  let t337 := ((((((t107 * M.x01) + t142) + t117) + M.x31) / t172) - t136)
  let t338 := ((((((t107 * M.x00) + t138) + t111) + M.x30) / t172) - t137)
  let t339 := (((((t125 + t146) + t123) + M.x32) / t153) - t135)
  let t340 := (((((t119 + t142) + t117) + M.x31) / t153) - t136)
  let t341 := (((((t113 + t138) + t111) + M.x30) / t153) - t137)
  let t344 := ((t341 * t337) - (t340 * t338))
  let t347 := ((t339 * t338) - (t341 * t336))
  let t350 := ((t340 * t336) - (t339 * t337))
  let t351 := (V3.length tmin tmax sqrt ⟨t350, t347, t344⟩)
  let t357 := (t350 / t351)
  let t358 := (t347 / t351)
  let t359 := (t344 / t351)
  if t351 = (0 : α) then
    ⟨⟨t350, t347, t344⟩, (((t350 * t137) + (t347 * t136)) + (t344 * t135))⟩
  else
    ⟨⟨t357, t358, t359⟩, (((t357 * t137) + (t358 * t136)) + (t359 * t135))⟩

/-- extracted from the C++ template at T = Sym; 2 path(s) -/
def Frustum.planesM_ortho_0 {α : Type} [Add α] [Sub α] [Mul α] [Div α] [Neg α] [LT α] [LE α] [DecidableLT α] [DecidableLE α] [DecidableEq α] [OfNat α 0] [OfNat α 2] (tmin : α) (tmax : α) (sqrt : α → α) (n : α) (f : α) (l : α) (r : α) (t : α) (b : α) (M : M44 α) : (Plane3 α) :=
  let t24 := (-n)
  let t52 := (t * M.x10)
  let t56 := (t * M.x11)
  let t60 := (t * M.x12)
  let t64 := (t * M.x13)
  let t72 := ((r * M.x00) + t52)
  let t76 := ((r * M.x01) + t56)
  let t80 := ((r * M.x02) + t60)
  let t84 := ((r * M.x03) + t64)
  let t86 := ((t84 + (t24 * M.x23)) + M.x33)
  let t87 := (((t80 + (t24 * M.x22)) + M.x32) / t86)
  let t88 := (((t76 + (t24 * M.x21)) + M.x31) / t86)
  let t89 := (((t72 + (t24 * M.x20)) + M.x30) / t86)
  let t110 := (-f)
  let t111 := (t110 * M.x20)
  let t117 := (t110 * M.x21)
  let t123 := (t110 * M.x22)
  let t129 := (t110 * M.x23)
  let t383 := ((((l * M.x03) + t64) + t129) + M.x33)
  let t394 := ((t84 + t129) + M.x33)
  let t409 := ((((((l * M.x02) + t60) + t123) + M.x32) / t383) - t87)
  let t410 := ((((((l * M.x01) + t56) + t117) + M.x31) / t383) - t88)
  let t411 := ((((((l * M.x00) + t52) + t111) + M.x30) / t383) - t89)
  let t412 := ((((t80 + t123) + M.x32) / t394) - t87)
  let t413 := ((((t76 + t117) + M.x31) / t394) - t88)
  let t414 := ((((t72 + t111) + M.x30) / t394) - t89)
  let t417 := ((t414 * t410) - (t413 * t411))
  let t420 := ((t412 * t411) - (t414 * t409))
  let t423 := ((t413 * t409) - (t412 * t410))
  let t424 := (V3.length tmin tmax sqrt ⟨t423, t420, t417⟩)
  let t430 := (t423 / t424)
  let t431 := (t420 / t424)
  let t432 := (t417 / t424)
  if t424 = (0 : α) then
    ⟨⟨t423, t420, t417⟩, (((t423 * t89) + (t420 * t88)) + (t417 * t87))⟩
  else
    ⟨⟨t430, t431, t432⟩, (((t430 * t89) + (t431 * t88)) + (t432 * t87))⟩

/-- extracted from the C++ template at T = Sym; 2 path(s) -/
def Frustum.planesM_ortho_1 {α : Type} [Add α] [Sub α] [Mul α] [Div α] [Neg α] [LT α] [LE α] [DecidableLT α] [DecidableLE α] [DecidableEq α] [OfNat α 0] [OfNat α 2] (tmin : α) (tmax : α) (sqrt : α → α) (n : α) (f : α) (l : α) (r : α) (t : α) (b : α) (M : M44 α) : (Plane3 α) :=
  let t24 := (-n)
  let t71 := (r * M.x00)
  let t75 := (r * M.x01)
  let t79 := (r * M.x02)
  let t83 := (r * M.x03)
  let t90 := (t71 + (b * M.x10))
  let t93 := (t75 + (b * M.x11))
  let t96 := (t79 + (b * M.x12))
  let t99 := (t83 + (b * M.x13))
  let t101 := ((t99 + (t24 * M.x23)) + M.x33)
  let t102 := (((t96 + (t24 * M.x22)) + M.x32) / t101)
  let t103 := (((t93 + (t24 * M.x21)) + M.x31) / t101)
  let t104 := (((t90 + (t24 * M.x20)) + M.x30) / t101)
  let t110 := (-f)
  let t111 := (t110 * M.x20)
  let t117 := (t110 * M.x21)
  let t123 := (t110 * M.x22)
  let t129 := (t110 * M.x23)
  let t394 := (((t83 + (t * M.x13)) + t129) + M.x33)
  let t405 := ((t99 + t129) + M.x33)
  let t438 := (((((t79 + (t * M.x12)) + t123) + M.x32) / t394) - t102)
  let t439 := (((((t75 + (t * M.x11)) + t117) + M.x31) / t394) - t103)
  let t440 := (((((t71 + (t * M.x10)) + t111) + M.x30) / t394) - t104)
  let t441 := ((((t96 + t123) + M.x32) / t405) - t102)
  let t442 := ((((t93 + t117) + M.x31) / t405) - t103)
  let t443 := ((((t90 + t111) + M.x30) / t405) - t104)
  let t446 := ((t443 * t439) - (t442 * t440))
  let t449 := ((t441 * t440) - (t443 * t438))
  let t452 := ((t442 * t438) - (t441 * t439))
  let t453 := (V3.length tmin tmax sqrt ⟨t452, t449, t446⟩)
  let t459 := (t452 / t453)
  let t460 := (t449 / t453)
  let t461 := (t446 / t453)
  if t453 = (0 : α) then
    ⟨⟨t452, t449, t446⟩, (((t452 * t104) + (t449 * t103)) + (t446 * t102))⟩
  else
    ⟨⟨t459, t460, t461⟩, (((t459 * t104) + (t460 * t103)) + (t461 * t102))⟩

/-- extracted from the C++ template at T = Sym; 2 path(s) -/
def Frustum.planesM_ortho_2 {α : Type} [Add α] [Sub α] [Mul α] [Div α] [Neg α] [LT α] [LE α] [DecidableLT α] [DecidableLE α] [DecidableEq α] [OfNat α 0] [OfNat α 2] (tmin : α) (tmax : α) (sqrt : α → α) (n : α) (f : α) (l : α) (r : α) (t : α) (b : α) (M : M44 α) : (Plane3 α) :=
  let t24 := (-n)
  let t26 := (b * M.x10)
  let t28 := ((l * M.x00) + t26)
  let t32 := (b * M.x11)
  let t34 := ((l * M.x01) + t32)
  let t38 := (b * M.x12)
  let t40 := ((l * M.x02) + t38)
  let t44 := (b * M.x13)
  let t46 := ((l * M.x03) + t44)
  let t48 := ((t46 + (t24 * M.x23)) + M.x33)
  let t49 := (((t40 + (t24 * M.x22)) + M.x32) / t48)
  let t50 := (((t34 + (t24 * M.x21)) + M.x31) / t48)
  let t51 := (((t28 + (t24 * M.x20)) + M.x30) / t48)
  let t110 := (-f)
  let t111 := (t110 * M.x20)
  let t117 := (t110 * M.x21)
  let t123 := (t110 * M.x22)
  let t129 := (t110 * M.x23)
  let t372 := ((t46 + t129) + M.x33)
  let t405 := ((((r * M.x03) + t44) + t129) + M.x33)
  let t467 := ((((((r * M.x02) + t38) + t123) + M.x32) / t405) - t49)
  let t468 := ((((((r * M.x01) + t32) + t117) + M.x31) / t405) - t50)
  let t469 := ((((((r * M.x00) + t26) + t111) + M.x30) / t405) - t51)
  let t470 := ((((t40 + t123) + M.x32) / t372) - t49)
  let t471 := ((((t34 + t117) + M.x31) / t372) - t50)
  let t472 := ((((t28 + t111) + M.x30) / t372) - t51)
  let t475 := ((t472 * t468) - (t471 * t469))
  let t478 := ((t470 * t469) - (t472 * t467))
  let t481 := ((t471 * t467) - (t470 * t468))
  let t482 := (V3.length tmin tmax sqrt ⟨t481, t478, t475⟩)
  let t488 := (t481 / t482)
  let t489 := (t478 / t482)
  let t490 := (t475 / t482)
  if t482 = (0 : α) then
    ⟨⟨t481, t478, t475⟩, (((t481 * t51) + (t478 * t50)) + (t475 * t49))⟩
  else
    ⟨⟨t488, t489, t490⟩, (((t488 * t51) + (t489 * t50)) + (t490 * t49))⟩

/-- extracted from the C++ template at T = Sym; 2 path(s) -/
def Frustum.planesM_ortho_3 {α : Type} [Add α] [Sub α] [Mul α] [Div α] [Neg α] [LT α] [LE α] [DecidableLT α] [DecidableLE α] [DecidableEq α] [OfNat α 0] [OfNat α 2] (tmin : α) (tmax : α) (sqrt : α → α) (n : α) (f : α) (l : α) (r : α) (t : α) (b : α) (M : M44 α) : (Plane3 α) :=
  let t24 := (-n)
  let t27 := (l * M.x00)
  let t33 := (l * M.x01)
  let t39 := (l * M.x02)
  let t45 := (l * M.x03)
  let t53 := (t27 + (t * M.x10))
  let t57 := (t33 + (t * M.x11))
  let t61 := (t39 + (t * M.x12))
  let t65 := (t45 + (t * M.x13))
  let t67 := ((t65 + (t24 * M.x23)) + M.x33)
  let t68 := (((t61 + (t24 * M.x22)) + M.x32) / t67)
  let t69 := (((t57 + (t24 * M.x21)) + M.x31) / t67)
  let t70 := (((t53 + (t24 * M.x20)) + M.x30) / t67)
  let t110 := (-f)
  let t111 := (t110 * M.x20)
  let t117 := (t110 * M.x21)
  let t123 := (t110 * M.x22)
  let t129 := (t110 * M.x23)
  let t372 := (((t45 + (b * M.x13)) + t129) + M.x33)
  let t383 := ((t65 + t129) + M.x33)
  let t496 := (((((t39 + (b * M.x12)) + t123) + M.x32) / t372) - t68)
  let t497 := (((((t33 + (b * M.x11)) + t117) + M.x31) / t372) - t69)
  let t498 := (((((t27 + (b * M.x10)) + t111) + M.x30) / t372) - t70)
  let t499 := ((((t61 + t123) + M.x32) / t383) - t68)
  let t500 := ((((t57 + t117) + M.x31) / t383) - t69)
  let t501 := ((((t53 + t111) + M.x30) / t383) - t70)
  let t504 := ((t501 * t497) - (t500 * t498))
  let t507 := ((t499 * t498) - (t501 * t496))
  let t510 := ((t500 * t496) - (t499 * t497))
  let t511 := (V3.length tmin tmax sqrt ⟨t510, t507, t504⟩)
  let t517 := (t510 / t511)
  let t518 := (t507 / t511)
  let t519 := (t504 / t511)
  if t511 = (0 : α) then
    ⟨⟨t510, t507, t504⟩, (((t510 * t70) + (t507 * t69)) + (t504 * t68))⟩
  else
    ⟨⟨t517, t518, t519⟩, (((t517 * t70) + (t518 * t69)) + (t519 * t68))⟩

/-- extracted from the C++ template at T = Sym; 2 path(s) -/
def Frustum.planesM_ortho_4 {α : Type} [Add α] [Sub α] [Mul α] [Div α] [Neg α] [LT α] [LE α] [DecidableLT α] [DecidableLE α] [DecidableEq α] [OfNat α 0] [OfNat α 2] (tmin : α) (tmax : α) (sqrt : α → α) (n : α) (f : α) (l : α) (r : α) (t : α) (b : α) (M : M44 α) : (Plane3 α) :=
  let t24 := (-n)
  let t25 := (t24 * M.x20)
  let t26 := (b * M.x10)
  let t31 := (t24 * M.x21)
  let t32 := (b * M.x11)
  let t37 := (t24 * M.x22)
  let t38 := (b * M.x12)
  let t43 := (t24 * M.x23)
  let t44 := (b * M.x13)
  let t48 := ((((l * M.x03) + t44) + t43) + M.x33)
  let t49 := (((((l * M.x02) + t38) + t37) + M.x32) / t48)
  let t50 := (((((l * M.x01) + t32) + t31) + M.x31) / t48)
  let t51 := (((((l * M.x00) + t26) + t25) + M.x30) / t48)
  let t71 := (r * M.x00)
  let t75 := (r * M.x01)
  let t79 := (r * M.x02)
  let t83 := (r * M.x03)
  let t86 := (((t83 + (t * M.x13)) + t43) + M.x33)
  let t101 := (((t83 + t44) + t43) + M.x33)
  let t307 := (((((t79 + (t * M.x12)) + t37) + M.x32) / t86) - t49)
  let t308 := (((((t75 + (t * M.x11)) + t31) + M.x31) / t86) - t50)
  let t309 := (((((t71 + (t * M.x10)) + t25) + M.x30) / t86) - t51)
  let t310 := (((((t79 + t38) + t37) + M.x32) / t101) - t49)
  let t311 := (((((t75 + t32) + t31) + M.x31) / t101) - t50)
  let t312 := (((((t71 + t26) + t25) + M.x30) / t101) - t51)
  let t315 := ((t312 * t308) - (t311 * t309))
  let t318 := ((t310 * t309) - (t312 * t307))
  let t321 := ((t311 * t307) - (t310 * t308))
  let t322 := (V3.length tmin tmax sqrt ⟨t321, t318, t315⟩)
  let t328 := (t321 / t322)
  let t329 := (t318 / t322)
  let t330 := (t315 / t322)
  if t322 = (0 : α) then
    ⟨⟨t321, t318, t315⟩, (((t321 * t51) + (t318 * t50)) + (t315 * t49))⟩
  else
    ⟨⟨t328, t329, t330⟩, (((t328 * t51) + (t329 * t50)) + (t330 * t49))⟩

/-- extracted from the C++ template at T = Sym; 2 path(s) -/
def Frustum.planesM_ortho_5 {α : Type} [Add α] [Sub α] [Mul α] [Div α] [Neg α] [LT α] [LE α] [DecidableLT α] [DecidableLE α] [DecidableEq α] [OfNat α 0] [OfNat α 2] (tmin : α) (tmax : α) (sqrt : α → α) (n : α) (f : α) (l : α) (r : α) (t : α) (b : α) (M : M44 α) : (Plane3 α) :=
  let t27 := (l * M.x00)
  let t33 := (l * M.x01)
  let t39 := (l * M.x02)
  let t45 := (l * M.x03)
  let t52 := (t * M.x10)
  let t56 := (t * M.x11)
  let t60 := (t * M.x12)
  let t64 := (t * M.x13)
  let t110 := (-f)
  let t111 := (t110 * M.x20)
  let t117 := (t110 * M.x21)
  let t123 := (t110 * M.x22)
  let t129 := (t110 * M.x23)
  let t372 := (((t45 + (b * M.x13)) + t129) + M.x33)
  let t373 := ((((t39 + (b * M.x12)) + t123) + M.x32) / t372)
  let t374 := ((((t33 + (b * M.x11)) + t117) + M.x31) / t372)
  let t375 := ((((t27 + (b * M.x10)) + t111) + M.x30) / t372)
  let t383 := (((t45 + t64) + t129) + M.x33)
  let t394 := ((((r * M.x03) + t64) + t129) + M.x33)
  let t525 := ((((((r * M.x02) + t60) + t123) + M.x32) / t394) - t373)
  let t526 := ((((((r * M.x01) + t56) + t117) + M.x31) / t394) - t374)
  let t527 := ((((((r * M.x00) + t52) + t111) + M.x30) / t394) - t375)
  let t528 := (((((t39 + t60) + t123) + M.x32) / t383) - t373)
  let t529 := (((((t33 + t56) + t117) + M.x31) / t383) - t374)
  let t530 := (((((t27 + t52) + t111) + M.x30) / t383) - t375)
  let t533 := ((t530 * t526) - (t529 * t527))
  let t536 := ((t528 * t527) - (t530 * t525))
  let t539 := ((t529 * t525) - (t528 * t526))
  let t540 := (V3.length tmin tmax sqrt ⟨t539, t536, t533⟩)
  let t546 := (t539 / t540)
  let t547 := (t536 / t540)
  let t548 := (t533 / t540)
  if t540 = (0 : α) then
    ⟨⟨t539, t536, t533⟩, (((t539 * t375) + (t536 * t374)) + (t533 * t373))⟩
  else
    ⟨⟨t546, t547, t548⟩, (((t546 * t375) + (t547 * t374)) + (t548 * t373))⟩

/-- extracted from the C++ template at T = Sym; 1 path(s) -/
def Frustum.depthToZp_persp {α : Type} [Add α] [Sub α] [Mul α] [Div α] [OfNat α 2] (n : α) (f : α) (l : α) (r : α) (t : α) (b : α) (depth : α) : α :=
  (((((((2 : α) * f) * n) / depth) + f) + n) / (f - n))

/-- extracted from the C++ template at T = Sym; 1 path(s) -/
def Frustum.depthToZp_ortho {α : Type} [Add α] [Sub α] [Mul α] [Div α] [Neg α] [OfNat α 2] (n : α) (f : α) (l : α) (r : α) (t : α) (b : α) (depth : α) : α :=
  ((-((((2 : α) * depth) + f) + n)) / (f - n))

end ImathVerif.Gen
