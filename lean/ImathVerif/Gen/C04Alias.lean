-- GENERATED from /repo/src/Imath by harness/sym (T = Sym path extraction); do not edit.
import ImathVerif.Basic.Types
set_option linter.unusedVariables false
namespace ImathVerif.Gen
open ImathVerif

/-- extracted from the C++ template at T = Sym; 1 path(s) -/
def V2.addAssignSelf {α : Type} [Add α] (a : V2 α) : (V2 α) :=
  ⟨(a.x + a.x), (a.y + a.y)⟩

/-- extracted from the C++ template at T = Sym; 1 path(s) -/
def V2.subAssignSelf {α : Type} [Sub α] (a : V2 α) : (V2 α) :=
  ⟨(a.x - a.x), (a.y - a.y)⟩

/-- extracted from the C++ template at T = Sym; 1 path(s) -/
def V2.mulSAssignAliasFirst {α : Type} [Mul α] (a : V2 α) : (V2 α) :=
  ⟨(a.x * a.x), (a.y * a.x)⟩

/-- extracted from the C++ template at T = Sym; 1 path(s) -/
def V2.mulSAssignAliasLast {α : Type} [Mul α] (a : V2 α) : (V2 α) :=
  ⟨(a.x * a.y), (a.y * a.y)⟩

/-- extracted from the C++ template at T = Sym; 1 path(s) -/
def V2.divSAssignAliasFirst {α : Type} [Div α] (a : V2 α) : (V2 α) :=
  ⟨(a.x / a.x), (a.y / a.x)⟩

/-- extracted from the C++ template at T = Sym; 1 path(s) -/
def V2.divSAssignAliasLast {α : Type} [Div α] (a : V2 α) : (V2 α) :=
  ⟨(a.x / a.y), (a.y / a.y)⟩

/-- extracted from the C++ template at T = Sym; 1 path(s) -/
def V2.mulAssignSelf {α : Type} [Mul α] (a : V2 α) : (V2 α) :=
  ⟨(a.x * a.x), (a.y * a.y)⟩

/-- extracted from the C++ template at T = Sym; 1 path(s) -/
def V2.divAssignSelf {α : Type} [Div α] (a : V2 α) : (V2 α) :=
  ⟨(a.x / a.x), (a.y / a.y)⟩

/-- extracted from the C++ template at T = Sym; 1 path(s) -/
def V3.addAssignSelf {α : Type} [Add α] (a : V3 α) : (V3 α) :=
  ⟨(a.x + a.x), (a.y + a.y), (a.z + a.z)⟩

/-- extracted from the C++ template at T = Sym; 1 path(s) -/
def V3.subAssignSelf {α : Type} [Sub α] (a : V3 α) : (V3 α) :=
  ⟨(a.x - a.x), (a.y - a.y), (a.z - a.z)⟩

/-- extracted from the C++ template at T = Sym; 1 path(s) -/
def V3.mulSAssignAliasFirst {α : Type} [Mul α] (a : V3 α) : (V3 α) :=
  ⟨(a.x * a.x), (a.y * a.x), (a.z * a.x)⟩

/-- extracted from the C++ template at T = Sym; 1 path(s) -/
def V3.mulSAssignAliasLast {α : Type} [Mul α] (a : V3 α) : (V3 α) :=
  ⟨(a.x * a.z), (a.y * a.z), (a.z * a.z)⟩

/-- extracted from the C++ template at T = Sym; 1 path(s) -/
def V3.divSAssignAliasFirst {α : Type} [Div α] (a : V3 α) : (V3 α) :=
  ⟨(a.x / a.x), (a.y / a.x), (a.z / a.x)⟩

/-- extracted from the C++ template at T = Sym; 1 path(s) -/
def V3.divSAssignAliasLast {α : Type} [Div α] (a : V3 α) : (V3 α) :=
  ⟨(a.x / a.z), (a.y / a.z), (a.z / a.z)⟩

/-- extracted from the C++ template at T = Sym; 1 path(s) -/
def V3.mulAssignSelf {α : Type} [Mul α] (a : V3 α) : (V3 α) :=
  ⟨(a.x * a.x), (a.y * a.y), (a.z * a.z)⟩

/-- extracted from the C++ template at T = Sym; 1 path(s) -/
def V3.divAssignSelf {α : Type} [Div α] (a : V3 α) : (V3 α) :=
  ⟨(a.x / a.x), (a.y / a.y), (a.z / a.z)⟩

/-- extracted from the C++ template at T = Sym; 1 path(s) -/
def V4.addAssignSelf {α : Type} [Add α] (a : V4 α) : (V4 α) :=
  ⟨(a.x + a.x), (a.y + a.y), (a.z + a.z), (a.w + a.w)⟩

/-- extracted from the C++ template at T = Sym; 1 path(s) -/
def V4.subAssignSelf {α : Type} [Sub α] (a : V4 α) : (V4 α) :=
  ⟨(a.x - a.x), (a.y - a.y), (a.z - a.z), (a.w - a.w)⟩

/-- extracted from the C++ template at T = Sym; 1 path(s) -/
def V4.mulSAssignAliasFirst {α : Type} [Mul α] (a : V4 α) : (V4 α) :=
  ⟨(a.x * a.x), (a.y * a.x), (a.z * a.x), (a.w * a.x)⟩

/-- extracted from the C++ template at T = Sym; 1 path(s) -/
def V4.mulSAssignAliasLast {α : Type} [Mul α] (a : V4 α) : (V4 α) :=
  ⟨(a.x * a.w), (a.y * a.w), (a.z * a.w), (a.w * a.w)⟩

/-- extracted from the C++ template at T = Sym; 1 path(s) -/
def V4.divSAssignAliasFirst {α : Type} [Div α] (a : V4 α) : (V4 α) :=
  ⟨(a.x / a.x), (a.y / a.x), (a.z / a.x), (a.w / a.x)⟩

/-- extracted from the C++ template at T = Sym; 1 path(s) -/
def V4.divSAssignAliasLast {α : Type} [Div α] (a : V4 α) : (V4 α) :=
  ⟨(a.x / a.w), (a.y / a.w), (a.z / a.w), (a.w / a.w)⟩

/-- extracted from the C++ template at T = Sym; 1 path(s) -/
def V4.mulAssignSelf {α : Type} [Mul α] (a : V4 α) : (V4 α) :=
  ⟨(a.x * a.x), (a.y * a.y), (a.z * a.z), (a.w * a.w)⟩

/-- extracted from the C++ template at T = Sym; 1 path(s) -/
def V4.divAssignSelf {α : Type} [Div α] (a : V4 α) : (V4 α) :=
  ⟨(a.x / a.x), (a.y / a.y), (a.z / a.z), (a.w / a.w)⟩

/-- extracted from the C++ template at T = Sym; 1 path(s) -/
def C3.addAssignSelf {α : Type} [Add α] (a : V3 α) : (V3 α) :=
  ⟨(a.x + a.x), (a.y + a.y), (a.z + a.z)⟩

/-- extracted from the C++ template at T = Sym; 1 path(s) -/
def C3.subAssignSelf {α : Type} [Sub α] (a : V3 α) : (V3 α) :=
  ⟨(a.x - a.x), (a.y - a.y), (a.z - a.z)⟩

/-- extracted from the C++ template at T = Sym; 1 path(s) -/
def C3.mulSAssignAliasFirst {α : Type} [Mul α] (a : V3 α) : (V3 α) :=
  ⟨(a.x * a.x), (a.y * a.x), (a.z * a.x)⟩

/-- extracted from the C++ template at T = Sym; 1 path(s) -/
def C3.mulSAssignAliasLast {α : Type} [Mul α] (a : V3 α) : (V3 α) :=
  ⟨(a.x * a.z), (a.y * a.z), (a.z * a.z)⟩

/-- extracted from the C++ template at T = Sym; 1 path(s) -/
def C3.divSAssignAliasFirst {α : Type} [Div α] (a : V3 α) : (V3 α) :=
  ⟨(a.x / a.x), (a.y / a.x), (a.z / a.x)⟩

/-- extracted from the C++ template at T = Sym; 1 path(s) -/
def C3.divSAssignAliasLast {α : Type} [Div α] (a : V3 α) : (V3 α) :=
  ⟨(a.x / a.z), (a.y / a.z), (a.z / a.z)⟩

/-- extracted from the C++ template at T = Sym; 1 path(s) -/
def C3.mulAssignSelf {α : Type} [Mul α] (a : V3 α) : (V3 α) :=
  ⟨(a.x * a.x), (a.y * a.y), (a.z * a.z)⟩

/-- extracted from the C++ template at T = Sym; 1 path(s) -/
def C3.divAssignSelf {α : Type} [Div α] (a : V3 α) : (V3 α) :=
  ⟨(a.x / a.x), (a.y / a.y), (a.z / a.z)⟩

/-- extracted from the C++ template at T = Sym; 1 path(s) -/
def C4.addAssignSelf {α : Type} [Add α] (a : C4 α) : (C4 α) :=
  ⟨(a.r + a.r), (a.g + a.g), (a.b + a.b), (a.a + a.a)⟩

/-- extracted from the C++ template at T = Sym; 1 path(s) -/
def C4.subAssignSelf {α : Type} [Sub α] (a : C4 α) : (C4 α) :=
  ⟨(a.r - a.r), (a.g - a.g), (a.b - a.b), (a.a - a.a)⟩

/-- extracted from the C++ template at T = Sym; 1 path(s) -/
def C4.mulSAssignAliasFirst {α : Type} [Mul α] (a : C4 α) : (C4 α) :=
  ⟨(a.r * a.r), (a.g * a.r), (a.b * a.r), (a.a * a.r)⟩

/-- extracted from the C++ template at T = Sym; 1 path(s) -/
def C4.mulSAssignAliasLast {α : Type} [Mul α] (a : C4 α) : (C4 α) :=
  ⟨(a.r * a.a), (a.g * a.a), (a.b * a.a), (a.a * a.a)⟩

/-- extracted from the C++ template at T = Sym; 1 path(s) -/
def C4.divSAssignAliasFirst {α : Type} [Div α] (a : C4 α) : (C4 α) :=
  ⟨(a.r / a.r), (a.g / a.r), (a.b / a.r), (a.a / a.r)⟩

/-- extracted from the C++ template at T = Sym; 1 path(s) -/
def C4.divSAssignAliasLast {α : Type} [Div α] (a : C4 α) : (C4 α) :=
  ⟨(a.r / a.a), (a.g / a.a), (a.b / a.a), (a.a / a.a)⟩

/-- extracted from the C++ template at T = Sym; 1 path(s) -/
def C4.mulAssignSelf {α : Type} [Mul α] (a : C4 α) : (C4 α) :=
  ⟨(a.r * a.r), (a.g * a.g), (a.b * a.b), (a.a * a.a)⟩

/-- extracted from the C++ template at T = Sym; 1 path(s) -/
def C4.divAssignSelf {α : Type} [Div α] (a : C4 α) : (C4 α) :=
  ⟨(a.r / a.r), (a.g / a.g), (a.b / a.b), (a.a / a.a)⟩

/-- extracted from the C++ template at T = Sym; 1 path(s) -/
def Shear6.addAssignSelf {α : Type} [Add α] (a : Shear6 α) : (Shear6 α) :=
  ⟨(a.xy + a.xy), (a.xz + a.xz), (a.yz + a.yz), (a.yx + a.yx), (a.zx + a.zx), (a.zy + a.zy)⟩

/-- extracted from the C++ template at T = Sym; 1 path(s) -/
def Shear6.subAssignSelf {α : Type} [Sub α] (a : Shear6 α) : (Shear6 α) :=
  ⟨(a.xy - a.xy), (a.xz - a.xz), (a.yz - a.yz), (a.yx - a.yx), (a.zx - a.zx), (a.zy - a.zy)⟩

/-- extracted from the C++ template at T = Sym; 1 path(s) -/
def Shear6.mulSAssignAliasFirst {α : Type} [Mul α] (a : Shear6 α) : (Shear6 α) :=
  ⟨(a.xy * a.xy), (a.xz * a.xy), (a.yz * a.xy), (a.yx * a.xy), (a.zx * a.xy), (a.zy * a.xy)⟩

/-- extracted from the C++ template at T = Sym; 1 path(s) -/
def Shear6.mulSAssignAliasLast {α : Type} [Mul α] (a : Shear6 α) : (Shear6 α) :=
  ⟨(a.xy * a.zy), (a.xz * a.zy), (a.yz * a.zy), (a.yx * a.zy), (a.zx * a.zy), (a.zy * a.zy)⟩

/-- extracted from the C++ template at T = Sym; 1 path(s) -/
def Shear6.divSAssignAliasFirst {α : Type} [Div α] (a : Shear6 α) : (Shear6 α) :=
  ⟨(a.xy / a.xy), (a.xz / a.xy), (a.yz / a.xy), (a.yx / a.xy), (a.zx / a.xy), (a.zy / a.xy)⟩

/-- extracted from the C++ template at T = Sym; 1 path(s) -/
def Shear6.divSAssignAliasLast {α : Type} [Div α] (a : Shear6 α) : (Shear6 α) :=
  ⟨(a.xy / a.zy), (a.xz / a.zy), (a.yz / a.zy), (a.yx / a.zy), (a.zx / a.zy), (a.zy / a.zy)⟩

/-- extracted from the C++ template at T = Sym; 1 path(s) -/
def Shear6.mulAssignSelf {α : Type} [Mul α] (a : Shear6 α) : (Shear6 α) :=
  ⟨(a.xy * a.xy), (a.xz * a.xz), (a.yz * a.yz), (a.yx * a.yx), (a.zx * a.zx), (a.zy * a.zy)⟩

/-- extracted from the C++ template at T = Sym; 1 path(s) -/
def Shear6.divAssignSelf {α : Type} [Div α] (a : Shear6 α) : (Shear6 α) :=
  ⟨(a.xy / a.xy), (a.xz / a.xz), (a.yz / a.yz), (a.yx / a.yx), (a.zx / a.zx), (a.zy / a.zy)⟩

/-- extracted from the C++ template at T = Sym; 1 path(s) -/
def Quat.addAssignSelf {α : Type} [Add α] (a : Quat α) : (Quat α) :=
  ⟨(a.r + a.r), ⟨(a.v.x + a.v.x), (a.v.y + a.v.y), (a.v.z + a.v.z)⟩⟩

/-- extracted from the C++ template at T = Sym; 1 path(s) -/
def Quat.subAssignSelf {α : Type} [Sub α] (a : Quat α) : (Quat α) :=
  ⟨(a.r - a.r), ⟨(a.v.x - a.v.x), (a.v.y - a.v.y), (a.v.z - a.v.z)⟩⟩

/-- extracted from the C++ template at T = Sym; 1 path(s) -/
def Quat.mulSAssignAliasFirst {α : Type} [Mul α] (a : Quat α) : (Quat α) :=
  ⟨(a.r * a.r), ⟨(a.v.x * a.r), (a.v.y * a.r), (a.v.z * a.r)⟩⟩

/-- extracted from the C++ template at T = Sym; 1 path(s) -/
def Quat.mulSAssignAliasLast {α : Type} [Mul α] (a : Quat α) : (Quat α) :=
  ⟨(a.r * a.v.z), ⟨(a.v.x * a.v.z), (a.v.y * a.v.z), (a.v.z * a.v.z)⟩⟩

/-- extracted from the C++ template at T = Sym; 1 path(s) -/
def Quat.divSAssignAliasFirst {α : Type} [Div α] (a : Quat α) : (Quat α) :=
  ⟨(a.r / a.r), ⟨(a.v.x / a.r), (a.v.y / a.r), (a.v.z / a.r)⟩⟩

/-- extracted from the C++ template at T = Sym; 1 path(s) -/
def Quat.divSAssignAliasLast {α : Type} [Div α] (a : Quat α) : (Quat α) :=
  ⟨(a.r / a.v.z), ⟨(a.v.x / a.v.z), (a.v.y / a.v.z), (a.v.z / a.v.z)⟩⟩

/-- extracted from the C++ template at T = Sym; 1 path(s) -/
def M22.addAssignSelf {α : Type} [Add α] (a : M22 α) : (M22 α) :=
  ⟨(a.x00 + a.x00), (a.x01 + a.x01), (a.x10 + a.x10), (a.x11 + a.x11)⟩

/-- extracted from the C++ template at T = Sym; 1 path(s) -/
def M22.subAssignSelf {α : Type} [Sub α] (a : M22 α) : (M22 α) :=
  ⟨(a.x00 - a.x00), (a.x01 - a.x01), (a.x10 - a.x10), (a.x11 - a.x11)⟩

/-- extracted from the C++ template at T = Sym; 1 path(s) -/
def M22.mulSAssignAliasFirst {α : Type} [Mul α] (a : M22 α) : (M22 α) :=
  ⟨(a.x00 * a.x00), (a.x01 * a.x00), (a.x10 * a.x00), (a.x11 * a.x00)⟩

/-- extracted from the C++ template at T = Sym; 1 path(s) -/
def M22.mulSAssignAliasLast {α : Type} [Mul α] (a : M22 α) : (M22 α) :=
  ⟨(a.x00 * a.x11), (a.x01 * a.x11), (a.x10 * a.x11), (a.x11 * a.x11)⟩

/-- extracted from the C++ template at T = Sym; 1 path(s) -/
def M22.divSAssignAliasFirst {α : Type} [Div α] (a : M22 α) : (M22 α) :=
  ⟨(a.x00 / a.x00), (a.x01 / a.x00), (a.x10 / a.x00), (a.x11 / a.x00)⟩

/-- extracted from the C++ template at T = Sym; 1 path(s) -/
def M22.divSAssignAliasLast {α : Type} [Div α] (a : M22 α) : (M22 α) :=
  ⟨(a.x00 / a.x11), (a.x01 / a.x11), (a.x10 / a.x11), (a.x11 / a.x11)⟩

/-- extracted from the C++ template at T = Sym; 1 path(s) -/
def M33.addAssignSelf {α : Type} [Add α] (a : M33 α) : (M33 α) :=
  ⟨(a.x00 + a.x00), (a.x01 + a.x01), (a.x02 + a.x02), (a.x10 + a.x10), (a.x11 + a.x11), (a.x12 + a.x12), (a.x20 + a.x20), (a.x21 + a.x21), (a.x22 + a.x22)⟩

/-- extracted from the C++ template at T = Sym; 1 path(s) -/
def M33.subAssignSelf {α : Type} [Sub α] (a : M33 α) : (M33 α) :=
  ⟨(a.x00 - a.x00), (a.x01 - a.x01), (a.x02 - a.x02), (a.x10 - a.x10), (a.x11 - a.x11), (a.x12 - a.x12), (a.x20 - a.x20), (a.x21 - a.x21), (a.x22 - a.x22)⟩

/-- extracted from the C++ template at T = Sym; 1 path(s) -/
def M33.mulSAssignAliasFirst {α : Type} [Mul α] (a : M33 α) : (M33 α) :=
  ⟨(a.x00 * a.x00), (a.x01 * a.x00), (a.x02 * a.x00), (a.x10 * a.x00), (a.x11 * a.x00), (a.x12 * a.x00), (a.x20 * a.x00), (a.x21 * a.x00), (a.x22 * a.x00)⟩

/-- extracted from the C++ template at T = Sym; 1 path(s) -/
def M33.mulSAssignAliasLast {α : Type} [Mul α] (a : M33 α) : (M33 α) :=
  ⟨(a.x00 * a.x22), (a.x01 * a.x22), (a.x02 * a.x22), (a.x10 * a.x22), (a.x11 * a.x22), (a.x12 * a.x22), (a.x20 * a.x22), (a.x21 * a.x22), (a.x22 * a.x22)⟩

/-- extracted from the C++ template at T = Sym; 1 path(s) -/
def M33.divSAssignAliasFirst {α : Type} [Div α] (a : M33 α) : (M33 α) :=
  ⟨(a.x00 / a.x00), (a.x01 / a.x00), (a.x02 / a.x00), (a.x10 / a.x00), (a.x11 / a.x00), (a.x12 / a.x00), (a.x20 / a.x00), (a.x21 / a.x00), (a.x22 / a.x00)⟩

/-- extracted from the C++ template at T = Sym; 1 path(s) -/
def M33.divSAssignAliasLast {α : Type} [Div α] (a : M33 α) : (M33 α) :=
  ⟨(a.x00 / a.x22), (a.x01 / a.x22), (a.x02 / a.x22), (a.x10 / a.x22), (a.x11 / a.x22), (a.x12 / a.x22), (a.x20 / a.x22), (a.x21 / a.x22), (a.x22 / a.x22)⟩

/-- extracted from the C++ template at T = Sym; 1 path(s) -/
def M44.addAssignSelf {α : Type} [Add α] (a : M44 α) : (M44 α) :=
  ⟨(a.x00 + a.x00), (a.x01 + a.x01), (a.x02 + a.x02), (a.x03 + a.x03), (a.x10 + a.x10), (a.x11 + a.x11), (a.x12 + a.x12), (a.x13 + a.x13), (a.x20 + a.x20), (a.x21 + a.x21), (a.x22 + a.x22), (a.x23 + a.x23), (a.x30 + a.x30), (a.x31 + a.x31), (a.x32 + a.x32), (a.x33 + a.x33)⟩

/-- extracted from the C++ template at T = Sym; 1 path(s) -/
def M44.subAssignSelf {α : Type} [Sub α] (a : M44 α) : (M44 α) :=
  ⟨(a.x00 - a.x00), (a.x01 - a.x01), (a.x02 - a.x02), (a.x03 - a.x03), (a.x10 - a.x10), (a.x11 - a.x11), (a.x12 - a.x12), (a.x13 - a.x13), (a.x20 - a.x20), (a.x21 - a.x21), (a.x22 - a.x22), (a.x23 - a.x23), (a.x30 - a.x30), (a.x31 - a.x31), (a.x32 - a.x32), (a.x33 - a.x33)⟩

/-- extracted from the C++ template at T = Sym; 1 path(s) -/
def M44.mulSAssignAliasFirst {α : Type} [Mul α] (a : M44 α) : (M44 α) :=
  ⟨(a.x00 * a.x00), (a.x01 * a.x00), (a.x02 * a.x00), (a.x03 * a.x00), (a.x10 * a.x00), (a.x11 * a.x00), (a.x12 * a.x00), (a.x13 * a.x00), (a.x20 * a.x00), (a.x21 * a.x00), (a.x22 * a.x00), (a.x23 * a.x00), (a.x30 * a.x00), (a.x31 * a.x00), (a.x32 * a.x00), (a.x33 * a.x00)⟩

/-- extracted from the C++ template at T = Sym; 1 path(s) -/
def M44.mulSAssignAliasLast {α : Type} [Mul α] (a : M44 α) : (M44 α) :=
  ⟨(a.x00 * a.x33), (a.x01 * a.x33), (a.x02 * a.x33), (a.x03 * a.x33), (a.x10 * a.x33), (a.x11 * a.x33), (a.x12 * a.x33), (a.x13 * a.x33), (a.x20 * a.x33), (a.x21 * a.x33), (a.x22 * a.x33), (a.x23 * a.x33), (a.x30 * a.x33), (a.x31 * a.x33), (a.x32 * a.x33), (a.x33 * a.x33)⟩

/-- extracted from the C++ template at T = Sym; 1 path(s) -/
def M44.divSAssignAliasFirst {α : Type} [Div α] (a : M44 α) : (M44 α) :=
  ⟨(a.x00 / a.x00), (a.x01 / a.x00), (a.x02 / a.x00), (a.x03 / a.x00), (a.x10 / a.x00), (a.x11 / a.x00), (a.x12 / a.x00), (a.x13 / a.x00), (a.x20 / a.x00), (a.x21 / a.x00), (a.x22 / a.x00), (a.x23 / a.x00), (a.x30 / a.x00), (a.x31 / a.x00), (a.x32 / a.x00), (a.x33 / a.x00)⟩

/-- extracted from the C++ template at T = Sym; 1 path(s) -/
def M44.divSAssignAliasLast {α : Type} [Div α] (a : M44 α) : (M44 α) :=
  ⟨(a.x00 / a.x33), (a.x01 / a.x33), (a.x02 / a.x33), (a.x03 / a.x33), (a.x10 / a.x33), (a.x11 / a.x33), (a.x12 / a.x33), (a.x13 / a.x33), (a.x20 / a.x33), (a.x21 / a.x33), (a.x22 / a.x33), (a.x23 / a.x33), (a.x30 / a.x33), (a.x31 / a.x33), (a.x32 / a.x33), (a.x33 / a.x33)⟩

/-- extracted from the C++ template at T = Sym; 1 path(s) -/
def M22.addSAssignAliasFirst {α : Type} [Add α] (a : M22 α) : (M22 α) :=
  ⟨(a.x00 + a.x00), (a.x01 + a.x00), (a.x10 + a.x00), (a.x11 + a.x00)⟩

/-- extracted from the C++ template at T = Sym; 1 path(s) -/
def M33.addSAssignAliasFirst {α : Type} [Add α] (a : M33 α) : (M33 α) :=
  ⟨(a.x00 + a.x00), (a.x01 + a.x00), (a.x02 + a.x00), (a.x10 + a.x00), (a.x11 + a.x00), (a.x12 + a.x00), (a.x20 + a.x00), (a.x21 + a.x00), (a.x22 + a.x00)⟩

/-- extracted from the C++ template at T = Sym; 1 path(s) -/
def M44.addSAssignAliasFirst {α : Type} [Add α] (a : M44 α) : (M44 α) :=
  ⟨(a.x00 + a.x00), (a.x01 + a.x00), (a.x02 + a.x00), (a.x03 + a.x00), (a.x10 + a.x00), (a.x11 + a.x00), (a.x12 + a.x00), (a.x13 + a.x00), (a.x20 + a.x00), (a.x21 + a.x00), (a.x22 + a.x00), (a.x23 + a.x00), (a.x30 + a.x00), (a.x31 + a.x00), (a.x32 + a.x00), (a.x33 + a.x00)⟩

/-- extracted from the C++ template at T = Sym; 1 path(s) -/
def M22.subSAssignAliasFirst {α : Type} [Sub α] (a : M22 α) : (M22 α) :=
  ⟨(a.x00 - a.x00), (a.x01 - a.x00), (a.x10 - a.x00), (a.x11 - a.x00)⟩

/-- extracted from the C++ template at T = Sym; 1 path(s) -/
def M33.subSAssignAliasFirst {α : Type} [Sub α] (a : M33 α) : (M33 α) :=
  ⟨(a.x00 - a.x00), (a.x01 - a.x00), (a.x02 - a.x00), (a.x10 - a.x00), (a.x11 - a.x00), (a.x12 - a.x00), (a.x20 - a.x00), (a.x21 - a.x00), (a.x22 - a.x00)⟩

/-- extracted from the C++ template at T = Sym; 1 path(s) -/
def M44.subSAssignAliasFirst {α : Type} [Sub α] (a : M44 α) : (M44 α) :=
  ⟨(a.x00 - a.x00), (a.x01 - a.x00), (a.x02 - a.x00), (a.x03 - a.x00), (a.x10 - a.x00), (a.x11 - a.x00), (a.x12 - a.x00), (a.x13 - a.x00), (a.x20 - a.x00), (a.x21 - a.x00), (a.x22 - a.x00), (a.x23 - a.x00), (a.x30 - a.x00), (a.x31 - a.x00), (a.x32 - a.x00), (a.x33 - a.x00)⟩

end ImathVerif.Gen
