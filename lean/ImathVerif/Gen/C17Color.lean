-- GENERATED from /repo/src/Imath by harness/sym (T = Sym path extraction); do not edit.
import ImathVerif.Basic.Types
set_option linter.unusedVariables false
namespace ImathVerif.Gen
open ImathVerif

/-- extracted from the C++ template at T = Sym; 14 path(s) -/
def Color.hsv2rgbV3 {α : Type} [Sub α] [Mul α] [DecidableEq α] [OfNat α 0] [OfNat α 1] [OfNat α 2] [OfNat α 3] [OfNat α 4] [OfNat α 5] [OfNat α 6] (floorR : α → α) (hsv : V3 α) : (V3 α) :=
  let t5 := (floorR (0 : α))
  let t8 := (hsv.z * ((1 : α) - hsv.y))
  let t69 := (hsv.x * (6 : α))
  let t70 := (floorR t69)
  if hsv.x = (1 : α) then
    if t5 = (0 : α) then
      ⟨hsv.z, (hsv.z * ((1 : α) - (hsv.y * ((1 : α) - ((0 : α) - (0 : α)))))), t8⟩
    else
      if t5 = (1 : α) then
        ⟨(hsv.z * ((1 : α) - (hsv.y * ((0 : α) - (1 : α))))), hsv.z, t8⟩
      else
        if t5 = (2 : α) then
          ⟨t8, hsv.z, (hsv.z * ((1 : α) - (hsv.y * ((1 : α) - ((0 : α) - (2 : α))))))⟩
        else
          if t5 = (3 : α) then
            ⟨t8, (hsv.z * ((1 : α) - (hsv.y * ((0 : α) - (3 : α))))), hsv.z⟩
          else
            if t5 = (4 : α) then
              ⟨(hsv.z * ((1 : α) - (hsv.y * ((1 : α) - ((0 : α) - (4 : α)))))), t8, hsv.z⟩
            else
              if t5 = (5 : α) then
                ⟨hsv.z, t8, (hsv.z * ((1 : α) - (hsv.y * ((0 : α) - (5 : α)))))⟩
              else
                ⟨(0 : α), (0 : α), (0 : α)⟩
  else
    if t70 = (0 : α) then
      ⟨hsv.z, (hsv.z * ((1 : α) - (hsv.y * ((1 : α) - (t69 - (0 : α)))))), t8⟩
    else
      if t70 = (1 : α) then
        ⟨(hsv.z * ((1 : α) - (hsv.y * (t69 - (1 : α))))), hsv.z, t8⟩
      else
        if t70 = (2 : α) then
          ⟨t8, hsv.z, (hsv.z * ((1 : α) - (hsv.y * ((1 : α) - (t69 - (2 : α))))))⟩
        else
          if t70 = (3 : α) then
            ⟨t8, (hsv.z * ((1 : α) - (hsv.y * (t69 - (3 : α))))), hsv.z⟩
          else
            if t70 = (4 : α) then
              ⟨(hsv.z * ((1 : α) - (hsv.y * ((1 : α) - (t69 - (4 : α)))))), t8, hsv.z⟩
            else
              if t70 = (5 : α) then
                ⟨hsv.z, t8, (hsv.z * ((1 : α) - (hsv.y * (t69 - (5 : α)))))⟩
              else
                ⟨(0 : α), (0 : α), (0 : α)⟩

/-- extracted from the C++ template at T = Sym; 14 path(s) -/
def Color.hsv2rgbC4 {α : Type} [Sub α] [Mul α] [DecidableEq α] [OfNat α 0] [OfNat α 1] [OfNat α 2] [OfNat α 3] [OfNat α 4] [OfNat α 5] [OfNat α 6] (floorR : α → α) (hsv : C4 α) : (C4 α) :=
  let t5 := (floorR (0 : α))
  let t132 := (hsv.b * ((1 : α) - hsv.g))
  let t175 := (hsv.r * (6 : α))
  let t176 := (floorR t175)
  if hsv.r = (1 : α) then
    if t5 = (0 : α) then
      ⟨hsv.b, (hsv.b * ((1 : α) - (hsv.g * ((1 : α) - ((0 : α) - (0 : α)))))), t132, hsv.a⟩
    else
      if t5 = (1 : α) then
        ⟨(hsv.b * ((1 : α) - (hsv.g * ((0 : α) - (1 : α))))), hsv.b, t132, hsv.a⟩
      else
        if t5 = (2 : α) then
          ⟨t132, hsv.b, (hsv.b * ((1 : α) - (hsv.g * ((1 : α) - ((0 : α) - (2 : α)))))), hsv.a⟩
        else
          if t5 = (3 : α) then
            ⟨t132, (hsv.b * ((1 : α) - (hsv.g * ((0 : α) - (3 : α))))), hsv.b, hsv.a⟩
          else
            if t5 = (4 : α) then
              ⟨(hsv.b * ((1 : α) - (hsv.g * ((1 : α) - ((0 : α) - (4 : α)))))), t132, hsv.b, hsv.a⟩
            else
              if t5 = (5 : α) then
                ⟨hsv.b, t132, (hsv.b * ((1 : α) - (hsv.g * ((0 : α) - (5 : α))))), hsv.a⟩
              else
                ⟨(0 : α), (0 : α), (0 : α), hsv.a⟩
  else
    if t176 = (0 : α) then
      ⟨hsv.b, (hsv.b * ((1 : α) - (hsv.g * ((1 : α) - (t175 - (0 : α)))))), t132, hsv.a⟩
    else
      if t176 = (1 : α) then
        ⟨(hsv.b * ((1 : α) - (hsv.g * (t175 - (1 : α))))), hsv.b, t132, hsv.a⟩
      else
        if t176 = (2 : α) then
          ⟨t132, hsv.b, (hsv.b * ((1 : α) - (hsv.g * ((1 : α) - (t175 - (2 : α)))))), hsv.a⟩
        else
          if t176 = (3 : α) then
            ⟨t132, (hsv.b * ((1 : α) - (hsv.g * (t175 - (3 : α))))), hsv.b, hsv.a⟩
          else
            if t176 = (4 : α) then
              ⟨(hsv.b * ((1 : α) - (hsv.g * ((1 : α) - (t175 - (4 : α)))))), t132, hsv.b, hsv.a⟩
            else
              if t176 = (5 : α) then
                ⟨hsv.b, t132, (hsv.b * ((1 : α) - (hsv.g * (t175 - (5 : α))))), hsv.a⟩
              else
                ⟨(0 : α), (0 : α), (0 : α), hsv.a⟩

/-- extracted from the C++ template at T = Sym; 64 path(s) -/
def Color.rgb2hsvV3 {α : Type} [Add α] [Sub α] [Div α] [LT α] [DecidableLT α] [DecidableEq α] [OfNat α 0] [OfNat α 1] [OfNat α 2] [OfNat α 4] [OfNat α 6] (c : V3 α) : (V3 α) :=
  let t236 := (c.x - c.y)
  let t237 := (t236 / c.x)
  let t238 := (c.y - c.z)
  let t240 := ((t238 / t236) / (6 : α))
  let t242 := (c.x - c.z)
  let t243 := (t242 / c.x)
  let t245 := ((t238 / t242) / (6 : α))
  let t247 := (c.z - c.y)
  let t248 := (t247 / c.z)
  let t250 := ((t238 / t247) / (6 : α))
  let t251 := (t250 + (1 : α))
  let t254 := (((4 : α) + (t236 / t247)) / (6 : α))
  let t255 := (t254 + (1 : α))
  let t256 := (c.z - c.z)
  let t257 := (t256 / c.z)
  let t259 := ((t238 / t256) / (6 : α))
  let t260 := (t259 + (1 : α))
  let t261 := (c.z - c.x)
  let t264 := (((2 : α) + (t261 / t256)) / (6 : α))
  let t265 := (t264 + (1 : α))
  let t268 := (((4 : α) + (t236 / t256)) / (6 : α))
  let t269 := (t268 + (1 : α))
  let t270 := (c.y - c.x)
  let t271 := (t270 / c.y)
  let t274 := (((2 : α) + (t261 / t270)) / (6 : α))
  let t276 := (t238 / c.y)
  let t279 := (((2 : α) + (t261 / t238)) / (6 : α))
  let t280 := (t279 + (1 : α))
  let t282 := ((t238 / t238) / (6 : α))
  let t284 := (t261 / c.z)
  let t287 := (((2 : α) + (t261 / t261)) / (6 : α))
  let t291 := (((4 : α) + (t236 / t261)) / (6 : α))
  if c.y < c.x then
    if c.z < c.x then
      if c.y < c.z then
        if c.x = (0 : α) then
          ⟨(0 : α), (0 : α), c.x⟩
        else
          if t237 = (0 : α) then
            ⟨(0 : α), t237, c.x⟩
          else
            if t240 < (0 : α) then
              ⟨(t240 + (1 : α)), t237, c.x⟩
            else
              ⟨t240, t237, c.x⟩
      else
        if c.x = (0 : α) then
          ⟨(0 : α), (0 : α), c.x⟩
        else
          if t243 = (0 : α) then
            ⟨(0 : α), t243, c.x⟩
          else
            if t245 < (0 : α) then
              ⟨(t245 + (1 : α)), t243, c.x⟩
            else
              ⟨t245, t243, c.x⟩
    else
      if c.y < c.z then
        if c.z = (0 : α) then
          ⟨(0 : α), (0 : α), c.z⟩
        else
          if t248 = (0 : α) then
            ⟨(0 : α), t248, c.z⟩
          else
            if c.x = c.z then
              if t250 < (0 : α) then
                ⟨t251, t248, c.z⟩
              else
                ⟨t250, t248, c.z⟩
            else
              if t254 < (0 : α) then
                ⟨t255, t248, c.z⟩
              else
                ⟨t254, t248, c.z⟩
      else
        if c.z = (0 : α) then
          ⟨(0 : α), (0 : α), c.z⟩
        else
          if t257 = (0 : α) then
            ⟨(0 : α), t257, c.z⟩
          else
            if c.x = c.z then
              if t259 < (0 : α) then
                ⟨t260, t257, c.z⟩
              else
                ⟨t259, t257, c.z⟩
            else
              if c.y = c.z then
                if t264 < (0 : α) then
                  ⟨t265, t257, c.z⟩
                else
                  ⟨t264, t257, c.z⟩
              else
                if t268 < (0 : α) then
                  ⟨t269, t257, c.z⟩
                else
                  ⟨t268, t257, c.z⟩
  else
    if c.z < c.y then
      if c.x < c.y then
        if c.x < c.z then
          if c.y = (0 : α) then
            ⟨(0 : α), (0 : α), c.y⟩
          else
            if t271 = (0 : α) then
              ⟨(0 : α), t271, c.y⟩
            else
              if t274 < (0 : α) then
                ⟨(t274 + (1 : α)), t271, c.y⟩
              else
                ⟨t274, t271, c.y⟩
        else
          if c.y = (0 : α) then
            ⟨(0 : α), (0 : α), c.y⟩
          else
            if t276 = (0 : α) then
              ⟨(0 : α), t276, c.y⟩
            else
              if t279 < (0 : α) then
                ⟨t280, t276, c.y⟩
              else
                ⟨t279, t276, c.y⟩
      else
        if c.y = (0 : α) then
          ⟨(0 : α), (0 : α), c.y⟩
        else
          if t276 = (0 : α) then
            ⟨(0 : α), t276, c.y⟩
          else
            if c.x = c.y then
              if t282 < (0 : α) then
                ⟨(t282 + (1 : α)), t276, c.y⟩
              else
                ⟨t282, t276, c.y⟩
            else
              if t279 < (0 : α) then
                ⟨t280, t276, c.y⟩
              else
                ⟨t279, t276, c.y⟩
    else
      if c.x < c.y then
        if c.x < c.z then
          if c.z = (0 : α) then
            ⟨(0 : α), (0 : α), c.z⟩
          else
            if t284 = (0 : α) then
              ⟨(0 : α), t284, c.z⟩
            else
              if c.y = c.z then
                if t287 < (0 : α) then
                  ⟨(t287 + (1 : α)), t284, c.z⟩
                else
                  ⟨t287, t284, c.z⟩
              else
                if t291 < (0 : α) then
                  ⟨(t291 + (1 : α)), t284, c.z⟩
                else
                  ⟨t291, t284, c.z⟩
        else
          if c.z = (0 : α) then
            ⟨(0 : α), (0 : α), c.z⟩
          else
            if t257 = (0 : α) then
              ⟨(0 : α), t257, c.z⟩
            else
              if c.x = c.z then
                if t259 < (0 : α) then
                  ⟨t260, t257, c.z⟩
                else
                  ⟨t259, t257, c.z⟩
              else
                if c.y = c.z then
                  if t264 < (0 : α) then
                    ⟨t265, t257, c.z⟩
                  else
                    ⟨t264, t257, c.z⟩
                else
                  if t268 < (0 : α) then
                    ⟨t269, t257, c.z⟩
                  else
                    ⟨t268, t257, c.z⟩
      else
        if c.y < c.z then
          if c.z = (0 : α) then
            ⟨(0 : α), (0 : α), c.z⟩
          else
            if t248 = (0 : α) then
              ⟨(0 : α), t248, c.z⟩
            else
              if c.x = c.z then
                if t250 < (0 : α) then
                  ⟨t251, t248, c.z⟩
                else
                  ⟨t250, t248, c.z⟩
              else
                if t254 < (0 : α) then
                  ⟨t255, t248, c.z⟩
                else
                  ⟨t254, t248, c.z⟩
        else
          if c.z = (0 : α) then
            ⟨(0 : α), (0 : α), c.z⟩
          else
            if t257 = (0 : α) then
              ⟨(0 : α), t257, c.z⟩
            else
              if c.x = c.z then
                if t259 < (0 : α) then
                  ⟨t260, t257, c.z⟩
                else
                  ⟨t259, t257, c.z⟩
              else
                if c.y = c.z then
                  if t264 < (0 : α) then
                    ⟨t265, t257, c.z⟩
                  else
                    ⟨t264, t257, c.z⟩
                else
                  if t268 < (0 : α) then
                    ⟨t269, t257, c.z⟩
                  else
                    ⟨t268, t257, c.z⟩

/-- extracted from the C++ template at T = Sym; 64 path(s) -/
def Color.rgb2hsvC4 {α : Type} [Add α] [Sub α] [Div α] [LT α] [DecidableLT α] [DecidableEq α] [OfNat α 0] [OfNat α 1] [OfNat α 2] [OfNat α 4] [OfNat α 6] (c : C4 α) : (C4 α) :=
  let t297 := (c.r - c.g)
  let t298 := (t297 / c.r)
  let t299 := (c.g - c.b)
  let t301 := ((t299 / t297) / (6 : α))
  let t303 := (c.r - c.b)
  let t304 := (t303 / c.r)
  let t306 := ((t299 / t303) / (6 : α))
  let t308 := (c.b - c.g)
  let t309 := (t308 / c.b)
  let t311 := ((t299 / t308) / (6 : α))
  let t312 := (t311 + (1 : α))
  let t315 := (((4 : α) + (t297 / t308)) / (6 : α))
  let t316 := (t315 + (1 : α))
  let t317 := (c.b - c.b)
  let t318 := (t317 / c.b)
  let t320 := ((t299 / t317) / (6 : α))
  let t321 := (t320 + (1 : α))
  let t322 := (c.b - c.r)
  let t325 := (((2 : α) + (t322 / t317)) / (6 : α))
  let t326 := (t325 + (1 : α))
  let t329 := (((4 : α) + (t297 / t317)) / (6 : α))
  let t330 := (t329 + (1 : α))
  let t331 := (c.g - c.r)
  let t332 := (t331 / c.g)
  let t335 := (((2 : α) + (t322 / t331)) / (6 : α))
  let t337 := (t299 / c.g)
  let t340 := (((2 : α) + (t322 / t299)) / (6 : α))
  let t341 := (t340 + (1 : α))
  let t343 := ((t299 / t299) / (6 : α))
  let t345 := (t322 / c.b)
  let t348 := (((2 : α) + (t322 / t322)) / (6 : α))
  let t352 := (((4 : α) + (t297 / t322)) / (6 : α))
  if c.g < c.r then
    if c.b < c.r then
      if c.g < c.b then
        if c.r = (0 : α) then
          ⟨(0 : α), (0 : α), c.r, c.a⟩
        else
          if t298 = (0 : α) then
            ⟨(0 : α), t298, c.r, c.a⟩
          else
            if t301 < (0 : α) then
              ⟨(t301 + (1 : α)), t298, c.r, c.a⟩
            else
              ⟨t301, t298, c.r, c.a⟩
      else
        if c.r = (0 : α) then
          ⟨(0 : α), (0 : α), c.r, c.a⟩
        else
          if t304 = (0 : α) then
            ⟨(0 : α), t304, c.r, c.a⟩
          else
            if t306 < (0 : α) then
              ⟨(t306 + (1 : α)), t304, c.r, c.a⟩
            else
              ⟨t306, t304, c.r, c.a⟩
    else
      if c.g < c.b then
        if c.b = (0 : α) then
          ⟨(0 : α), (0 : α), c.b, c.a⟩
        else
          if t309 = (0 : α) then
            ⟨(0 : α), t309, c.b, c.a⟩
          else
            if c.r = c.b then
              if t311 < (0 : α) then
                ⟨t312, t309, c.b, c.a⟩
              else
                ⟨t311, t309, c.b, c.a⟩
            else
              if t315 < (0 : α) then
                ⟨t316, t309, c.b, c.a⟩
              else
                ⟨t315, t309, c.b, c.a⟩
      else
        if c.b = (0 : α) then
          ⟨(0 : α), (0 : α), c.b, c.a⟩
        else
          if t318 = (0 : α) then
            ⟨(0 : α), t318, c.b, c.a⟩
          else
            if c.r = c.b then
              if t320 < (0 : α) then
                ⟨t321, t318, c.b, c.a⟩
              else
                ⟨t320, t318, c.b, c.a⟩
            else
              if c.g = c.b then
                if t325 < (0 : α) then
                  ⟨t326, t318, c.b, c.a⟩
                else
                  ⟨t325, t318, c.b, c.a⟩
              else
                if t329 < (0 : α) then
                  ⟨t330, t318, c.b, c.a⟩
                else
                  ⟨t329, t318, c.b, c.a⟩
  else
    if c.b < c.g then
      if c.r < c.g then
        if c.r < c.b then
          if c.g = (0 : α) then
            ⟨(0 : α), (0 : α), c.g, c.a⟩
          else
            if t332 = (0 : α) then
              ⟨(0 : α), t332, c.g, c.a⟩
            else
              if t335 < (0 : α) then
                ⟨(t335 + (1 : α)), t332, c.g, c.a⟩
              else
                ⟨t335, t332, c.g, c.a⟩
        else
          if c.g = (0 : α) then
            ⟨(0 : α), (0 : α), c.g, c.a⟩
          else
            if t337 = (0 : α) then
              ⟨(0 : α), t337, c.g, c.a⟩
            else
              if t340 < (0 : α) then
                ⟨t341, t337, c.g, c.a⟩
              else
                ⟨t340, t337, c.g, c.a⟩
      else
        if c.g = (0 : α) then
          ⟨(0 : α), (0 : α), c.g, c.a⟩
        else
          if t337 = (0 : α) then
            ⟨(0 : α), t337, c.g, c.a⟩
          else
            if c.r = c.g then
              if t343 < (0 : α) then
                ⟨(t343 + (1 : α)), t337, c.g, c.a⟩
              else
                ⟨t343, t337, c.g, c.a⟩
            else
              if t340 < (0 : α) then
                ⟨t341, t337, c.g, c.a⟩
              else
                ⟨t340, t337, c.g, c.a⟩
    else
      if c.r < c.g then
        if c.r < c.b then
          if c.b = (0 : α) then
            ⟨(0 : α), (0 : α), c.b, c.a⟩
          else
            if t345 = (0 : α) then
              ⟨(0 : α), t345, c.b, c.a⟩
            else
              if c.g = c.b then
                if t348 < (0 : α) then
                  ⟨(t348 + (1 : α)), t345, c.b, c.a⟩
                else
                  ⟨t348, t345, c.b, c.a⟩
              else
                if t352 < (0 : α) then
                  ⟨(t352 + (1 : α)), t345, c.b, c.a⟩
                else
                  ⟨t352, t345, c.b, c.a⟩
        else
          if c.b = (0 : α) then
            ⟨(0 : α), (0 : α), c.b, c.a⟩
          else
            if t318 = (0 : α) then
              ⟨(0 : α), t318, c.b, c.a⟩
            else
              if c.r = c.b then
                if t320 < (0 : α) then
                  ⟨t321, t318, c.b, c.a⟩
                else
                  ⟨t320, t318, c.b, c.a⟩
              else
                if c.g = c.b then
                  if t325 < (0 : α) then
                    ⟨t326, t318, c.b, c.a⟩
                  else
                    ⟨t325, t318, c.b, c.a⟩
                else
                  if t329 < (0 : α) then
                    ⟨t330, t318, c.b, c.a⟩
                  else
                    ⟨t329, t318, c.b, c.a⟩
      else
        if c.g < c.b then
          if c.b = (0 : α) then
            ⟨(0 : α), (0 : α), c.b, c.a⟩
          else
            if t309 = (0 : α) then
              ⟨(0 : α), t309, c.b, c.a⟩
            else
              if c.r = c.b then
                if t311 < (0 : α) then
                  ⟨t312, t309, c.b, c.a⟩
                else
                  ⟨t311, t309, c.b, c.a⟩
              else
                if t315 < (0 : α) then
                  ⟨t316, t309, c.b, c.a⟩
                else
                  ⟨t315, t309, c.b, c.a⟩
        else
          if c.b = (0 : α) then
            ⟨(0 : α), (0 : α), c.b, c.a⟩
          else
            if t318 = (0 : α) then
              ⟨(0 : α), t318, c.b, c.a⟩
            else
              if c.r = c.b then
                if t320 < (0 : α) then
                  ⟨t321, t318, c.b, c.a⟩
                else
                  ⟨t320, t318, c.b, c.a⟩
              else
                if c.g = c.b then
                  if t325 < (0 : α) then
                    ⟨t326, t318, c.b, c.a⟩
                  else
                    ⟨t325, t318, c.b, c.a⟩
                else
                  if t329 < (0 : α) then
                    ⟨t330, t318, c.b, c.a⟩
                  else
                    ⟨t329, t318, c.b, c.a⟩

end ImathVerif.Gen
