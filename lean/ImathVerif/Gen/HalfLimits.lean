-- GENERATED from /repo/src/Imath/half.h by tools/gen_halflimits.py (compiled dump of
-- std::numeric_limits<half> and the HALF_* macros); do not edit.
namespace ImathVerif.Gen

/-- half bit pattern -/
def limits_min : Nat := 0x0400
/-- half bit pattern -/
def limits_max : Nat := 0x7bff
/-- half bit pattern -/
def limits_lowest : Nat := 0xfbff
/-- half bit pattern -/
def limits_epsilon : Nat := 0x1400
/-- half bit pattern -/
def limits_round_error : Nat := 0x3800
/-- half bit pattern -/
def limits_infinity : Nat := 0x7c00
/-- half bit pattern -/
def limits_quiet_NaN : Nat := 0x7fff
/-- half bit pattern -/
def limits_signaling_NaN : Nat := 0x7dff
/-- half bit pattern -/
def limits_denorm_min : Nat := 0x0001
/-- half bit pattern -/
def half_posInf : Nat := 0x7c00
/-- half bit pattern -/
def half_negInf : Nat := 0xfc00
/-- half bit pattern -/
def half_qNan : Nat := 0x7fff
/-- half bit pattern -/
def half_sNan : Nat := 0x7dff
def limits_digits : Int := 11
def limits_digits10 : Int := 3
def limits_max_digits10 : Int := 5
def limits_radix : Int := 2
def limits_min_exponent : Int := (-13)
def limits_max_exponent : Int := 16
def limits_min_exponent10 : Int := (-4)
def limits_max_exponent10 : Int := 4
def limits_is_signed : Int := 1
def limits_has_infinity : Int := 1
def limits_has_quiet_NaN : Int := 1
def limits_has_signaling_NaN : Int := 1
def limits_has_denorm : Int := 1
def limits_round_to_nearest : Int := 1
def limits_is_specialized : Int := 1
def limits_is_integer : Int := 0
def limits_is_exact : Int := 0
def limits_is_modulo : Int := 0
def limits_is_bounded : Int := 0
def limits_is_iec559 : Int := 0
def limits_traps : Int := 1
def limits_tinyness_before : Int := 0
def limits_has_denorm_loss : Int := 0
/-- binary32 pattern of `(float) HALF_DENORM_MIN` -/
def macro_HALF_DENORM_MIN_f32 : Nat := 0x33800000
/-- binary32 pattern of `(float) HALF_NRM_MIN` -/
def macro_HALF_NRM_MIN_f32 : Nat := 0x38800000
/-- binary32 pattern of `(float) HALF_MIN` -/
def macro_HALF_MIN_f32 : Nat := 0x38800000
/-- binary32 pattern of `(float) HALF_MAX` -/
def macro_HALF_MAX_f32 : Nat := 0x477fe000
/-- binary32 pattern of `(float) HALF_EPSILON` -/
def macro_HALF_EPSILON_f32 : Nat := 0x3a7fffd5
def macro_HALF_MANT_DIG : Int := 11
def macro_HALF_DIG : Int := 3
def macro_HALF_DECIMAL_DIG : Int := 5
def macro_HALF_RADIX : Int := 2
def macro_HALF_DENORM_MIN_EXP : Int := (-13)
def macro_HALF_MAX_EXP : Int := 16
def macro_HALF_DENORM_MIN_10_EXP : Int := (-4)
def macro_HALF_MAX_10_EXP : Int := 4

end ImathVerif.Gen
