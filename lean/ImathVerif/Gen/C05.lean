-- GENERATED from /repo/src/Imath by harness/sym (T = Sym path extraction); do not edit.
import ImathVerif.Basic.Types
set_option linter.unusedVariables false
namespace ImathVerif.Gen
open ImathVerif

/-- extracted from the C++ template at T = Sym; 1 path(s) -/
def V2.dot {α : Type} [Add α] [Mul α] (a : V2 α) (b : V2 α) : α :=
  ((a.x * b.x) + (a.y * b.y))

/-- extracted from the C++ template at T = Sym; 1 path(s) -/
def V2.dotOp {α : Type} [Add α] [Mul α] (a : V2 α) (b : V2 α) : α :=
  ((a.x * b.x) + (a.y * b.y))

/-- extracted from the C++ template at T = Sym; 1 path(s) -/
def V2.length2 {α : Type} [Add α] [Mul α] (a : V2 α) : α :=
  ((a.x * a.x) + (a.y * a.y))

/-- extracted from the C++ template at T = Sym; 1 path(s) -/
def V3.dot {α : Type} [Add α] [Mul α] (a : V3 α) (b : V3 α) : α :=
  (((a.x * b.x) + (a.y * b.y)) + (a.z * b.z))

/-- extracted from the C++ template at T = Sym; 1 path(s) -/
def V3.dotOp {α : Type} [Add α] [Mul α] (a : V3 α) (b : V3 α) : α :=
  (((a.x * b.x) + (a.y * b.y)) + (a.z * b.z))

/-- extracted from the C++ template at T = Sym; 1 path(s) -/
def V3.length2 {α : Type} [Add α] [Mul α] (a : V3 α) : α :=
  (((a.x * a.x) + (a.y * a.y)) + (a.z * a.z))

/-- extracted from the C++ template at T = Sym; 1 path(s) -/
def V4.dot {α : Type} [Add α] [Mul α] (a : V4 α) (b : V4 α) : α :=
  ((((a.x * b.x) + (a.y * b.y)) + (a.z * b.z)) + (a.w * b.w))

/-- extracted from the C++ template at T = Sym; 1 path(s) -/
def V4.dotOp {α : Type} [Add α] [Mul α] (a : V4 α) (b : V4 α) : α :=
  ((((a.x * b.x) + (a.y * b.y)) + (a.z * b.z)) + (a.w * b.w))

/-- extracted from the C++ template at T = Sym; 1 path(s) -/
def V4.length2 {α : Type} [Add α] [Mul α] (a : V4 α) : α :=
  ((((a.x * a.x) + (a.y * a.y)) + (a.z * a.z)) + (a.w * a.w))

/-- extracted from the C++ template at T = Sym; 1 path(s) -/
def V2.cross {α : Type} [Sub α] [Mul α] (a : V2 α) (b : V2 α) : α :=
  ((a.x * b.y) - (a.y * b.x))

/-- extracted from the C++ template at T = Sym; 1 path(s) -/
def V2.crossOp {α : Type} [Sub α] [Mul α] (a : V2 α) (b : V2 α) : α :=
  ((a.x * b.y) - (a.y * b.x))

/-- extracted from the C++ template at T = Sym; 1 path(s) -/
def V3.cross {α : Type} [Sub α] [Mul α] (a : V3 α) (b : V3 α) : (V3 α) :=
  ⟨((a.y * b.z) - (a.z * b.y)), ((a.z * b.x) - (a.x * b.z)), ((a.x * b.y) - (a.y * b.x))⟩

/-- extracted from the C++ template at T = Sym; 1 path(s) -/
def V3.crossOp {α : Type} [Sub α] [Mul α] (a : V3 α) (b : V3 α) : (V3 α) :=
  ⟨((a.y * b.z) - (a.z * b.y)), ((a.z * b.x) - (a.x * b.z)), ((a.x * b.y) - (a.y * b.x))⟩

/-- extracted from the C++ template at T = Sym; 1 path(s) -/
def V3.crossAssign {α : Type} [Sub α] [Mul α] (a : V3 α) (b : V3 α) : (V3 α) :=
  ⟨((a.y * b.z) - (a.z * b.y)), ((a.z * b.x) - (a.x * b.z)), ((a.x * b.y) - (a.y * b.x))⟩

/-- extracted from the C++ template at T = Sym; 1 path(s) -/
def Quat.mul {α : Type} [Add α] [Sub α] [Mul α] (a : Quat α) (b : Quat α) : (Quat α) :=
  ⟨((a.r * b.r) - (((a.v.x * b.v.x) + (a.v.y * b.v.y)) + (a.v.z * b.v.z))), ⟨(((a.r * b.v.x) + (a.v.x * b.r)) + ((a.v.y * b.v.z) - (a.v.z * b.v.y))), (((a.r * b.v.y) + (a.v.y * b.r)) + ((a.v.z * b.v.x) - (a.v.x * b.v.z))), (((a.r * b.v.z) + (a.v.z * b.r)) + ((a.v.x * b.v.y) - (a.v.y * b.v.x)))⟩⟩

/-- extracted from the C++ template at T = Sym; 1 path(s) -/
def Quat.mulAssign {α : Type} [Add α] [Sub α] [Mul α] (a : Quat α) (b : Quat α) : (Quat α) :=
  ⟨((a.r * b.r) - (((a.v.x * b.v.x) + (a.v.y * b.v.y)) + (a.v.z * b.v.z))), ⟨(((a.r * b.v.x) + (a.v.x * b.r)) + ((a.v.y * b.v.z) - (a.v.z * b.v.y))), (((a.r * b.v.y) + (a.v.y * b.r)) + ((a.v.z * b.v.x) - (a.v.x * b.v.z))), (((a.r * b.v.z) + (a.v.z * b.r)) + ((a.v.x * b.v.y) - (a.v.y * b.v.x)))⟩⟩

/-- extracted from the C++ template at T = Sym; 1 path(s) -/
def Quat.euclideanInnerProduct {α : Type} [Add α] [Mul α] (a : Quat α) (b : Quat α) : α :=
  ((a.r * b.r) + (((a.v.x * b.v.x) + (a.v.y * b.v.y)) + (a.v.z * b.v.z)))

/-- extracted from the C++ template at T = Sym; 1 path(s) -/
def M22.mul {α : Type} [Add α] [Mul α] [OfNat α 0] (a : M22 α) (b : M22 α) : (M22 α) :=
  ⟨(((0 : α) + (a.x00 * b.x00)) + (a.x01 * b.x10)), (((0 : α) + (a.x00 * b.x01)) + (a.x01 * b.x11)), (((0 : α) + (a.x10 * b.x00)) + (a.x11 * b.x10)), (((0 : α) + (a.x10 * b.x01)) + (a.x11 * b.x11))⟩

/-- extracted from the C++ template at T = Sym; 1 path(s) -/
def M22.mulAssign {α : Type} [Add α] [Mul α] [OfNat α 0] (a : M22 α) (b : M22 α) : (M22 α) :=
  ⟨(((0 : α) + (a.x00 * b.x00)) + (a.x01 * b.x10)), (((0 : α) + (a.x00 * b.x01)) + (a.x01 * b.x11)), (((0 : α) + (a.x10 * b.x00)) + (a.x11 * b.x10)), (((0 : α) + (a.x10 * b.x01)) + (a.x11 * b.x11))⟩

/-- extracted from the C++ template at T = Sym; 1 path(s) -/
def M22.transpose {α : Type} (a : M22 α) : (M22 α) :=
  ⟨a.x00, a.x10, a.x01, a.x11⟩

/-- extracted from the C++ template at T = Sym; 1 path(s) -/
def M22.transposed {α : Type} (a : M22 α) : (M22 α) :=
  ⟨a.x00, a.x10, a.x01, a.x11⟩

/-- extracted from the C++ template at T = Sym; 1 path(s) -/
def M22.determinant {α : Type} [Sub α] [Mul α] (a : M22 α) : α :=
  ((a.x00 * a.x11) - (a.x10 * a.x01))

/-- extracted from the C++ template at T = Sym; 1 path(s) -/
def M22.trace {α : Type} [Add α] (a : M22 α) : α :=
  (a.x00 + a.x11)

/-- extracted from the C++ template at T = Sym; 1 path(s) -/
def M33.mul {α : Type} [Add α] [Mul α] (a : M33 α) (b : M33 α) : (M33 α) :=
  ⟨(((a.x00 * b.x00) + (a.x01 * b.x10)) + (a.x02 * b.x20)), (((a.x00 * b.x01) + (a.x01 * b.x11)) + (a.x02 * b.x21)), (((a.x00 * b.x02) + (a.x01 * b.x12)) + (a.x02 * b.x22)), (((a.x10 * b.x00) + (a.x11 * b.x10)) + (a.x12 * b.x20)), (((a.x10 * b.x01) + (a.x11 * b.x11)) + (a.x12 * b.x21)), (((a.x10 * b.x02) + (a.x11 * b.x12)) + (a.x12 * b.x22)), (((a.x20 * b.x00) + (a.x21 * b.x10)) + (a.x22 * b.x20)), (((a.x20 * b.x01) + (a.x21 * b.x11)) + (a.x22 * b.x21)), (((a.x20 * b.x02) + (a.x21 * b.x12)) + (a.x22 * b.x22))⟩

/-- extracted from the C++ template at T = Sym; 1 path(s) -/
def M33.mulAssign {α : Type} [Add α] [Mul α] (a : M33 α) (b : M33 α) : (M33 α) :=
  ⟨(((a.x00 * b.x00) + (a.x01 * b.x10)) + (a.x02 * b.x20)), (((a.x00 * b.x01) + (a.x01 * b.x11)) + (a.x02 * b.x21)), (((a.x00 * b.x02) + (a.x01 * b.x12)) + (a.x02 * b.x22)), (((a.x10 * b.x00) + (a.x11 * b.x10)) + (a.x12 * b.x20)), (((a.x10 * b.x01) + (a.x11 * b.x11)) + (a.x12 * b.x21)), (((a.x10 * b.x02) + (a.x11 * b.x12)) + (a.x12 * b.x22)), (((a.x20 * b.x00) + (a.x21 * b.x10)) + (a.x22 * b.x20)), (((a.x20 * b.x01) + (a.x21 * b.x11)) + (a.x22 * b.x21)), (((a.x20 * b.x02) + (a.x21 * b.x12)) + (a.x22 * b.x22))⟩

/-- extracted from the C++ template at T = Sym; 1 path(s) -/
def M33.transpose {α : Type} (a : M33 α) : (M33 α) :=
  ⟨a.x00, a.x10, a.x20, a.x01, a.x11, a.x21, a.x02, a.x12, a.x22⟩

/-- extracted from the C++ template at T = Sym; 1 path(s) -/
def M33.transposed {α : Type} (a : M33 α) : (M33 α) :=
  ⟨a.x00, a.x10, a.x20, a.x01, a.x11, a.x21, a.x02, a.x12, a.x22⟩

/-- extracted from the C++ template at T = Sym; 1 path(s) -/
def M33.determinant {α : Type} [Add α] [Sub α] [Mul α] (a : M33 α) : α :=
  (((a.x00 * ((a.x11 * a.x22) - (a.x12 * a.x21))) + (a.x01 * ((a.x12 * a.x20) - (a.x10 * a.x22)))) + (a.x02 * ((a.x10 * a.x21) - (a.x11 * a.x20))))

/-- extracted from the C++ template at T = Sym; 1 path(s) -/
def M33.trace {α : Type} [Add α] (a : M33 α) : α :=
  ((a.x00 + a.x11) + a.x22)

/-- extracted from the C++ template at T = Sym; 1 path(s) -/
def M44.mul {α : Type} [Add α] [Mul α] (a : M44 α) (b : M44 α) : (M44 α) :=
  ⟨((((a.x00 * b.x00) + (a.x01 * b.x10)) + (a.x02 * b.x20)) + (a.x03 * b.x30)), ((((a.x00 * b.x01) + (a.x01 * b.x11)) + (a.x02 * b.x21)) + (a.x03 * b.x31)), ((((a.x00 * b.x02) + (a.x01 * b.x12)) + (a.x02 * b.x22)) + (a.x03 * b.x32)), ((((a.x00 * b.x03) + (a.x01 * b.x13)) + (a.x02 * b.x23)) + (a.x03 * b.x33)), ((((a.x10 * b.x00) + (a.x11 * b.x10)) + (a.x12 * b.x20)) + (a.x13 * b.x30)), ((((a.x10 * b.x01) + (a.x11 * b.x11)) + (a.x12 * b.x21)) + (a.x13 * b.x31)), ((((a.x10 * b.x02) + (a.x11 * b.x12)) + (a.x12 * b.x22)) + (a.x13 * b.x32)), ((((a.x10 * b.x03) + (a.x11 * b.x13)) + (a.x12 * b.x23)) + (a.x13 * b.x33)), ((((a.x20 * b.x00) + (a.x21 * b.x10)) + (a.x22 * b.x20)) + (a.x23 * b.x30)), ((((a.x20 * b.x01) + (a.x21 * b.x11)) + (a.x22 * b.x21)) + (a.x23 * b.x31)), ((((a.x20 * b.x02) + (a.x21 * b.x12)) + (a.x22 * b.x22)) + (a.x23 * b.x32)), ((((a.x20 * b.x03) + (a.x21 * b.x13)) + (a.x22 * b.x23)) + (a.x23 * b.x33)), ((((a.x30 * b.x00) + (a.x31 * b.x10)) + (a.x32 * b.x20)) + (a.x33 * b.x30)), ((((a.x30 * b.x01) + (a.x31 * b.x11)) + (a.x32 * b.x21)) + (a.x33 * b.x31)), ((((a.x30 * b.x02) + (a.x31 * b.x12)) + (a.x32 * b.x22)) + (a.x33 * b.x32)), ((((a.x30 * b.x03) + (a.x31 * b.x13)) + (a.x32 * b.x23)) + (a.x33 * b.x33))⟩

/-- extracted from the C++ template at T = Sym; 1 path(s) -/
def M44.mulAssign {α : Type} [Add α] [Mul α] (a : M44 α) (b : M44 α) : (M44 α) :=
  ⟨((((a.x00 * b.x00) + (a.x01 * b.x10)) + (a.x02 * b.x20)) + (a.x03 * b.x30)), ((((a.x00 * b.x01) + (a.x01 * b.x11)) + (a.x02 * b.x21)) + (a.x03 * b.x31)), ((((a.x00 * b.x02) + (a.x01 * b.x12)) + (a.x02 * b.x22)) + (a.x03 * b.x32)), ((((a.x00 * b.x03) + (a.x01 * b.x13)) + (a.x02 * b.x23)) + (a.x03 * b.x33)), ((((a.x10 * b.x00) + (a.x11 * b.x10)) + (a.x12 * b.x20)) + (a.x13 * b.x30)), ((((a.x10 * b.x01) + (a.x11 * b.x11)) + (a.x12 * b.x21)) + (a.x13 * b.x31)), ((((a.x10 * b.x02) + (a.x11 * b.x12)) + (a.x12 * b.x22)) + (a.x13 * b.x32)), ((((a.x10 * b.x03) + (a.x11 * b.x13)) + (a.x12 * b.x23)) + (a.x13 * b.x33)), ((((a.x20 * b.x00) + (a.x21 * b.x10)) + (a.x22 * b.x20)) + (a.x23 * b.x30)), ((((a.x20 * b.x01) + (a.x21 * b.x11)) + (a.x22 * b.x21)) + (a.x23 * b.x31)), ((((a.x20 * b.x02) + (a.x21 * b.x12)) + (a.x22 * b.x22)) + (a.x23 * b.x32)), ((((a.x20 * b.x03) + (a.x21 * b.x13)) + (a.x22 * b.x23)) + (a.x23 * b.x33)), ((((a.x30 * b.x00) + (a.x31 * b.x10)) + (a.x32 * b.x20)) + (a.x33 * b.x30)), ((((a.x30 * b.x01) + (a.x31 * b.x11)) + (a.x32 * b.x21)) + (a.x33 * b.x31)), ((((a.x30 * b.x02) + (a.x31 * b.x12)) + (a.x32 * b.x22)) + (a.x33 * b.x32)), ((((a.x30 * b.x03) + (a.x31 * b.x13)) + (a.x32 * b.x23)) + (a.x33 * b.x33))⟩

/-- extracted from the C++ template at T = Sym; 1 path(s) -/
def M44.transpose {α : Type} (a : M44 α) : (M44 α) :=
  ⟨a.x00, a.x10, a.x20, a.x30, a.x01, a.x11, a.x21, a.x31, a.x02, a.x12, a.x22, a.x32, a.x03, a.x13, a.x23, a.x33⟩

/-- extracted from the C++ template at T = Sym; 1 path(s) -/
def M44.transposed {α : Type} (a : M44 α) : (M44 α) :=
  ⟨a.x00, a.x10, a.x20, a.x30, a.x01, a.x11, a.x21, a.x31, a.x02, a.x12, a.x22, a.x32, a.x03, a.x13, a.x23, a.x33⟩

/-- extracted from the C++ template at T = Sym; 16 path(s) -/
def M44.determinant {α : Type} [Add α] [Sub α] [Mul α] [DecidableEq α] [OfNat α 0] (a : M44 α) : α :=
  let t241 := (a.x33 * (((a.x00 * ((a.x11 * a.x22) - (a.x12 * a.x21))) + (a.x01 * ((a.x12 * a.x20) - (a.x10 * a.x22)))) + (a.x02 * ((a.x10 * a.x21) - (a.x11 * a.x20)))))
  let t257 := (a.x23 * (((a.x00 * ((a.x11 * a.x32) - (a.x12 * a.x31))) + (a.x01 * ((a.x12 * a.x30) - (a.x10 * a.x32)))) + (a.x02 * ((a.x10 * a.x31) - (a.x11 * a.x30)))))
  let t258 := ((0 : α) - t257)
  let t262 := ((a.x20 * a.x31) - (a.x21 * a.x30))
  let t266 := ((a.x22 * a.x30) - (a.x20 * a.x32))
  let t270 := ((a.x21 * a.x32) - (a.x22 * a.x31))
  let t274 := (a.x13 * (((a.x00 * t270) + (a.x01 * t266)) + (a.x02 * t262)))
  let t275 := ((0 : α) + t274)
  let t277 := (t275 - t257)
  let t285 := ((0 : α) - (a.x03 * (((a.x10 * t270) + (a.x11 * t266)) + (a.x12 * t262))))
  let t287 := (t285 - t257)
  let t289 := (t285 + t274)
  let t291 := (t289 - t257)
  if a.x03 = (0 : α) then
    if a.x13 = (0 : α) then
      if a.x23 = (0 : α) then
        if a.x33 = (0 : α) then
          (0 : α)
        else
          ((0 : α) + t241)
      else
        if a.x33 = (0 : α) then
          t258
        else
          (t258 + t241)
    else
      if a.x23 = (0 : α) then
        if a.x33 = (0 : α) then
          t275
        else
          (t275 + t241)
      else
        if a.x33 = (0 : α) then
          t277
        else
          (t277 + t241)
  else
    if a.x13 = (0 : α) then
      if a.x23 = (0 : α) then
        if a.x33 = (0 : α) then
          t285
        else
          (t285 + t241)
      else
        if a.x33 = (0 : α) then
          t287
        else
          (t287 + t241)
    else
      if a.x23 = (0 : α) then
        if a.x33 = (0 : α) then
          t289
        else
          (t289 + t241)
      else
        if a.x33 = (0 : α) then
          t291
        else
          (t291 + t241)

/-- extracted from the C++ template at T = Sym; 1 path(s) -/
def M44.trace {α : Type} [Add α] (a : M44 α) : α :=
  (((a.x00 + a.x11) + a.x22) + a.x33)

/-- extracted from the C++ template at T = Sym; 1 path(s) -/
def M44.multiplyStatic {α : Type} [Add α] [Mul α] (a : M44 α) (b : M44 α) : (M44 α) :=
  ⟨((((a.x00 * b.x00) + (a.x01 * b.x10)) + (a.x02 * b.x20)) + (a.x03 * b.x30)), ((((a.x00 * b.x01) + (a.x01 * b.x11)) + (a.x02 * b.x21)) + (a.x03 * b.x31)), ((((a.x00 * b.x02) + (a.x01 * b.x12)) + (a.x02 * b.x22)) + (a.x03 * b.x32)), ((((a.x00 * b.x03) + (a.x01 * b.x13)) + (a.x02 * b.x23)) + (a.x03 * b.x33)), ((((a.x10 * b.x00) + (a.x11 * b.x10)) + (a.x12 * b.x20)) + (a.x13 * b.x30)), ((((a.x10 * b.x01) + (a.x11 * b.x11)) + (a.x12 * b.x21)) + (a.x13 * b.x31)), ((((a.x10 * b.x02) + (a.x11 * b.x12)) + (a.x12 * b.x22)) + (a.x13 * b.x32)), ((((a.x10 * b.x03) + (a.x11 * b.x13)) + (a.x12 * b.x23)) + (a.x13 * b.x33)), ((((a.x20 * b.x00) + (a.x21 * b.x10)) + (a.x22 * b.x20)) + (a.x23 * b.x30)), ((((a.x20 * b.x01) + (a.x21 * b.x11)) + (a.x22 * b.x21)) + (a.x23 * b.x31)), ((((a.x20 * b.x02) + (a.x21 * b.x12)) + (a.x22 * b.x22)) + (a.x23 * b.x32)), ((((a.x20 * b.x03) + (a.x21 * b.x13)) + (a.x22 * b.x23)) + (a.x23 * b.x33)), ((((a.x30 * b.x00) + (a.x31 * b.x10)) + (a.x32 * b.x20)) + (a.x33 * b.x30)), ((((a.x30 * b.x01) + (a.x31 * b.x11)) + (a.x32 * b.x21)) + (a.x33 * b.x31)), ((((a.x30 * b.x02) + (a.x31 * b.x12)) + (a.x32 * b.x22)) + (a.x33 * b.x32)), ((((a.x30 * b.x03) + (a.x31 * b.x13)) + (a.x32 * b.x23)) + (a.x33 * b.x33))⟩

/-- extracted from the C++ template at T = Sym; 1 path(s) -/
def M44.multiplyStatic3 {α : Type} [Add α] [Mul α] (a : M44 α) (b : M44 α) : (M44 α) :=
  ⟨((((a.x00 * b.x00) + (a.x01 * b.x10)) + (a.x02 * b.x20)) + (a.x03 * b.x30)), ((((a.x00 * b.x01) + (a.x01 * b.x11)) + (a.x02 * b.x21)) + (a.x03 * b.x31)), ((((a.x00 * b.x02) + (a.x01 * b.x12)) + (a.x02 * b.x22)) + (a.x03 * b.x32)), ((((a.x00 * b.x03) + (a.x01 * b.x13)) + (a.x02 * b.x23)) + (a.x03 * b.x33)), ((((a.x10 * b.x00) + (a.x11 * b.x10)) + (a.x12 * b.x20)) + (a.x13 * b.x30)), ((((a.x10 * b.x01) + (a.x11 * b.x11)) + (a.x12 * b.x21)) + (a.x13 * b.x31)), ((((a.x10 * b.x02) + (a.x11 * b.x12)) + (a.x12 * b.x22)) + (a.x13 * b.x32)), ((((a.x10 * b.x03) + (a.x11 * b.x13)) + (a.x12 * b.x23)) + (a.x13 * b.x33)), ((((a.x20 * b.x00) + (a.x21 * b.x10)) + (a.x22 * b.x20)) + (a.x23 * b.x30)), ((((a.x20 * b.x01) + (a.x21 * b.x11)) + (a.x22 * b.x21)) + (a.x23 * b.x31)), ((((a.x20 * b.x02) + (a.x21 * b.x12)) + (a.x22 * b.x22)) + (a.x23 * b.x32)), ((((a.x20 * b.x03) + (a.x21 * b.x13)) + (a.x22 * b.x23)) + (a.x23 * b.x33)), ((((a.x30 * b.x00) + (a.x31 * b.x10)) + (a.x32 * b.x20)) + (a.x33 * b.x30)), ((((a.x30 * b.x01) + (a.x31 * b.x11)) + (a.x32 * b.x21)) + (a.x33 * b.x31)), ((((a.x30 * b.x02) + (a.x31 * b.x12)) + (a.x32 * b.x22)) + (a.x33 * b.x32)), ((((a.x30 * b.x03) + (a.x31 * b.x13)) + (a.x32 * b.x23)) + (a.x33 * b.x33))⟩

/-- extracted from the C++ template at T = Sym; 1 path(s) -/
def V2.mulM22 {α : Type} [Add α] [Mul α] (v : V2 α) (m : M22 α) : (V2 α) :=
  ⟨((v.x * m.x00) + (v.y * m.x10)), ((v.x * m.x01) + (v.y * m.x11))⟩

/-- extracted from the C++ template at T = Sym; 1 path(s) -/
def V2.mulAssignM22 {α : Type} [Add α] [Mul α] (v : V2 α) (m : M22 α) : (V2 α) :=
  ⟨((v.x * m.x00) + (v.y * m.x10)), ((v.x * m.x01) + (v.y * m.x11))⟩

/-- extracted from the C++ template at T = Sym; 1 path(s) -/
def M22.multDirMatrix {α : Type} [Add α] [Mul α] (m : M22 α) (v : V2 α) : (V2 α) :=
  ⟨((v.x * m.x00) + (v.y * m.x10)), ((v.x * m.x01) + (v.y * m.x11))⟩

/-- extracted from the C++ template at T = Sym; 1 path(s) -/
def V2.mulM33 {α : Type} [Add α] [Mul α] [Div α] (v : V2 α) (m : M33 α) : (V2 α) :=
  let t316 := (((v.x * m.x02) + (v.y * m.x12)) + m.x22)
  ⟨((((v.x * m.x00) + (v.y * m.x10)) + m.x20) / t316), ((((v.x * m.x01) + (v.y * m.x11)) + m.x21) / t316)⟩

/-- extracted from the C++ template at T = Sym; 1 path(s) -/
def V2.mulAssignM33 {α : Type} [Add α] [Mul α] [Div α] (v : V2 α) (m : M33 α) : (V2 α) :=
  let t316 := (((v.x * m.x02) + (v.y * m.x12)) + m.x22)
  ⟨((((v.x * m.x00) + (v.y * m.x10)) + m.x20) / t316), ((((v.x * m.x01) + (v.y * m.x11)) + m.x21) / t316)⟩

/-- extracted from the C++ template at T = Sym; 1 path(s) -/
def M33.multVecMatrix {α : Type} [Add α] [Mul α] [Div α] (m : M33 α) (v : V2 α) : (V2 α) :=
  let t316 := (((v.x * m.x02) + (v.y * m.x12)) + m.x22)
  ⟨((((v.x * m.x00) + (v.y * m.x10)) + m.x20) / t316), ((((v.x * m.x01) + (v.y * m.x11)) + m.x21) / t316)⟩

/-- extracted from the C++ template at T = Sym; 1 path(s) -/
def M33.multDirMatrix {α : Type} [Add α] [Mul α] (m : M33 α) (v : V2 α) : (V2 α) :=
  ⟨((v.x * m.x00) + (v.y * m.x10)), ((v.x * m.x01) + (v.y * m.x11))⟩

/-- extracted from the C++ template at T = Sym; 1 path(s) -/
def V3.mulM33 {α : Type} [Add α] [Mul α] (v : V3 α) (m : M33 α) : (V3 α) :=
  ⟨(((v.x * m.x00) + (v.y * m.x10)) + (v.z * m.x20)), (((v.x * m.x01) + (v.y * m.x11)) + (v.z * m.x21)), (((v.x * m.x02) + (v.y * m.x12)) + (v.z * m.x22))⟩

/-- extracted from the C++ template at T = Sym; 1 path(s) -/
def V3.mulAssignM33 {α : Type} [Add α] [Mul α] (v : V3 α) (m : M33 α) : (V3 α) :=
  ⟨(((v.x * m.x00) + (v.y * m.x10)) + (v.z * m.x20)), (((v.x * m.x01) + (v.y * m.x11)) + (v.z * m.x21)), (((v.x * m.x02) + (v.y * m.x12)) + (v.z * m.x22))⟩

/-- extracted from the C++ template at T = Sym; 1 path(s) -/
def V3.mulM44 {α : Type} [Add α] [Mul α] [Div α] (v : V3 α) (m : M44 α) : (V3 α) :=
  let t341 := ((((v.x * m.x03) + (v.y * m.x13)) + (v.z * m.x23)) + m.x33)
  ⟨(((((v.x * m.x00) + (v.y * m.x10)) + (v.z * m.x20)) + m.x30) / t341), (((((v.x * m.x01) + (v.y * m.x11)) + (v.z * m.x21)) + m.x31) / t341), (((((v.x * m.x02) + (v.y * m.x12)) + (v.z * m.x22)) + m.x32) / t341)⟩

/-- extracted from the C++ template at T = Sym; 1 path(s) -/
def V3.mulAssignM44 {α : Type} [Add α] [Mul α] [Div α] (v : V3 α) (m : M44 α) : (V3 α) :=
  let t341 := ((((v.x * m.x03) + (v.y * m.x13)) + (v.z * m.x23)) + m.x33)
  ⟨(((((v.x * m.x00) + (v.y * m.x10)) + (v.z * m.x20)) + m.x30) / t341), (((((v.x * m.x01) + (v.y * m.x11)) + (v.z * m.x21)) + m.x31) / t341), (((((v.x * m.x02) + (v.y * m.x12)) + (v.z * m.x22)) + m.x32) / t341)⟩

/-- extracted from the C++ template at T = Sym; 1 path(s) -/
def M44.multVecMatrix {α : Type} [Add α] [Mul α] [Div α] (m : M44 α) (v : V3 α) : (V3 α) :=
  let t341 := ((((v.x * m.x03) + (v.y * m.x13)) + (v.z * m.x23)) + m.x33)
  ⟨(((((v.x * m.x00) + (v.y * m.x10)) + (v.z * m.x20)) + m.x30) / t341), (((((v.x * m.x01) + (v.y * m.x11)) + (v.z * m.x21)) + m.x31) / t341), (((((v.x * m.x02) + (v.y * m.x12)) + (v.z * m.x22)) + m.x32) / t341)⟩

/-- extracted from the C++ template at T = Sym; 1 path(s) -/
def M44.multDirMatrix {α : Type} [Add α] [Mul α] (m : M44 α) (v : V3 α) : (V3 α) :=
  ⟨(((v.x * m.x00) + (v.y * m.x10)) + (v.z * m.x20)), (((v.x * m.x01) + (v.y * m.x11)) + (v.z * m.x21)), (((v.x * m.x02) + (v.y * m.x12)) + (v.z * m.x22))⟩

/-- extracted from the C++ template at T = Sym; 1 path(s) -/
def V4.mulM44 {α : Type} [Add α] [Mul α] (v : V4 α) (m : M44 α) : (V4 α) :=
  ⟨((((v.x * m.x00) + (v.y * m.x10)) + (v.z * m.x20)) + (v.w * m.x30)), ((((v.x * m.x01) + (v.y * m.x11)) + (v.z * m.x21)) + (v.w * m.x31)), ((((v.x * m.x02) + (v.y * m.x12)) + (v.z * m.x22)) + (v.w * m.x32)), ((((v.x * m.x03) + (v.y * m.x13)) + (v.z * m.x23)) + (v.w * m.x33))⟩

/-- extracted from the C++ template at T = Sym; 1 path(s) -/
def V4.mulAssignM44 {α : Type} [Add α] [Mul α] (v : V4 α) (m : M44 α) : (V4 α) :=
  ⟨((((v.x * m.x00) + (v.y * m.x10)) + (v.z * m.x20)) + (v.w * m.x30)), ((((v.x * m.x01) + (v.y * m.x11)) + (v.z * m.x21)) + (v.w * m.x31)), ((((v.x * m.x02) + (v.y * m.x12)) + (v.z * m.x22)) + (v.w * m.x32)), ((((v.x * m.x03) + (v.y * m.x13)) + (v.z * m.x23)) + (v.w * m.x33))⟩

/-- extracted from the C++ template at T = Sym; 1 path(s) -/
def M33.outerProduct {α : Type} [Mul α] (a : V3 α) (b : V3 α) : (M33 α) :=
  ⟨(a.x * b.x), (a.x * b.y), (a.x * b.z), (a.y * b.x), (a.y * b.y), (a.y * b.z), (a.z * b.x), (a.z * b.y), (a.z * b.z)⟩

/-- extracted from the C++ template at T = Sym; 1 path(s) -/
def M44.outerProduct {α : Type} [Mul α] (a : V4 α) (b : V4 α) : (M44 α) :=
  ⟨(a.x * b.x), (a.x * b.y), (a.x * b.z), (a.x * b.w), (a.y * b.x), (a.y * b.y), (a.y * b.z), (a.y * b.w), (a.z * b.x), (a.z * b.y), (a.z * b.z), (a.z * b.w), (a.w * b.x), (a.w * b.y), (a.w * b.z), (a.w * b.w)⟩

/-- extracted from the C++ template at T = Sym; 1 path(s) -/
def M33.minorOf_0_0 {α : Type} [Sub α] [Mul α] (a : M33 α) : α :=
  ((a.x11 * a.x22) - (a.x21 * a.x12))

/-- extracted from the C++ template at T = Sym; 1 path(s) -/
def M33.minorOf_0_1 {α : Type} [Sub α] [Mul α] (a : M33 α) : α :=
  ((a.x10 * a.x22) - (a.x20 * a.x12))

/-- extracted from the C++ template at T = Sym; 1 path(s) -/
def M33.minorOf_0_2 {α : Type} [Sub α] [Mul α] (a : M33 α) : α :=
  ((a.x10 * a.x21) - (a.x20 * a.x11))

/-- extracted from the C++ template at T = Sym; 1 path(s) -/
def M33.minorOf_1_0 {α : Type} [Sub α] [Mul α] (a : M33 α) : α :=
  ((a.x01 * a.x22) - (a.x21 * a.x02))

/-- extracted from the C++ template at T = Sym; 1 path(s) -/
def M33.minorOf_1_1 {α : Type} [Sub α] [Mul α] (a : M33 α) : α :=
  ((a.x00 * a.x22) - (a.x20 * a.x02))

/-- extracted from the C++ template at T = Sym; 1 path(s) -/
def M33.minorOf_1_2 {α : Type} [Sub α] [Mul α] (a : M33 α) : α :=
  ((a.x00 * a.x21) - (a.x20 * a.x01))

/-- extracted from the C++ template at T = Sym; 1 path(s) -/
def M33.minorOf_2_0 {α : Type} [Sub α] [Mul α] (a : M33 α) : α :=
  ((a.x01 * a.x12) - (a.x11 * a.x02))

/-- extracted from the C++ template at T = Sym; 1 path(s) -/
def M33.minorOf_2_1 {α : Type} [Sub α] [Mul α] (a : M33 α) : α :=
  ((a.x00 * a.x12) - (a.x10 * a.x02))

/-- extracted from the C++ template at T = Sym; 1 path(s) -/
def M33.minorOf_2_2 {α : Type} [Sub α] [Mul α] (a : M33 α) : α :=
  ((a.x00 * a.x11) - (a.x10 * a.x01))

/-- extracted from the C++ template at T = Sym; 1 path(s) -/
def M44.minorOf_0_0 {α : Type} [Add α] [Sub α] [Mul α] (a : M44 α) : α :=
  (((a.x11 * ((a.x22 * a.x33) - (a.x32 * a.x23))) + (a.x21 * ((a.x32 * a.x13) - (a.x12 * a.x33)))) + (a.x31 * ((a.x12 * a.x23) - (a.x22 * a.x13))))

/-- extracted from the C++ template at T = Sym; 1 path(s) -/
def M44.minorOf_0_1 {α : Type} [Add α] [Sub α] [Mul α] (a : M44 α) : α :=
  (((a.x10 * ((a.x22 * a.x33) - (a.x32 * a.x23))) + (a.x20 * ((a.x32 * a.x13) - (a.x12 * a.x33)))) + (a.x30 * ((a.x12 * a.x23) - (a.x22 * a.x13))))

/-- extracted from the C++ template at T = Sym; 1 path(s) -/
def M44.minorOf_0_2 {α : Type} [Add α] [Sub α] [Mul α] (a : M44 α) : α :=
  (((a.x10 * ((a.x21 * a.x33) - (a.x31 * a.x23))) + (a.x20 * ((a.x31 * a.x13) - (a.x11 * a.x33)))) + (a.x30 * ((a.x11 * a.x23) - (a.x21 * a.x13))))

/-- extracted from the C++ template at T = Sym; 1 path(s) -/
def M44.minorOf_0_3 {α : Type} [Add α] [Sub α] [Mul α] (a : M44 α) : α :=
  (((a.x10 * ((a.x21 * a.x32) - (a.x31 * a.x22))) + (a.x20 * ((a.x31 * a.x12) - (a.x11 * a.x32)))) + (a.x30 * ((a.x11 * a.x22) - (a.x21 * a.x12))))

/-- extracted from the C++ template at T = Sym; 1 path(s) -/
def M44.minorOf_1_0 {α : Type} [Add α] [Sub α] [Mul α] (a : M44 α) : α :=
  (((a.x01 * ((a.x22 * a.x33) - (a.x32 * a.x23))) + (a.x21 * ((a.x32 * a.x03) - (a.x02 * a.x33)))) + (a.x31 * ((a.x02 * a.x23) - (a.x22 * a.x03))))

/-- extracted from the C++ template at T = Sym; 1 path(s) -/
def M44.minorOf_1_1 {α : Type} [Add α] [Sub α] [Mul α] (a : M44 α) : α :=
  (((a.x00 * ((a.x22 * a.x33) - (a.x32 * a.x23))) + (a.x20 * ((a.x32 * a.x03) - (a.x02 * a.x33)))) + (a.x30 * ((a.x02 * a.x23) - (a.x22 * a.x03))))

/-- extracted from the C++ template at T = Sym; 1 path(s) -/
def M44.minorOf_1_2 {α : Type} [Add α] [Sub α] [Mul α] (a : M44 α) : α :=
  (((a.x00 * ((a.x21 * a.x33) - (a.x31 * a.x23))) + (a.x20 * ((a.x31 * a.x03) - (a.x01 * a.x33)))) + (a.x30 * ((a.x01 * a.x23) - (a.x21 * a.x03))))

/-- extracted from the C++ template at T = Sym; 1 path(s) -/
def M44.minorOf_1_3 {α : Type} [Add α] [Sub α] [Mul α] (a : M44 α) : α :=
  (((a.x00 * ((a.x21 * a.x32) - (a.x31 * a.x22))) + (a.x20 * ((a.x31 * a.x02) - (a.x01 * a.x32)))) + (a.x30 * ((a.x01 * a.x22) - (a.x21 * a.x02))))

/-- extracted from the C++ template at T = Sym; 1 path(s) -/
def M44.minorOf_2_0 {α : Type} [Add α] [Sub α] [Mul α] (a : M44 α) : α :=
  (((a.x01 * ((a.x12 * a.x33) - (a.x32 * a.x13))) + (a.x11 * ((a.x32 * a.x03) - (a.x02 * a.x33)))) + (a.x31 * ((a.x02 * a.x13) - (a.x12 * a.x03))))

/-- extracted from the C++ template at T = Sym; 1 path(s) -/
def M44.minorOf_2_1 {α : Type} [Add α] [Sub α] [Mul α] (a : M44 α) : α :=
  (((a.x00 * ((a.x12 * a.x33) - (a.x32 * a.x13))) + (a.x10 * ((a.x32 * a.x03) - (a.x02 * a.x33)))) + (a.x30 * ((a.x02 * a.x13) - (a.x12 * a.x03))))

/-- extracted from the C++ template at T = Sym; 1 path(s) -/
def M44.minorOf_2_2 {α : Type} [Add α] [Sub α] [Mul α] (a : M44 α) : α :=
  (((a.x00 * ((a.x11 * a.x33) - (a.x31 * a.x13))) + (a.x10 * ((a.x31 * a.x03) - (a.x01 * a.x33)))) + (a.x30 * ((a.x01 * a.x13) - (a.x11 * a.x03))))

/-- extracted from the C++ template at T = Sym; 1 path(s) -/
def M44.minorOf_2_3 {α : Type} [Add α] [Sub α] [Mul α] (a : M44 α) : α :=
  (((a.x00 * ((a.x11 * a.x32) - (a.x31 * a.x12))) + (a.x10 * ((a.x31 * a.x02) - (a.x01 * a.x32)))) + (a.x30 * ((a.x01 * a.x12) - (a.x11 * a.x02))))

/-- extracted from the C++ template at T = Sym; 1 path(s) -/
def M44.minorOf_3_0 {α : Type} [Add α] [Sub α] [Mul α] (a : M44 α) : α :=
  (((a.x01 * ((a.x12 * a.x23) - (a.x22 * a.x13))) + (a.x11 * ((a.x22 * a.x03) - (a.x02 * a.x23)))) + (a.x21 * ((a.x02 * a.x13) - (a.x12 * a.x03))))

/-- extracted from the C++ template at T = Sym; 1 path(s) -/
def M44.minorOf_3_1 {α : Type} [Add α] [Sub α] [Mul α] (a : M44 α) : α :=
  (((a.x00 * ((a.x12 * a.x23) - (a.x22 * a.x13))) + (a.x10 * ((a.x22 * a.x03) - (a.x02 * a.x23)))) + (a.x20 * ((a.x02 * a.x13) - (a.x12 * a.x03))))

/-- extracted from the C++ template at T = Sym; 1 path(s) -/
def M44.minorOf_3_2 {α : Type} [Add α] [Sub α] [Mul α] (a : M44 α) : α :=
  (((a.x00 * ((a.x11 * a.x23) - (a.x21 * a.x13))) + (a.x10 * ((a.x21 * a.x03) - (a.x01 * a.x23)))) + (a.x20 * ((a.x01 * a.x13) - (a.x11 * a.x03))))

/-- extracted from the C++ template at T = Sym; 1 path(s) -/
def M44.minorOf_3_3 {α : Type} [Add α] [Sub α] [Mul α] (a : M44 α) : α :=
  (((a.x00 * ((a.x11 * a.x22) - (a.x21 * a.x12))) + (a.x10 * ((a.x21 * a.x02) - (a.x01 * a.x22)))) + (a.x20 * ((a.x01 * a.x12) - (a.x11 * a.x02))))

/-- extracted from the C++ template at T = Sym; 1 path(s) -/
def M33.fastMinor_01_12 {α : Type} [Sub α] [Mul α] (a : M33 α) : α :=
  ((a.x01 * a.x12) - (a.x02 * a.x11))

/-- extracted from the C++ template at T = Sym; 1 path(s) -/
def M33.fastMinor_12_02 {α : Type} [Sub α] [Mul α] (a : M33 α) : α :=
  ((a.x10 * a.x22) - (a.x12 * a.x20))

/-- extracted from the C++ template at T = Sym; 1 path(s) -/
def M44.fastMinor_123_012 {α : Type} [Add α] [Sub α] [Mul α] (a : M44 α) : α :=
  (((a.x10 * ((a.x21 * a.x32) - (a.x22 * a.x31))) + (a.x11 * ((a.x22 * a.x30) - (a.x20 * a.x32)))) + (a.x12 * ((a.x20 * a.x31) - (a.x21 * a.x30))))

/-- extracted from the C++ template at T = Sym; 1 path(s) -/
def M44.fastMinor_013_123 {α : Type} [Add α] [Sub α] [Mul α] (a : M44 α) : α :=
  (((a.x01 * ((a.x12 * a.x33) - (a.x13 * a.x32))) + (a.x02 * ((a.x13 * a.x31) - (a.x11 * a.x33)))) + (a.x03 * ((a.x11 * a.x32) - (a.x12 * a.x31))))

/-- extracted from the C++ template at T = Sym; 1 path(s) -/
def M33.fastMinor_21_20 {α : Type} [Sub α] [Mul α] (a : M33 α) : α :=
  ((a.x22 * a.x10) - (a.x20 * a.x12))

/-- extracted from the C++ template at T = Sym; 1 path(s) -/
def M33.fastMinor_00_11 {α : Type} [Sub α] [Mul α] (a : M33 α) : α :=
  let t524 := (a.x01 * a.x01)
  (t524 - t524)

/-- extracted from the C++ template at T = Sym; 1 path(s) -/
def M33.fastMinor_20_02 {α : Type} [Sub α] [Mul α] (a : M33 α) : α :=
  ((a.x20 * a.x02) - (a.x22 * a.x00))

/-- extracted from the C++ template at T = Sym; 1 path(s) -/
def M44.fastMinor_321_210 {α : Type} [Add α] [Sub α] [Mul α] (a : M44 α) : α :=
  (((a.x32 * ((a.x21 * a.x10) - (a.x20 * a.x11))) + (a.x31 * ((a.x20 * a.x12) - (a.x22 * a.x10)))) + (a.x30 * ((a.x22 * a.x11) - (a.x21 * a.x12))))

/-- extracted from the C++ template at T = Sym; 1 path(s) -/
def M44.fastMinor_002_133 {α : Type} [Add α] [Sub α] [Mul α] (a : M44 α) : α :=
  let t440 := (a.x01 * a.x23)
  let t538 := (a.x03 * a.x21)
  let t543 := (a.x03 * a.x23)
  (((a.x01 * (t543 - t543)) + (a.x03 * (t538 - t440))) + (a.x03 * (t440 - t538)))

/-- extracted from the C++ template at T = Sym; 1 path(s) -/
def M44.fastMinor_023_012 {α : Type} [Add α] [Sub α] [Mul α] (a : M44 α) : α :=
  (((a.x00 * ((a.x21 * a.x32) - (a.x22 * a.x31))) + (a.x01 * ((a.x22 * a.x30) - (a.x20 * a.x32)))) + (a.x02 * ((a.x20 * a.x31) - (a.x21 * a.x30))))

/-- extracted from the C++ template at T = Sym; 1 path(s) -/
def M44.fastMinor_013_012 {α : Type} [Add α] [Sub α] [Mul α] (a : M44 α) : α :=
  (((a.x00 * ((a.x11 * a.x32) - (a.x12 * a.x31))) + (a.x01 * ((a.x12 * a.x30) - (a.x10 * a.x32)))) + (a.x02 * ((a.x10 * a.x31) - (a.x11 * a.x30))))

/-- extracted from the C++ template at T = Sym; 1 path(s) -/
def M44.fastMinor_012_012 {α : Type} [Add α] [Sub α] [Mul α] (a : M44 α) : α :=
  (((a.x00 * ((a.x11 * a.x22) - (a.x12 * a.x21))) + (a.x01 * ((a.x12 * a.x20) - (a.x10 * a.x22)))) + (a.x02 * ((a.x10 * a.x21) - (a.x11 * a.x20))))

/-- extracted from the C++ template at T = Sym; 1 path(s) -/
def Quat.mulAssignSelf {α : Type} [Add α] [Sub α] [Mul α] (a : Quat α) : (Quat α) :=
  ⟨((a.r * a.r) - (((a.v.x * a.v.x) + (a.v.y * a.v.y)) + (a.v.z * a.v.z))), ⟨(((a.r * a.v.x) + (a.v.x * a.r)) + ((a.v.y * a.v.z) - (a.v.z * a.v.y))), (((a.r * a.v.y) + (a.v.y * a.r)) + ((a.v.z * a.v.x) - (a.v.x * a.v.z))), (((a.r * a.v.z) + (a.v.z * a.r)) + ((a.v.x * a.v.y) - (a.v.y * a.v.x)))⟩⟩

/-- extracted from the C++ template at T = Sym; 1 path(s) -/
def M22.mulAssignSelf {α : Type} [Add α] [Mul α] [OfNat α 0] (a : M22 α) : (M22 α) :=
  ⟨(((0 : α) + (a.x00 * a.x00)) + (a.x01 * a.x10)), (((0 : α) + (a.x00 * a.x01)) + (a.x01 * a.x11)), (((0 : α) + (a.x10 * a.x00)) + (a.x11 * a.x10)), (((0 : α) + (a.x10 * a.x01)) + (a.x11 * a.x11))⟩

/-- extracted from the C++ template at T = Sym; 1 path(s) -/
def M33.mulAssignSelf {α : Type} [Add α] [Mul α] (a : M33 α) : (M33 α) :=
  ⟨(((a.x00 * a.x00) + (a.x01 * a.x10)) + (a.x02 * a.x20)), (((a.x00 * a.x01) + (a.x01 * a.x11)) + (a.x02 * a.x21)), (((a.x00 * a.x02) + (a.x01 * a.x12)) + (a.x02 * a.x22)), (((a.x10 * a.x00) + (a.x11 * a.x10)) + (a.x12 * a.x20)), (((a.x10 * a.x01) + (a.x11 * a.x11)) + (a.x12 * a.x21)), (((a.x10 * a.x02) + (a.x11 * a.x12)) + (a.x12 * a.x22)), (((a.x20 * a.x00) + (a.x21 * a.x10)) + (a.x22 * a.x20)), (((a.x20 * a.x01) + (a.x21 * a.x11)) + (a.x22 * a.x21)), (((a.x20 * a.x02) + (a.x21 * a.x12)) + (a.x22 * a.x22))⟩

/-- extracted from the C++ template at T = Sym; 1 path(s) -/
def M44.mulAssignSelf {α : Type} [Add α] [Mul α] (a : M44 α) : (M44 α) :=
  ⟨((((a.x00 * a.x00) + (a.x01 * a.x10)) + (a.x02 * a.x20)) + (a.x03 * a.x30)), ((((a.x00 * a.x01) + (a.x01 * a.x11)) + (a.x02 * a.x21)) + (a.x03 * a.x31)), ((((a.x00 * a.x02) + (a.x01 * a.x12)) + (a.x02 * a.x22)) + (a.x03 * a.x32)), ((((a.x00 * a.x03) + (a.x01 * a.x13)) + (a.x02 * a.x23)) + (a.x03 * a.x33)), ((((a.x10 * a.x00) + (a.x11 * a.x10)) + (a.x12 * a.x20)) + (a.x13 * a.x30)), ((((a.x10 * a.x01) + (a.x11 * a.x11)) + (a.x12 * a.x21)) + (a.x13 * a.x31)), ((((a.x10 * a.x02) + (a.x11 * a.x12)) + (a.x12 * a.x22)) + (a.x13 * a.x32)), ((((a.x10 * a.x03) + (a.x11 * a.x13)) + (a.x12 * a.x23)) + (a.x13 * a.x33)), ((((a.x20 * a.x00) + (a.x21 * a.x10)) + (a.x22 * a.x20)) + (a.x23 * a.x30)), ((((a.x20 * a.x01) + (a.x21 * a.x11)) + (a.x22 * a.x21)) + (a.x23 * a.x31)), ((((a.x20 * a.x02) + (a.x21 * a.x12)) + (a.x22 * a.x22)) + (a.x23 * a.x32)), ((((a.x20 * a.x03) + (a.x21 * a.x13)) + (a.x22 * a.x23)) + (a.x23 * a.x33)), ((((a.x30 * a.x00) + (a.x31 * a.x10)) + (a.x32 * a.x20)) + (a.x33 * a.x30)), ((((a.x30 * a.x01) + (a.x31 * a.x11)) + (a.x32 * a.x21)) + (a.x33 * a.x31)), ((((a.x30 * a.x02) + (a.x31 * a.x12)) + (a.x32 * a.x22)) + (a.x33 * a.x32)), ((((a.x30 * a.x03) + (a.x31 * a.x13)) + (a.x32 * a.x23)) + (a.x33 * a.x33))⟩

/-- extracted from the C++ template at T = Sym; 1 path(s) -/
def V3.crossAssignSelf {α : Type} [Sub α] [Mul α] (a : V3 α) : (V3 α) :=
  ⟨((a.y * a.z) - (a.z * a.y)), ((a.z * a.x) - (a.x * a.z)), ((a.x * a.y) - (a.y * a.x))⟩

/-- extracted from the C++ template at T = Sym; 1 path(s) -/
def M44.multiplyStatic3AliasA {α : Type} [Add α] [Mul α] (a : M44 α) (b : M44 α) : (M44 α) :=
  ⟨((((a.x00 * b.x00) + (a.x01 * b.x10)) + (a.x02 * b.x20)) + (a.x03 * b.x30)), ((((a.x00 * b.x01) + (a.x01 * b.x11)) + (a.x02 * b.x21)) + (a.x03 * b.x31)), ((((a.x00 * b.x02) + (a.x01 * b.x12)) + (a.x02 * b.x22)) + (a.x03 * b.x32)), ((((a.x00 * b.x03) + (a.x01 * b.x13)) + (a.x02 * b.x23)) + (a.x03 * b.x33)), ((((a.x10 * b.x00) + (a.x11 * b.x10)) + (a.x12 * b.x20)) + (a.x13 * b.x30)), ((((a.x10 * b.x01) + (a.x11 * b.x11)) + (a.x12 * b.x21)) + (a.x13 * b.x31)), ((((a.x10 * b.x02) + (a.x11 * b.x12)) + (a.x12 * b.x22)) + (a.x13 * b.x32)), ((((a.x10 * b.x03) + (a.x11 * b.x13)) + (a.x12 * b.x23)) + (a.x13 * b.x33)), ((((a.x20 * b.x00) + (a.x21 * b.x10)) + (a.x22 * b.x20)) + (a.x23 * b.x30)), ((((a.x20 * b.x01) + (a.x21 * b.x11)) + (a.x22 * b.x21)) + (a.x23 * b.x31)), ((((a.x20 * b.x02) + (a.x21 * b.x12)) + (a.x22 * b.x22)) + (a.x23 * b.x32)), ((((a.x20 * b.x03) + (a.x21 * b.x13)) + (a.x22 * b.x23)) + (a.x23 * b.x33)), ((((a.x30 * b.x00) + (a.x31 * b.x10)) + (a.x32 * b.x20)) + (a.x33 * b.x30)), ((((a.x30 * b.x01) + (a.x31 * b.x11)) + (a.x32 * b.x21)) + (a.x33 * b.x31)), ((((a.x30 * b.x02) + (a.x31 * b.x12)) + (a.x32 * b.x22)) + (a.x33 * b.x32)), ((((a.x30 * b.x03) + (a.x31 * b.x13)) + (a.x32 * b.x23)) + (a.x33 * b.x33))⟩

/-- extracted from the C++ template at T = Sym; 1 path(s) -/
def M44.multiplyStatic3AliasB {α : Type} [Add α] [Mul α] (a : M44 α) (b : M44 α) : (M44 α) :=
  ⟨((((a.x00 * b.x00) + (a.x01 * b.x10)) + (a.x02 * b.x20)) + (a.x03 * b.x30)), ((((a.x00 * b.x01) + (a.x01 * b.x11)) + (a.x02 * b.x21)) + (a.x03 * b.x31)), ((((a.x00 * b.x02) + (a.x01 * b.x12)) + (a.x02 * b.x22)) + (a.x03 * b.x32)), ((((a.x00 * b.x03) + (a.x01 * b.x13)) + (a.x02 * b.x23)) + (a.x03 * b.x33)), ((((a.x10 * b.x00) + (a.x11 * b.x10)) + (a.x12 * b.x20)) + (a.x13 * b.x30)), ((((a.x10 * b.x01) + (a.x11 * b.x11)) + (a.x12 * b.x21)) + (a.x13 * b.x31)), ((((a.x10 * b.x02) + (a.x11 * b.x12)) + (a.x12 * b.x22)) + (a.x13 * b.x32)), ((((a.x10 * b.x03) + (a.x11 * b.x13)) + (a.x12 * b.x23)) + (a.x13 * b.x33)), ((((a.x20 * b.x00) + (a.x21 * b.x10)) + (a.x22 * b.x20)) + (a.x23 * b.x30)), ((((a.x20 * b.x01) + (a.x21 * b.x11)) + (a.x22 * b.x21)) + (a.x23 * b.x31)), ((((a.x20 * b.x02) + (a.x21 * b.x12)) + (a.x22 * b.x22)) + (a.x23 * b.x32)), ((((a.x20 * b.x03) + (a.x21 * b.x13)) + (a.x22 * b.x23)) + (a.x23 * b.x33)), ((((a.x30 * b.x00) + (a.x31 * b.x10)) + (a.x32 * b.x20)) + (a.x33 * b.x30)), ((((a.x30 * b.x01) + (a.x31 * b.x11)) + (a.x32 * b.x21)) + (a.x33 * b.x31)), ((((a.x30 * b.x02) + (a.x31 * b.x12)) + (a.x32 * b.x22)) + (a.x33 * b.x32)), ((((a.x30 * b.x03) + (a.x31 * b.x13)) + (a.x32 * b.x23)) + (a.x33 * b.x33))⟩

end ImathVerif.Gen
