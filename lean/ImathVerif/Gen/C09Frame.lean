-- GENERATED from /repo/src/Imath by harness/sym (T = Sym path extraction); do not edit.
import ImathVerif.Basic.Types
import ImathVerif.Gen.Leaf
set_option linter.unusedVariables false
namespace ImathVerif.Gen
open ImathVerif

/-- extracted from the C++ template at T = Sym; 8 path(s) -/
def Frame.computeLocalFrame {α : Type} [Add α] [Sub α] [Mul α] [Div α] [Neg α] [LT α] [LE α] [DecidableLT α] [DecidableLE α] [DecidableEq α] [OfNat α 0] [OfNat α 1] [OfNat α 2] (tmin : α) (tmax : α) (sqrt : α → α) (p : V3 α) (xDir : V3 α) (normal : V3 α) : (M44 α) :=
  let t1939 := (V3.length tmin tmax sqrt ⟨xDir.x, xDir.y, xDir.z⟩)
  let t1942 := ((normal.x * xDir.y) - (normal.y * xDir.x))
  let t1945 := ((normal.z * xDir.x) - (normal.x * xDir.z))
  let t1948 := ((normal.y * xDir.z) - (normal.z * xDir.y))
  let t1949 := (V3.length tmin tmax sqrt ⟨t1948, t1945, t1942⟩)
  let t1952 := ((xDir.x * t1945) - (xDir.y * t1948))
  let t1955 := ((xDir.z * t1948) - (xDir.x * t1942))
  let t1958 := ((xDir.y * t1942) - (xDir.z * t1945))
  let t1959 := (V3.length tmin tmax sqrt ⟨t1958, t1955, t1952⟩)
  let t1963 := (t1948 / t1949)
  let t1964 := (t1945 / t1949)
  let t1965 := (t1942 / t1949)
  let t1968 := ((xDir.x * t1964) - (xDir.y * t1963))
  let t1971 := ((xDir.z * t1963) - (xDir.x * t1965))
  let t1974 := ((xDir.y * t1965) - (xDir.z * t1964))
  let t1975 := (V3.length tmin tmax sqrt ⟨t1974, t1971, t1968⟩)
  let t1979 := (xDir.x / t1939)
  let t1980 := (xDir.y / t1939)
  let t1981 := (xDir.z / t1939)
  let t1984 := ((normal.x * t1980) - (normal.y * t1979))
  let t1987 := ((normal.z * t1979) - (normal.x * t1981))
  let t1990 := ((normal.y * t1981) - (normal.z * t1980))
  let t1991 := (V3.length tmin tmax sqrt ⟨t1990, t1987, t1984⟩)
  let t1994 := ((t1979 * t1987) - (t1980 * t1990))
  let t1997 := ((t1981 * t1990) - (t1979 * t1984))
  let t2000 := ((t1980 * t1984) - (t1981 * t1987))
  let t2001 := (V3.length tmin tmax sqrt ⟨t2000, t1997, t1994⟩)
  let t2005 := (t1990 / t1991)
  let t2006 := (t1987 / t1991)
  let t2007 := (t1984 / t1991)
  let t2010 := ((t1979 * t2006) - (t1980 * t2005))
  let t2013 := ((t1981 * t2005) - (t1979 * t2007))
  let t2016 := ((t1980 * t2007) - (t1981 * t2006))
  let t2017 := (V3.length tmin tmax sqrt ⟨t2016, t2013, t2010⟩)
  if t1939 = (0 : α) then
    if t1949 = (0 : α) then
      if t1959 = (0 : α) then
        ⟨xDir.x, xDir.y, xDir.z, (0 : α), t1948, t1945, t1942, (0 : α), t1958, t1955, t1952, (0 : α), p.x, p.y, p.z, (1 : α)⟩
      else
        ⟨xDir.x, xDir.y, xDir.z, (0 : α), t1948, t1945, t1942, (0 : α), (t1958 / t1959), (t1955 / t1959), (t1952 / t1959), (0 : α), p.x, p.y, p.z, (1 : α)⟩
    else
      if t1975 = (0 : α) then
        ⟨xDir.x, xDir.y, xDir.z, (0 : α), t1963, t1964, t1965, (0 : α), t1974, t1971, t1968, (0 : α), p.x, p.y, p.z, (1 : α)⟩
      else
        ⟨xDir.x, xDir.y, xDir.z, (0 : α), t1963, t1964, t1965, (0 : α), (t1974 / t1975), (t1971 / t1975), (t1968 / t1975), (0 : α), p.x, p.y, p.z, (1 : α)⟩
  else
    if t1991 = (0 : α) then
      if t2001 = (0 : α) then
        ⟨t1979, t1980, t1981, (0 : α), t1990, t1987, t1984, (0 : α), t2000, t1997, t1994, (0 : α), p.x, p.y, p.z, (1 : α)⟩
      else
        ⟨t1979, t1980, t1981, (0 : α), t1990, t1987, t1984, (0 : α), (t2000 / t2001), (t1997 / t2001), (t1994 / t2001), (0 : α), p.x, p.y, p.z, (1 : α)⟩
    else
      if t2017 = (0 : α) then
        ⟨t1979, t1980, t1981, (0 : α), t2005, t2006, t2007, (0 : α), t2016, t2013, t2010, (0 : α), p.x, p.y, p.z, (1 : α)⟩
      else
        ⟨t1979, t1980, t1981, (0 : α), t2005, t2006, t2007, (0 : α), (t2016 / t2017), (t2013 / t2017), (t2010 / t2017), (0 : α), p.x, p.y, p.z, (1 : α)⟩

/-- extracted from the C++ template at T = Sym; 1 path(s) -/
def Frame.addOffset {α : Type} [Add α] [Mul α] [Div α] [Neg α] [OfNat α 0] [OfNat α 1] [OfNat α 5030569068109113] [OfNat α 288230376151711744] (sin : α → α) (cos : α → α) (inMat : M44 α) (tOffset : V3 α) (rOffset : V3 α) (sOffset : V3 α) (ref : M44 α) : (M44 α) :=
  let t2063 := (rOffset.x * ((5030569068109113 : α) / (288230376151711744 : α)))
  let t2064 := (rOffset.y * ((5030569068109113 : α) / (288230376151711744 : α)))
  let t2065 := (rOffset.z * ((5030569068109113 : α) / (288230376151711744 : α)))
  let t2066 := (cos t2065)
  let t2067 := (cos t2064)
  let t2068 := (cos t2063)
  let t2069 := (sin t2065)
  let t2070 := (sin t2064)
  let t2071 := (sin t2063)
  let t2072 := (t2066 * t2067)
  let t2073 := (t2069 * t2067)
  let t2074 := (-t2070)
  let t2075 := (t2066 * t2070)
  let t2077 := (-t2069)
  let t2079 := ((t2077 * t2068) + (t2075 * t2071))
  let t2080 := (t2069 * t2070)
  let t2083 := ((t2066 * t2068) + (t2080 * t2071))
  let t2084 := (t2067 * t2071)
  let t2086 := (-t2071)
  let t2088 := ((t2077 * t2086) + (t2075 * t2068))
  let t2091 := ((t2066 * t2086) + (t2080 * t2068))
  let t2092 := (t2067 * t2068)
  let t2093 := ((0 : α) * t2074)
  let t2094 := ((0 : α) * t2073)
  let t2097 := ((((1 : α) * t2072) + t2094) + t2093)
  let t2099 := ((0 : α) * t2072)
  let t2101 := ((t2099 + ((1 : α) * t2073)) + t2093)
  let t2103 := (t2099 + t2094)
  let t2104 := (t2103 + ((1 : α) * t2074))
  let t2105 := (t2103 + t2093)
  let t2106 := ((0 : α) * t2084)
  let t2107 := ((0 : α) * t2083)
  let t2110 := ((((1 : α) * t2079) + t2107) + t2106)
  let t2112 := ((0 : α) * t2079)
  let t2114 := ((t2112 + ((1 : α) * t2083)) + t2106)
  let t2116 := (t2112 + t2107)
  let t2117 := (t2116 + ((1 : α) * t2084))
  let t2118 := (t2116 + t2106)
  let t2119 := ((0 : α) * t2092)
  let t2120 := ((0 : α) * t2091)
  let t2123 := ((((1 : α) * t2088) + t2120) + t2119)
  let t2125 := ((0 : α) * t2088)
  let t2127 := ((t2125 + ((1 : α) * t2091)) + t2119)
  let t2129 := (t2125 + t2120)
  let t2130 := (t2129 + ((1 : α) * t2092))
  let t2131 := (t2129 + t2119)
  let t2132 := ((1 : α) * sOffset.x)
  let t2133 := ((0 : α) * sOffset.x)
  let t2134 := ((0 : α) * sOffset.y)
  let t2135 := ((1 : α) * sOffset.y)
  let t2136 := ((0 : α) * sOffset.z)
  let t2137 := ((1 : α) * sOffset.z)
  let t2144 := ((((t2132 * t2097) + (t2133 * t2110)) + (t2133 * t2123)) + (t2133 * tOffset.x))
  let t2151 := ((((t2132 * t2101) + (t2133 * t2114)) + (t2133 * t2127)) + (t2133 * tOffset.y))
  let t2158 := ((((t2132 * t2104) + (t2133 * t2117)) + (t2133 * t2130)) + (t2133 * tOffset.z))
  let t2165 := ((((t2132 * t2105) + (t2133 * t2118)) + (t2133 * t2131)) + (t2133 * (1 : α)))
  let t2172 := ((((t2134 * t2097) + (t2135 * t2110)) + (t2134 * t2123)) + (t2134 * tOffset.x))
  let t2179 := ((((t2134 * t2101) + (t2135 * t2114)) + (t2134 * t2127)) + (t2134 * tOffset.y))
  let t2186 := ((((t2134 * t2104) + (t2135 * t2117)) + (t2134 * t2130)) + (t2134 * tOffset.z))
  let t2193 := ((((t2134 * t2105) + (t2135 * t2118)) + (t2134 * t2131)) + (t2134 * (1 : α)))
  let t2200 := ((((t2136 * t2097) + (t2136 * t2110)) + (t2137 * t2123)) + (t2136 * tOffset.x))
  let t2207 := ((((t2136 * t2101) + (t2136 * t2114)) + (t2137 * t2127)) + (t2136 * tOffset.y))
  let t2214 := ((((t2136 * t2104) + (t2136 * t2117)) + (t2137 * t2130)) + (t2136 * tOffset.z))
  let t2221 := ((((t2136 * t2105) + (t2136 * t2118)) + (t2137 * t2131)) + (t2136 * (1 : α)))
  let t2228 := (((((0 : α) * t2097) + ((0 : α) * t2110)) + ((0 : α) * t2123)) + ((1 : α) * tOffset.x))
  let t2235 := (((((0 : α) * t2101) + ((0 : α) * t2114)) + ((0 : α) * t2127)) + ((1 : α) * tOffset.y))
  let t2242 := (((((0 : α) * t2104) + ((0 : α) * t2117)) + ((0 : α) * t2130)) + ((1 : α) * tOffset.z))
  let t2248 := (((((0 : α) * t2105) + ((0 : α) * t2118)) + ((0 : α) * t2131)) + ((1 : α) * (1 : α)))
  let t2255 := ((((t2144 * inMat.x00) + (t2151 * inMat.x10)) + (t2158 * inMat.x20)) + (t2165 * inMat.x30))
  let t2262 := ((((t2144 * inMat.x01) + (t2151 * inMat.x11)) + (t2158 * inMat.x21)) + (t2165 * inMat.x31))
  let t2269 := ((((t2144 * inMat.x02) + (t2151 * inMat.x12)) + (t2158 * inMat.x22)) + (t2165 * inMat.x32))
  let t2276 := ((((t2144 * inMat.x03) + (t2151 * inMat.x13)) + (t2158 * inMat.x23)) + (t2165 * inMat.x33))
  let t2283 := ((((t2172 * inMat.x00) + (t2179 * inMat.x10)) + (t2186 * inMat.x20)) + (t2193 * inMat.x30))
  let t2290 := ((((t2172 * inMat.x01) + (t2179 * inMat.x11)) + (t2186 * inMat.x21)) + (t2193 * inMat.x31))
  let t2297 := ((((t2172 * inMat.x02) + (t2179 * inMat.x12)) + (t2186 * inMat.x22)) + (t2193 * inMat.x32))
  let t2304 := ((((t2172 * inMat.x03) + (t2179 * inMat.x13)) + (t2186 * inMat.x23)) + (t2193 * inMat.x33))
  let t2311 := ((((t2200 * inMat.x00) + (t2207 * inMat.x10)) + (t2214 * inMat.x20)) + (t2221 * inMat.x30))
  let t2318 := ((((t2200 * inMat.x01) + (t2207 * inMat.x11)) + (t2214 * inMat.x21)) + (t2221 * inMat.x31))
  let t2325 := ((((t2200 * inMat.x02) + (t2207 * inMat.x12)) + (t2214 * inMat.x22)) + (t2221 * inMat.x32))
  let t2332 := ((((t2200 * inMat.x03) + (t2207 * inMat.x13)) + (t2214 * inMat.x23)) + (t2221 * inMat.x33))
  let t2339 := ((((t2228 * inMat.x00) + (t2235 * inMat.x10)) + (t2242 * inMat.x20)) + (t2248 * inMat.x30))
  let t2346 := ((((t2228 * inMat.x01) + (t2235 * inMat.x11)) + (t2242 * inMat.x21)) + (t2248 * inMat.x31))
  let t2353 := ((((t2228 * inMat.x02) + (t2235 * inMat.x12)) + (t2242 * inMat.x22)) + (t2248 * inMat.x32))
  let t2360 := ((((t2228 * inMat.x03) + (t2235 * inMat.x13)) + (t2242 * inMat.x23)) + (t2248 * inMat.x33))
  ⟨((((t2255 * ref.x00) + (t2262 * ref.x10)) + (t2269 * ref.x20)) + (t2276 * ref.x30)), ((((t2255 * ref.x01) + (t2262 * ref.x11)) + (t2269 * ref.x21)) + (t2276 * ref.x31)), ((((t2255 * ref.x02) + (t2262 * ref.x12)) + (t2269 * ref.x22)) + (t2276 * ref.x32)), ((((t2255 * ref.x03) + (t2262 * ref.x13)) + (t2269 * ref.x23)) + (t2276 * ref.x33)), ((((t2283 * ref.x00) + (t2290 * ref.x10)) + (t2297 * ref.x20)) + (t2304 * ref.x30)), ((((t2283 * ref.x01) + (t2290 * ref.x11)) + (t2297 * ref.x21)) + (t2304 * ref.x31)), ((((t2283 * ref.x02) + (t2290 * ref.x12)) + (t2297 * ref.x22)) + (t2304 * ref.x32)), ((((t2283 * ref.x03) + (t2290 * ref.x13)) + (t2297 * ref.x23)) + (t2304 * ref.x33)), ((((t2311 * ref.x00) + (t2318 * ref.x10)) + (t2325 * ref.x20)) + (t2332 * ref.x30)), ((((t2311 * ref.x01) + (t2318 * ref.x11)) + (t2325 * ref.x21)) + (t2332 * ref.x31)), ((((t2311 * ref.x02) + (t2318 * ref.x12)) + (t2325 * ref.x22)) + (t2332 * ref.x32)), ((((t2311 * ref.x03) + (t2318 * ref.x13)) + (t2325 * ref.x23)) + (t2332 * ref.x33)), ((((t2339 * ref.x00) + (t2346 * ref.x10)) + (t2353 * ref.x20)) + (t2360 * ref.x30)), ((((t2339 * ref.x01) + (t2346 * ref.x11)) + (t2353 * ref.x21)) + (t2360 * ref.x31)), ((((t2339 * ref.x02) + (t2346 * ref.x12)) + (t2353 * ref.x22)) + (t2360 * ref.x32)), ((((t2339 * ref.x03) + (t2346 * ref.x13)) + (t2353 * ref.x23)) + (t2360 * ref.x33))⟩

/-- extracted from the C++ template at T = Sym; 18 path(s) -/
def Frame.firstFrame {α : Type} [Add α] [Sub α] [Mul α] [Div α] [Neg α] [LT α] [LE α] [DecidableLT α] [DecidableLE α] [DecidableEq α] [OfNat α 0] [OfNat α 1] [OfNat α 2] (tmin : α) (tmax : α) (sqrt : α → α) (pi : V3 α) (pj : V3 α) (pk : V3 α) : Except Exc (M44 α) :=
  let t32 := (pj.z - pi.z)
  let t33 := (pj.y - pi.y)
  let t34 := (pj.x - pi.x)
  let t2476 := (V3.length tmin tmax sqrt ⟨t34, t33, t32⟩)
  let t2477 := (t34 / t2476)
  let t2478 := (t33 / t2476)
  let t2479 := (t32 / t2476)
  let t2480 := (pk.z - pi.z)
  let t2481 := (pk.y - pi.y)
  let t2482 := (pk.x - pi.x)
  let t2485 := ((t2477 * t2481) - (t2478 * t2482))
  let t2488 := ((t2479 * t2482) - (t2477 * t2480))
  let t2491 := ((t2478 * t2480) - (t2479 * t2481))
  let t2492 := (V3.length tmin tmax sqrt ⟨t2491, t2488, t2485⟩)
  let t2493 := (sabs t2478)
  let t2494 := (sabs t2477)
  let t2495 := (sabs t2479)
  let t2496 := (t2478 * (0 : α))
  let t2497 := (t2477 * (0 : α))
  let t2498 := (t2497 - t2496)
  let t2499 := (t2477 * (1 : α))
  let t2500 := (t2479 * (0 : α))
  let t2501 := (t2500 - t2499)
  let t2502 := (t2478 * (1 : α))
  let t2503 := (t2502 - t2500)
  let t2504 := (V3.length tmin tmax sqrt ⟨t2503, t2501, t2498⟩)
  let t2507 := ((t2477 * t2501) - (t2478 * t2503))
  let t2510 := ((t2479 * t2503) - (t2477 * t2498))
  let t2513 := ((t2478 * t2498) - (t2479 * t2501))
  let t2514 := (t2503 / t2504)
  let t2515 := (t2501 / t2504)
  let t2516 := (t2498 / t2504)
  let t2519 := ((t2477 * t2515) - (t2478 * t2514))
  let t2522 := ((t2479 * t2514) - (t2477 * t2516))
  let t2525 := ((t2478 * t2516) - (t2479 * t2515))
  let t2526 := (t2497 - t2502)
  let t2527 := (t2479 * (1 : α))
  let t2528 := (t2527 - t2497)
  let t2529 := (t2496 - t2500)
  let t2530 := (V3.length tmin tmax sqrt ⟨t2529, t2528, t2526⟩)
  let t2533 := ((t2477 * t2528) - (t2478 * t2529))
  let t2536 := ((t2479 * t2529) - (t2477 * t2526))
  let t2539 := ((t2478 * t2526) - (t2479 * t2528))
  let t2540 := (t2529 / t2530)
  let t2541 := (t2528 / t2530)
  let t2542 := (t2526 / t2530)
  let t2545 := ((t2477 * t2541) - (t2478 * t2540))
  let t2548 := ((t2479 * t2540) - (t2477 * t2542))
  let t2551 := ((t2478 * t2542) - (t2479 * t2541))
  let t2552 := (t2499 - t2496)
  let t2553 := (t2500 - t2497)
  let t2554 := (t2496 - t2527)
  let t2555 := (V3.length tmin tmax sqrt ⟨t2554, t2553, t2552⟩)
  let t2558 := ((t2477 * t2553) - (t2478 * t2554))
  let t2561 := ((t2479 * t2554) - (t2477 * t2552))
  let t2564 := ((t2478 * t2552) - (t2479 * t2553))
  let t2565 := (t2554 / t2555)
  let t2566 := (t2553 / t2555)
  let t2567 := (t2552 / t2555)
  let t2570 := ((t2477 * t2566) - (t2478 * t2565))
  let t2573 := ((t2479 * t2565) - (t2477 * t2567))
  let t2576 := ((t2478 * t2567) - (t2479 * t2566))
  let t2577 := (t2491 / t2492)
  let t2578 := (t2488 / t2492)
  let t2579 := (t2485 / t2492)
  let t2580 := (V3.length tmin tmax sqrt ⟨t2577, t2578, t2579⟩)
  if t2476 = (0 : α) then
    .error Exc.domainError
  else
    if t2492 = (0 : α) then
      if t2494 < t2493 then
        if t2495 < t2494 then
          if t2504 = (0 : α) then
            .ok (⟨t2477, t2478, t2479, (0 : α), t2503, t2501, t2498, (0 : α), t2513, t2510, t2507, (0 : α), pi.x, pi.y, pi.z, (1 : α)⟩)
          else
            .ok (⟨t2477, t2478, t2479, (0 : α), t2514, t2515, t2516, (0 : α), t2525, t2522, t2519, (0 : α), pi.x, pi.y, pi.z, (1 : α)⟩)
        else
          if t2530 = (0 : α) then
            .ok (⟨t2477, t2478, t2479, (0 : α), t2529, t2528, t2526, (0 : α), t2539, t2536, t2533, (0 : α), pi.x, pi.y, pi.z, (1 : α)⟩)
          else
            .ok (⟨t2477, t2478, t2479, (0 : α), t2540, t2541, t2542, (0 : α), t2551, t2548, t2545, (0 : α), pi.x, pi.y, pi.z, (1 : α)⟩)
      else
        if t2495 < t2493 then
          if t2504 = (0 : α) then
            .ok (⟨t2477, t2478, t2479, (0 : α), t2503, t2501, t2498, (0 : α), t2513, t2510, t2507, (0 : α), pi.x, pi.y, pi.z, (1 : α)⟩)
          else
            .ok (⟨t2477, t2478, t2479, (0 : α), t2514, t2515, t2516, (0 : α), t2525, t2522, t2519, (0 : α), pi.x, pi.y, pi.z, (1 : α)⟩)
        else
          if t2555 = (0 : α) then
            .ok (⟨t2477, t2478, t2479, (0 : α), t2554, t2553, t2552, (0 : α), t2564, t2561, t2558, (0 : α), pi.x, pi.y, pi.z, (1 : α)⟩)
          else
            .ok (⟨t2477, t2478, t2479, (0 : α), t2565, t2566, t2567, (0 : α), t2576, t2573, t2570, (0 : α), pi.x, pi.y, pi.z, (1 : α)⟩)
    else
      if t2580 = (0 : α) then
        if t2494 < t2493 then
          if t2495 < t2494 then
            if t2504 = (0 : α) then
              .ok (⟨t2477, t2478, t2479, (0 : α), t2503, t2501, t2498, (0 : α), t2513, t2510, t2507, (0 : α), pi.x, pi.y, pi.z, (1 : α)⟩)
            else
              .ok (⟨t2477, t2478, t2479, (0 : α), t2514, t2515, t2516, (0 : α), t2525, t2522, t2519, (0 : α), pi.x, pi.y, pi.z, (1 : α)⟩)
          else
            if t2530 = (0 : α) then
              .ok (⟨t2477, t2478, t2479, (0 : α), t2529, t2528, t2526, (0 : α), t2539, t2536, t2533, (0 : α), pi.x, pi.y, pi.z, (1 : α)⟩)
            else
              .ok (⟨t2477, t2478, t2479, (0 : α), t2540, t2541, t2542, (0 : α), t2551, t2548, t2545, (0 : α), pi.x, pi.y, pi.z, (1 : α)⟩)
        else
          if t2495 < t2493 then
            if t2504 = (0 : α) then
              .ok (⟨t2477, t2478, t2479, (0 : α), t2503, t2501, t2498, (0 : α), t2513, t2510, t2507, (0 : α), pi.x, pi.y, pi.z, (1 : α)⟩)
            else
              .ok (⟨t2477, t2478, t2479, (0 : α), t2514, t2515, t2516, (0 : α), t2525, t2522, t2519, (0 : α), pi.x, pi.y, pi.z, (1 : α)⟩)
          else
            if t2555 = (0 : α) then
              .ok (⟨t2477, t2478, t2479, (0 : α), t2554, t2553, t2552, (0 : α), t2564, t2561, t2558, (0 : α), pi.x, pi.y, pi.z, (1 : α)⟩)
            else
              .ok (⟨t2477, t2478, t2479, (0 : α), t2565, t2566, t2567, (0 : α), t2576, t2573, t2570, (0 : α), pi.x, pi.y, pi.z, (1 : α)⟩)
      else
        .ok (⟨t2477, t2478, t2479, (0 : α), t2577, t2578, t2579, (0 : α), ((t2478 * t2579) - (t2479 * t2578)), ((t2479 * t2577) - (t2477 * t2579)), ((t2477 * t2578) - (t2478 * t2577)), (0 : α), pi.x, pi.y, pi.z, (1 : α)⟩)

/-- extracted from the C++ template at T = Sym; 1 path(s) -/
def Frame.lastFrame {α : Type} [Add α] [Sub α] [Mul α] [OfNat α 0] [OfNat α 1] (Mi : M44 α) (pi : V3 α) (pj : V3 α) : (M44 α) :=
  let t32 := (pj.z - pi.z)
  let t33 := (pj.y - pi.y)
  let t34 := (pj.x - pi.x)
  let t35 := (t32 * (0 : α))
  let t36 := (t33 * (0 : α))
  let t40 := ((0 : α) + (((t34 * (1 : α)) + t36) + t35))
  let t42 := (t34 * (0 : α))
  let t45 := ((0 : α) + ((t42 + (t33 * (1 : α))) + t35))
  let t47 := (t42 + t36)
  let t49 := ((0 : α) + (t47 + (t32 * (1 : α))))
  let t51 := ((1 : α) + (t47 + t35))
  let t53 := (Mi.x02 * (0 : α))
  let t54 := (Mi.x01 * (0 : α))
  let t61 := (Mi.x00 * (0 : α))
  let t67 := (t61 + t54)
  let t74 := (Mi.x12 * (0 : α))
  let t75 := (Mi.x11 * (0 : α))
  let t82 := (Mi.x10 * (0 : α))
  let t88 := (t82 + t75)
  let t95 := (Mi.x22 * (0 : α))
  let t96 := (Mi.x21 * (0 : α))
  let t103 := (Mi.x20 * (0 : α))
  let t109 := (t103 + t96)
  let t116 := (Mi.x32 * (0 : α))
  let t117 := (Mi.x31 * (0 : α))
  let t124 := (Mi.x30 * (0 : α))
  let t130 := (t124 + t117)
  ⟨((((Mi.x00 * (1 : α)) + t54) + t53) + (Mi.x03 * t40)), (((t61 + (Mi.x01 * (1 : α))) + t53) + (Mi.x03 * t45)), ((t67 + (Mi.x02 * (1 : α))) + (Mi.x03 * t49)), ((t67 + t53) + (Mi.x03 * t51)), ((((Mi.x10 * (1 : α)) + t75) + t74) + (Mi.x13 * t40)), (((t82 + (Mi.x11 * (1 : α))) + t74) + (Mi.x13 * t45)), ((t88 + (Mi.x12 * (1 : α))) + (Mi.x13 * t49)), ((t88 + t74) + (Mi.x13 * t51)), ((((Mi.x20 * (1 : α)) + t96) + t95) + (Mi.x23 * t40)), (((t103 + (Mi.x21 * (1 : α))) + t95) + (Mi.x23 * t45)), ((t109 + (Mi.x22 * (1 : α))) + (Mi.x23 * t49)), ((t109 + t95) + (Mi.x23 * t51)), ((((Mi.x30 * (1 : α)) + t117) + t116) + (Mi.x33 * t40)), (((t124 + (Mi.x31 * (1 : α))) + t116) + (Mi.x33 * t45)), ((t130 + (Mi.x32 * (1 : α))) + (Mi.x33 * t49)), ((t130 + t116) + (Mi.x33 * t51))⟩

end ImathVerif.Gen
