-- GENERATED from /repo/src/Imath by harness/sym (T = Sym path extraction); do not edit.
import ImathVerif.Basic.Types
import ImathVerif.Gen.Leaf
set_option linter.unusedVariables false
namespace ImathVerif.Gen
open ImathVerif

/-- extracted from the C++ template at T = Sym; 8 path(s) -/
def Frame.computeLocalFrame {α : Type} [Add α] [Sub α] [Mul α] [Div α] [Neg α] [LT α] [LE α] [DecidableLT α] [DecidableLE α] [DecidableEq α] [OfNat α 0] [OfNat α 1] [OfNat α 2] (tmin : α) (tmax : α) (sqrt : α → α) (p : V3 α) (xDir : V3 α) (normal : V3 α) : (M44 α) :=
  let t1977 := (V3.length tmin tmax sqrt ⟨xDir.x, xDir.y, xDir.z⟩)
  let t1980 := ((normal.x * xDir.y) - (normal.y * xDir.x))
  let t1983 := ((normal.z * xDir.x) - (normal.x * xDir.z))
  let t1986 := ((normal.y * xDir.z) - (normal.z * xDir.y))
  let t1987 := (V3.length tmin tmax sqrt ⟨t1986, t1983, t1980⟩)
  let t1990 := ((xDir.x * t1983) - (xDir.y * t1986))
  let t1993 := ((xDir.z * t1986) - (xDir.x * t1980))
  let t1996 := ((xDir.y * t1980) - (xDir.z * t1983))
  let t1997 := (V3.length tmin tmax sqrt ⟨t1996, t1993, t1990⟩)
  let t2001 := (t1986 / t1987)
  let t2002 := (t1983 / t1987)
  let t2003 := (t1980 / t1987)
  let t2006 := ((xDir.x * t2002) - (xDir.y * t2001))
  let t2009 := ((xDir.z * t2001) - (xDir.x * t2003))
  let t2012 := ((xDir.y * t2003) - (xDir.z * t2002))
  let t2013 := (V3.length tmin tmax sqrt ⟨t2012, t2009, t2006⟩)
  let t2017 := (xDir.x / t1977)
  let t2018 := (xDir.y / t1977)
  let t2019 := (xDir.z / t1977)
  let t2022 := ((normal.x * t2018) - (normal.y * t2017))
  let t2025 := ((normal.z * t2017) - (normal.x * t2019))
  let t2028 := ((normal.y * t2019) - (normal.z * t2018))
  let t2029 := (V3.length tmin tmax sqrt ⟨t2028, t2025, t2022⟩)
  let t2032 := ((t2017 * t2025) - (t2018 * t2028))
  let t2035 := ((t2019 * t2028) - (t2017 * t2022))
  let t2038 := ((t2018 * t2022) - (t2019 * t2025))
  let t2039 := (V3.length tmin tmax sqrt ⟨t2038, t2035, t2032⟩)
  let t2043 := (t2028 / t2029)
  let t2044 := (t2025 / t2029)
  let t2045 := (t2022 / t2029)
  let t2048 := ((t2017 * t2044) - (t2018 * t2043))
  let t2051 := ((t2019 * t2043) - (t2017 * t2045))
  let t2054 := ((t2018 * t2045) - (t2019 * t2044))
  let t2055 := (V3.length tmin tmax sqrt ⟨t2054, t2051, t2048⟩)
  if t1977 = (0 : α) then
    if t1987 = (0 : α) then
      if t1997 = (0 : α) then
        ⟨xDir.x, xDir.y, xDir.z, (0 : α), t1986, t1983, t1980, (0 : α), t1996, t1993, t1990, (0 : α), p.x, p.y, p.z, (1 : α)⟩
      else
        ⟨xDir.x, xDir.y, xDir.z, (0 : α), t1986, t1983, t1980, (0 : α), (t1996 / t1997), (t1993 / t1997), (t1990 / t1997), (0 : α), p.x, p.y, p.z, (1 : α)⟩
    else
      if t2013 = (0 : α) then
        ⟨xDir.x, xDir.y, xDir.z, (0 : α), t2001, t2002, t2003, (0 : α), t2012, t2009, t2006, (0 : α), p.x, p.y, p.z, (1 : α)⟩
      else
        ⟨xDir.x, xDir.y, xDir.z, (0 : α), t2001, t2002, t2003, (0 : α), (t2012 / t2013), (t2009 / t2013), (t2006 / t2013), (0 : α), p.x, p.y, p.z, (1 : α)⟩
  else
    if t2029 = (0 : α) then
      if t2039 = (0 : α) then
        ⟨t2017, t2018, t2019, (0 : α), t2028, t2025, t2022, (0 : α), t2038, t2035, t2032, (0 : α), p.x, p.y, p.z, (1 : α)⟩
      else
        ⟨t2017, t2018, t2019, (0 : α), t2028, t2025, t2022, (0 : α), (t2038 / t2039), (t2035 / t2039), (t2032 / t2039), (0 : α), p.x, p.y, p.z, (1 : α)⟩
    else
      if t2055 = (0 : α) then
        ⟨t2017, t2018, t2019, (0 : α), t2043, t2044, t2045, (0 : α), t2054, t2051, t2048, (0 : α), p.x, p.y, p.z, (1 : α)⟩
      else
        ⟨t2017, t2018, t2019, (0 : α), t2043, t2044, t2045, (0 : α), (t2054 / t2055), (t2051 / t2055), (t2048 / t2055), (0 : α), p.x, p.y, p.z, (1 : α)⟩

/-- extracted from the C++ template at T = Sym; 1 path(s) -/
def Frame.addOffset {α : Type} [Add α] [Mul α] [Div α] [Neg α] [OfNat α 0] [OfNat α 1] [OfNat α 5030569068109113] [OfNat α 288230376151711744] (sin : α → α) (cos : α → α) (inMat : M44 α) (tOffset : V3 α) (rOffset : V3 α) (sOffset : V3 α) (ref : M44 α) : (M44 α) :=
  let t2101 := (rOffset.x * ((5030569068109113 : α) / (288230376151711744 : α)))
  let t2102 := (rOffset.y * ((5030569068109113 : α) / (288230376151711744 : α)))
  let t2103 := (rOffset.z * ((5030569068109113 : α) / (288230376151711744 : α)))
  let t2104 := (cos t2103)
  let t2105 := (cos t2102)
  let t2106 := (cos t2101)
  let t2107 := (sin t2103)
  let t2108 := (sin t2102)
  let t2109 := (sin t2101)
  let t2110 := (t2104 * t2105)
  let t2111 := (t2107 * t2105)
  let t2112 := (-t2108)
  let t2113 := (t2104 * t2108)
  let t2115 := (-t2107)
  let t2117 := ((t2115 * t2106) + (t2113 * t2109))
  let t2118 := (t2107 * t2108)
  let t2121 := ((t2104 * t2106) + (t2118 * t2109))
  let t2122 := (t2105 * t2109)
  let t2124 := (-t2109)
  let t2126 := ((t2115 * t2124) + (t2113 * t2106))
  let t2129 := ((t2104 * t2124) + (t2118 * t2106))
  let t2130 := (t2105 * t2106)
  let t2131 := ((0 : α) * t2112)
  let t2132 := ((0 : α) * t2111)
  let t2135 := ((((1 : α) * t2110) + t2132) + t2131)
  let t2137 := ((0 : α) * t2110)
  let t2139 := ((t2137 + ((1 : α) * t2111)) + t2131)
  let t2141 := (t2137 + t2132)
  let t2142 := (t2141 + ((1 : α) * t2112))
  let t2143 := (t2141 + t2131)
  let t2144 := ((0 : α) * t2122)
  let t2145 := ((0 : α) * t2121)
  let t2148 := ((((1 : α) * t2117) + t2145) + t2144)
  let t2150 := ((0 : α) * t2117)
  let t2152 := ((t2150 + ((1 : α) * t2121)) + t2144)
  let t2154 := (t2150 + t2145)
  let t2155 := (t2154 + ((1 : α) * t2122))
  let t2156 := (t2154 + t2144)
  let t2157 := ((0 : α) * t2130)
  let t2158 := ((0 : α) * t2129)
  let t2161 := ((((1 : α) * t2126) + t2158) + t2157)
  let t2163 := ((0 : α) * t2126)
  let t2165 := ((t2163 + ((1 : α) * t2129)) + t2157)
  let t2167 := (t2163 + t2158)
  let t2168 := (t2167 + ((1 : α) * t2130))
  let t2169 := (t2167 + t2157)
  let t2170 := ((1 : α) * sOffset.x)
  let t2171 := ((0 : α) * sOffset.x)
  let t2172 := ((0 : α) * sOffset.y)
  let t2173 := ((1 : α) * sOffset.y)
  let t2174 := ((0 : α) * sOffset.z)
  let t2175 := ((1 : α) * sOffset.z)
  let t2182 := ((((t2170 * t2135) + (t2171 * t2148)) + (t2171 * t2161)) + (t2171 * tOffset.x))
  let t2189 := ((((t2170 * t2139) + (t2171 * t2152)) + (t2171 * t2165)) + (t2171 * tOffset.y))
  let t2196 := ((((t2170 * t2142) + (t2171 * t2155)) + (t2171 * t2168)) + (t2171 * tOffset.z))
  let t2203 := ((((t2170 * t2143) + (t2171 * t2156)) + (t2171 * t2169)) + (t2171 * (1 : α)))
  let t2210 := ((((t2172 * t2135) + (t2173 * t2148)) + (t2172 * t2161)) + (t2172 * tOffset.x))
  let t2217 := ((((t2172 * t2139) + (t2173 * t2152)) + (t2172 * t2165)) + (t2172 * tOffset.y))
  let t2224 := ((((t2172 * t2142) + (t2173 * t2155)) + (t2172 * t2168)) + (t2172 * tOffset.z))
  let t2231 := ((((t2172 * t2143) + (t2173 * t2156)) + (t2172 * t2169)) + (t2172 * (1 : α)))
  let t2238 := ((((t2174 * t2135) + (t2174 * t2148)) + (t2175 * t2161)) + (t2174 * tOffset.x))
  let t2245 := ((((t2174 * t2139) + (t2174 * t2152)) + (t2175 * t2165)) + (t2174 * tOffset.y))
  let t2252 := ((((t2174 * t2142) + (t2174 * t2155)) + (t2175 * t2168)) + (t2174 * tOffset.z))
  let t2259 := ((((t2174 * t2143) + (t2174 * t2156)) + (t2175 * t2169)) + (t2174 * (1 : α)))
  let t2266 := (((((0 : α) * t2135) + ((0 : α) * t2148)) + ((0 : α) * t2161)) + ((1 : α) * tOffset.x))
  let t2273 := (((((0 : α) * t2139) + ((0 : α) * t2152)) + ((0 : α) * t2165)) + ((1 : α) * tOffset.y))
  let t2280 := (((((0 : α) * t2142) + ((0 : α) * t2155)) + ((0 : α) * t2168)) + ((1 : α) * tOffset.z))
  let t2287 := (((((0 : α) * t2143) + ((0 : α) * t2156)) + ((0 : α) * t2169)) + ((1 : α) * (1 : α)))
  let t2294 := ((((t2182 * inMat.x00) + (t2189 * inMat.x10)) + (t2196 * inMat.x20)) + (t2203 * inMat.x30))
  let t2301 := ((((t2182 * inMat.x01) + (t2189 * inMat.x11)) + (t2196 * inMat.x21)) + (t2203 * inMat.x31))
  let t2308 := ((((t2182 * inMat.x02) + (t2189 * inMat.x12)) + (t2196 * inMat.x22)) + (t2203 * inMat.x32))
  let t2315 := ((((t2182 * inMat.x03) + (t2189 * inMat.x13)) + (t2196 * inMat.x23)) + (t2203 * inMat.x33))
  let t2322 := ((((t2210 * inMat.x00) + (t2217 * inMat.x10)) + (t2224 * inMat.x20)) + (t2231 * inMat.x30))
  let t2329 := ((((t2210 * inMat.x01) + (t2217 * inMat.x11)) + (t2224 * inMat.x21)) + (t2231 * inMat.x31))
  let t2336 := ((((t2210 * inMat.x02) + (t2217 * inMat.x12)) + (t2224 * inMat.x22)) + (t2231 * inMat.x32))
  let t2343 := ((((t2210 * inMat.x03) + (t2217 * inMat.x13)) + (t2224 * inMat.x23)) + (t2231 * inMat.x33))
  let t2350 := ((((t2238 * inMat.x00) + (t2245 * inMat.x10)) + (t2252 * inMat.x20)) + (t2259 * inMat.x30))
  let t2357 := ((((t2238 * inMat.x01) + (t2245 * inMat.x11)) + (t2252 * inMat.x21)) + (t2259 * inMat.x31))
  let t2364 := ((((t2238 * inMat.x02) + (t2245 * inMat.x12)) + (t2252 * inMat.x22)) + (t2259 * inMat.x32))
  let t2371 := ((((t2238 * inMat.x03) + (t2245 * inMat.x13)) + (t2252 * inMat.x23)) + (t2259 * inMat.x33))
  let t2378 := ((((t2266 * inMat.x00) + (t2273 * inMat.x10)) + (t2280 * inMat.x20)) + (t2287 * inMat.x30))
  let t2385 := ((((t2266 * inMat.x01) + (t2273 * inMat.x11)) + (t2280 * inMat.x21)) + (t2287 * inMat.x31))
  let t2392 := ((((t2266 * inMat.x02) + (t2273 * inMat.x12)) + (t2280 * inMat.x22)) + (t2287 * inMat.x32))
  let t2399 := ((((t2266 * inMat.x03) + (t2273 * inMat.x13)) + (t2280 * inMat.x23)) + (t2287 * inMat.x33))
  ⟨((((t2294 * ref.x00) + (t2301 * ref.x10)) + (t2308 * ref.x20)) + (t2315 * ref.x30)), ((((t2294 * ref.x01) + (t2301 * ref.x11)) + (t2308 * ref.x21)) + (t2315 * ref.x31)), ((((t2294 * ref.x02) + (t2301 * ref.x12)) + (t2308 * ref.x22)) + (t2315 * ref.x32)), ((((t2294 * ref.x03) + (t2301 * ref.x13)) + (t2308 * ref.x23)) + (t2315 * ref.x33)), ((((t2322 * ref.x00) + (t2329 * ref.x10)) + (t2336 * ref.x20)) + (t2343 * ref.x30)), ((((t2322 * ref.x01) + (t2329 * ref.x11)) + (t2336 * ref.x21)) + (t2343 * ref.x31)), ((((t2322 * ref.x02) + (t2329 * ref.x12)) + (t2336 * ref.x22)) + (t2343 * ref.x32)), ((((t2322 * ref.x03) + (t2329 * ref.x13)) + (t2336 * ref.x23)) + (t2343 * ref.x33)), ((((t2350 * ref.x00) + (t2357 * ref.x10)) + (t2364 * ref.x20)) + (t2371 * ref.x30)), ((((t2350 * ref.x01) + (t2357 * ref.x11)) + (t2364 * ref.x21)) + (t2371 * ref.x31)), ((((t2350 * ref.x02) + (t2357 * ref.x12)) + (t2364 * ref.x22)) + (t2371 * ref.x32)), ((((t2350 * ref.x03) + (t2357 * ref.x13)) + (t2364 * ref.x23)) + (t2371 * ref.x33)), ((((t2378 * ref.x00) + (t2385 * ref.x10)) + (t2392 * ref.x20)) + (t2399 * ref.x30)), ((((t2378 * ref.x01) + (t2385 * ref.x11)) + (t2392 * ref.x21)) + (t2399 * ref.x31)), ((((t2378 * ref.x02) + (t2385 * ref.x12)) + (t2392 * ref.x22)) + (t2399 * ref.x32)), ((((t2378 * ref.x03) + (t2385 * ref.x13)) + (t2392 * ref.x23)) + (t2399 * ref.x33))⟩

/-- extracted from the C++ template at T = Sym; 18 path(s) -/
def Frame.firstFrame {α : Type} [Add α] [Sub α] [Mul α] [Div α] [Neg α] [LT α] [LE α] [DecidableLT α] [DecidableLE α] [DecidableEq α] [OfNat α 0] [OfNat α 1] [OfNat α 2] (tmin : α) (tmax : α) (sqrt : α → α) (pi : V3 α) (pj : V3 α) (pk : V3 α) : Except Exc (M44 α) :=
  let t32 := (pj.z - pi.z)
  let t33 := (pj.y - pi.y)
  let t34 := (pj.x - pi.x)
  let t2515 := (V3.length tmin tmax sqrt ⟨t34, t33, t32⟩)
  let t2516 := (t34 / t2515)
  let t2517 := (t33 / t2515)
  let t2518 := (t32 / t2515)
  let t2519 := (pk.z - pi.z)
  let t2520 := (pk.y - pi.y)
  let t2521 := (pk.x - pi.x)
  let t2524 := ((t2516 * t2520) - (t2517 * t2521))
  let t2527 := ((t2518 * t2521) - (t2516 * t2519))
  let t2530 := ((t2517 * t2519) - (t2518 * t2520))
  let t2531 := (V3.length tmin tmax sqrt ⟨t2530, t2527, t2524⟩)
  let t2532 := (sabs t2517)
  let t2533 := (sabs t2516)
  let t2534 := (sabs t2518)
  let t2535 := (t2517 * (0 : α))
  let t2536 := (t2516 * (0 : α))
  let t2537 := (t2536 - t2535)
  let t2538 := (t2516 * (1 : α))
  let t2539 := (t2518 * (0 : α))
  let t2540 := (t2539 - t2538)
  let t2541 := (t2517 * (1 : α))
  let t2542 := (t2541 - t2539)
  let t2543 := (V3.length tmin tmax sqrt ⟨t2542, t2540, t2537⟩)
  let t2546 := ((t2516 * t2540) - (t2517 * t2542))
  let t2549 := ((t2518 * t2542) - (t2516 * t2537))
  let t2552 := ((t2517 * t2537) - (t2518 * t2540))
  let t2553 := (t2542 / t2543)
  let t2554 := (t2540 / t2543)
  let t2555 := (t2537 / t2543)
  let t2558 := ((t2516 * t2554) - (t2517 * t2553))
  let t2561 := ((t2518 * t2553) - (t2516 * t2555))
  let t2564 := ((t2517 * t2555) - (t2518 * t2554))
  let t2565 := (t2536 - t2541)
  let t2566 := (t2518 * (1 : α))
  let t2567 := (t2566 - t2536)
  let t2568 := (t2535 - t2539)
  let t2569 := (V3.length tmin tmax sqrt ⟨t2568, t2567, t2565⟩)
  let t2572 := ((t2516 * t2567) - (t2517 * t2568))
  let t2575 := ((t2518 * t2568) - (t2516 * t2565))
  let t2578 := ((t2517 * t2565) - (t2518 * t2567))
  let t2579 := (t2568 / t2569)
  let t2580 := (t2567 / t2569)
  let t2581 := (t2565 / t2569)
  let t2584 := ((t2516 * t2580) - (t2517 * t2579))
  let t2587 := ((t2518 * t2579) - (t2516 * t2581))
  let t2590 := ((t2517 * t2581) - (t2518 * t2580))
  let t2591 := (t2538 - t2535)
  let t2592 := (t2539 - t2536)
  let t2593 := (t2535 - t2566)
  let t2594 := (V3.length tmin tmax sqrt ⟨t2593, t2592, t2591⟩)
  let t2597 := ((t2516 * t2592) - (t2517 * t2593))
  let t2600 := ((t2518 * t2593) - (t2516 * t2591))
  let t2603 := ((t2517 * t2591) - (t2518 * t2592))
  let t2604 := (t2593 / t2594)
  let t2605 := (t2592 / t2594)
  let t2606 := (t2591 / t2594)
  let t2609 := ((t2516 * t2605) - (t2517 * t2604))
  let t2612 := ((t2518 * t2604) - (t2516 * t2606))
  let t2615 := ((t2517 * t2606) - (t2518 * t2605))
  let t2616 := (t2530 / t2531)
  let t2617 := (t2527 / t2531)
  let t2618 := (t2524 / t2531)
  let t2619 := (V3.length tmin tmax sqrt ⟨t2616, t2617, t2618⟩)
  if t2515 = (0 : α) then
    .error Exc.domainError
  else
    if t2531 = (0 : α) then
      if t2533 < t2532 then
        if t2534 < t2533 then
          if t2543 = (0 : α) then
            .ok (⟨t2516, t2517, t2518, (0 : α), t2542, t2540, t2537, (0 : α), t2552, t2549, t2546, (0 : α), pi.x, pi.y, pi.z, (1 : α)⟩)
          else
            .ok (⟨t2516, t2517, t2518, (0 : α), t2553, t2554, t2555, (0 : α), t2564, t2561, t2558, (0 : α), pi.x, pi.y, pi.z, (1 : α)⟩)
        else
          if t2569 = (0 : α) then
            .ok (⟨t2516, t2517, t2518, (0 : α), t2568, t2567, t2565, (0 : α), t2578, t2575, t2572, (0 : α), pi.x, pi.y, pi.z, (1 : α)⟩)
          else
            .ok (⟨t2516, t2517, t2518, (0 : α), t2579, t2580, t2581, (0 : α), t2590, t2587, t2584, (0 : α), pi.x, pi.y, pi.z, (1 : α)⟩)
      else
        if t2534 < t2532 then
          if t2543 = (0 : α) then
            .ok (⟨t2516, t2517, t2518, (0 : α), t2542, t2540, t2537, (0 : α), t2552, t2549, t2546, (0 : α), pi.x, pi.y, pi.z, (1 : α)⟩)
          else
            .ok (⟨t2516, t2517, t2518, (0 : α), t2553, t2554, t2555, (0 : α), t2564, t2561, t2558, (0 : α), pi.x, pi.y, pi.z, (1 : α)⟩)
        else
          if t2594 = (0 : α) then
            .ok (⟨t2516, t2517, t2518, (0 : α), t2593, t2592, t2591, (0 : α), t2603, t2600, t2597, (0 : α), pi.x, pi.y, pi.z, (1 : α)⟩)
          else
            .ok (⟨t2516, t2517, t2518, (0 : α), t2604, t2605, t2606, (0 : α), t2615, t2612, t2609, (0 : α), pi.x, pi.y, pi.z, (1 : α)⟩)
    else
      if t2619 = (0 : α) then
        if t2533 < t2532 then
          if t2534 < t2533 then
            if t2543 = (0 : α) then
              .ok (⟨t2516, t2517, t2518, (0 : α), t2542, t2540, t2537, (0 : α), t2552, t2549, t2546, (0 : α), pi.x, pi.y, pi.z, (1 : α)⟩)
            else
              .ok (⟨t2516, t2517, t2518, (0 : α), t2553, t2554, t2555, (0 : α), t2564, t2561, t2558, (0 : α), pi.x, pi.y, pi.z, (1 : α)⟩)
          else
            if t2569 = (0 : α) then
              .ok (⟨t2516, t2517, t2518, (0 : α), t2568, t2567, t2565, (0 : α), t2578, t2575, t2572, (0 : α), pi.x, pi.y, pi.z, (1 : α)⟩)
            else
              .ok (⟨t2516, t2517, t2518, (0 : α), t2579, t2580, t2581, (0 : α), t2590, t2587, t2584, (0 : α), pi.x, pi.y, pi.z, (1 : α)⟩)
        else
          if t2534 < t2532 then
            if t2543 = (0 : α) then
              .ok (⟨t2516, t2517, t2518, (0 : α), t2542, t2540, t2537, (0 : α), t2552, t2549, t2546, (0 : α), pi.x, pi.y, pi.z, (1 : α)⟩)
            else
              .ok (⟨t2516, t2517, t2518, (0 : α), t2553, t2554, t2555, (0 : α), t2564, t2561, t2558, (0 : α), pi.x, pi.y, pi.z, (1 : α)⟩)
          else
            if t2594 = (0 : α) then
              .ok (⟨t2516, t2517, t2518, (0 : α), t2593, t2592, t2591, (0 : α), t2603, t2600, t2597, (0 : α), pi.x, pi.y, pi.z, (1 : α)⟩)
            else
              .ok (⟨t2516, t2517, t2518, (0 : α), t2604, t2605, t2606, (0 : α), t2615, t2612, t2609, (0 : α), pi.x, pi.y, pi.z, (1 : α)⟩)
      else
        .ok (⟨t2516, t2517, t2518, (0 : α), t2616, t2617, t2618, (0 : α), ((t2517 * t2618) - (t2518 * t2617)), ((t2518 * t2616) - (t2516 * t2618)), ((t2516 * t2617) - (t2517 * t2616)), (0 : α), pi.x, pi.y, pi.z, (1 : α)⟩)

/-- extracted from the C++ template at T = Sym; 1 path(s) -/
def Frame.lastFrame {α : Type} [Add α] [Sub α] [Mul α] [OfNat α 0] [OfNat α 1] (Mi : M44 α) (pi : V3 α) (pj : V3 α) : (M44 α) :=
  let t32 := (pj.z - pi.z)
  let t33 := (pj.y - pi.y)
  let t34 := (pj.x - pi.x)
  let t35 := (t32 * (0 : α))
  let t36 := (t33 * (0 : α))
  let t40 := ((0 : α) + (((t34 * (1 : α)) + t36) + t35))
  let t42 := (t34 * (0 : α))
  let t45 := ((0 : α) + ((t42 + (t33 * (1 : α))) + t35))
  let t47 := (t42 + t36)
  let t49 := ((0 : α) + (t47 + (t32 * (1 : α))))
  let t51 := ((1 : α) + (t47 + t35))
  let t53 := (Mi.x02 * (0 : α))
  let t54 := (Mi.x01 * (0 : α))
  let t61 := (Mi.x00 * (0 : α))
  let t67 := (t61 + t54)
  let t74 := (Mi.x12 * (0 : α))
  let t75 := (Mi.x11 * (0 : α))
  let t82 := (Mi.x10 * (0 : α))
  let t88 := (t82 + t75)
  let t95 := (Mi.x22 * (0 : α))
  let t96 := (Mi.x21 * (0 : α))
  let t103 := (Mi.x20 * (0 : α))
  let t109 := (t103 + t96)
  let t116 := (Mi.x32 * (0 : α))
  let t117 := (Mi.x31 * (0 : α))
  let t124 := (Mi.x30 * (0 : α))
  let t130 := (t124 + t117)
  ⟨((((Mi.x00 * (1 : α)) + t54) + t53) + (Mi.x03 * t40)), (((t61 + (Mi.x01 * (1 : α))) + t53) + (Mi.x03 * t45)), ((t67 + (Mi.x02 * (1 : α))) + (Mi.x03 * t49)), ((t67 + t53) + (Mi.x03 * t51)), ((((Mi.x10 * (1 : α)) + t75) + t74) + (Mi.x13 * t40)), (((t82 + (Mi.x11 * (1 : α))) + t74) + (Mi.x13 * t45)), ((t88 + (Mi.x12 * (1 : α))) + (Mi.x13 * t49)), ((t88 + t74) + (Mi.x13 * t51)), ((((Mi.x20 * (1 : α)) + t96) + t95) + (Mi.x23 * t40)), (((t103 + (Mi.x21 * (1 : α))) + t95) + (Mi.x23 * t45)), ((t109 + (Mi.x22 * (1 : α))) + (Mi.x23 * t49)), ((t109 + t95) + (Mi.x23 * t51)), ((((Mi.x30 * (1 : α)) + t117) + t116) + (Mi.x33 * t40)), (((t124 + (Mi.x31 * (1 : α))) + t116) + (Mi.x33 * t45)), ((t130 + (Mi.x32 * (1 : α))) + (Mi.x33 * t49)), ((t130 + t116) + (Mi.x33 * t51))⟩

end ImathVerif.Gen
