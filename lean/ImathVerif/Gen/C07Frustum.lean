-- GENERATED from /repo/src/Imath by harness/sym (T = Sym path extraction); do not edit.
import ImathVerif.Basic.Types
set_option linter.unusedVariables false
namespace ImathVerif.Gen
open ImathVerif

/-- extracted from the C++ template at T = Sym; 1 path(s) -/
def C07.Frustum.projectionMatrix_persp {α : Type} [Add α] [Sub α] [Mul α] [Div α] [Neg α] [OfNat α 0] [OfNat α 1] [OfNat α 2] (n : α) (f : α) (l : α) (r : α) (t : α) (b : α) : (M44 α) :=
  let t674 := (r - l)
  let t676 := (t - b)
  let t678 := (f - n)
  let t688 := ((2 : α) * n)
  ⟨(t688 / t674), (0 : α), (0 : α), (0 : α), (0 : α), (t688 / t676), (0 : α), (0 : α), ((r + l) / t674), ((t + b) / t676), ((-(f + n)) / t678), (-(1 : α)), (0 : α), (0 : α), ((((-(2 : α)) * f) * n) / t678), (0 : α)⟩

/-- extracted from the C++ template at T = Sym; 27 path(s) -/
def C07.Frustum.projectionMatrixExc_persp {α : Type} [Add α] [Sub α] [Mul α] [Div α] [Neg α] [LT α] [DecidableLT α] [OfNat α 0] [OfNat α 1] [OfNat α 2] (tmax : α) (n : α) (f : α) (l : α) (r : α) (t : α) (b : α) : Except Exc (M44 α) :=
  let t673 := (r + l)
  let t674 := (r - l)
  let t675 := (t + b)
  let t676 := (t - b)
  let t677 := (f + n)
  let t678 := (f - n)
  let t679 := (t673 / t674)
  let t680 := (t675 / t676)
  let t682 := ((-t677) / t678)
  let t685 := (((-(2 : α)) * f) * n)
  let t686 := (t685 / t678)
  let t688 := ((2 : α) * n)
  let t689 := (t688 / t674)
  let t690 := (t688 / t676)
  let t692 := (sabs t674)
  let t693 := (tmax * t692)
  let t694 := (sabs t673)
  let t695 := (sabs t676)
  let t696 := (tmax * t695)
  let t697 := (sabs t675)
  let t698 := (sabs t678)
  let t699 := (tmax * t698)
  let t700 := (sabs t677)
  let t701 := (sabs t685)
  let t702 := (sabs t688)
  if t692 < (1 : α) then
    if t693 < t694 then
      .error Exc.domainError
    else
      if t695 < (1 : α) then
        if t696 < t697 then
          .error Exc.domainError
        else
          if t698 < (1 : α) then
            if t699 < t700 then
              .error Exc.domainError
            else
              if t699 < t701 then
                .error Exc.domainError
              else
                if t693 < t702 then
                  .error Exc.domainError
                else
                  if t696 < t702 then
                    .error Exc.domainError
                  else
                    .ok (⟨t689, (0 : α), (0 : α), (0 : α), (0 : α), t690, (0 : α), (0 : α), t679, t680, t682, (-(1 : α)), (0 : α), (0 : α), t686, (0 : α)⟩)
          else
            if t693 < t702 then
              .error Exc.domainError
            else
              if t696 < t702 then
                .error Exc.domainError
              else
                .ok (⟨t689, (0 : α), (0 : α), (0 : α), (0 : α), t690, (0 : α), (0 : α), t679, t680, t682, (-(1 : α)), (0 : α), (0 : α), t686, (0 : α)⟩)
      else
        if t698 < (1 : α) then
          if t699 < t700 then
            .error Exc.domainError
          else
            if t699 < t701 then
              .error Exc.domainError
            else
              if t693 < t702 then
                .error Exc.domainError
              else
                .ok (⟨t689, (0 : α), (0 : α), (0 : α), (0 : α), t690, (0 : α), (0 : α), t679, t680, t682, (-(1 : α)), (0 : α), (0 : α), t686, (0 : α)⟩)
        else
          if t693 < t702 then
            .error Exc.domainError
          else
            .ok (⟨t689, (0 : α), (0 : α), (0 : α), (0 : α), t690, (0 : α), (0 : α), t679, t680, t682, (-(1 : α)), (0 : α), (0 : α), t686, (0 : α)⟩)
  else
    if t695 < (1 : α) then
      if t696 < t697 then
        .error Exc.domainError
      else
        if t698 < (1 : α) then
          if t699 < t700 then
            .error Exc.domainError
          else
            if t699 < t701 then
              .error Exc.domainError
            else
              if t696 < t702 then
                .error Exc.domainError
              else
                .ok (⟨t689, (0 : α), (0 : α), (0 : α), (0 : α), t690, (0 : α), (0 : α), t679, t680, t682, (-(1 : α)), (0 : α), (0 : α), t686, (0 : α)⟩)
        else
          if t696 < t702 then
            .error Exc.domainError
          else
            .ok (⟨t689, (0 : α), (0 : α), (0 : α), (0 : α), t690, (0 : α), (0 : α), t679, t680, t682, (-(1 : α)), (0 : α), (0 : α), t686, (0 : α)⟩)
    else
      if t698 < (1 : α) then
        if t699 < t700 then
          .error Exc.domainError
        else
          if t699 < t701 then
            .error Exc.domainError
          else
            .ok (⟨t689, (0 : α), (0 : α), (0 : α), (0 : α), t690, (0 : α), (0 : α), t679, t680, t682, (-(1 : α)), (0 : α), (0 : α), t686, (0 : α)⟩)
      else
        .ok (⟨t689, (0 : α), (0 : α), (0 : α), (0 : α), t690, (0 : α), (0 : α), t679, t680, t682, (-(1 : α)), (0 : α), (0 : α), t686, (0 : α)⟩)

/-- extracted from the C++ template at T = Sym; 2 path(s) -/
def C07.Frustum.projectPointToScreen_persp {α : Type} [Add α] [Sub α] [Mul α] [Div α] [Neg α] [DecidableEq α] [OfNat α 0] [OfNat α 2] (n : α) (f : α) (l : α) (r : α) (t : α) (b : α) (p : V3 α) : (V2 α) :=
  let t709 := (l - r)
  let t713 := (b - t)
  let t716 := (-p.z)
  if p.z = (0 : α) then
    ⟨(((l - ((2 : α) * p.x)) + r) / t709), (((b - ((2 : α) * p.y)) + t) / t713)⟩
  else
    ⟨(((l - ((2 : α) * ((p.x * n) / t716))) + r) / t709), (((b - ((2 : α) * ((p.y * n) / t716))) + t) / t713)⟩

/-- extracted from the C++ template at T = Sym; 14 path(s) -/
def C07.Frustum.projectPointToScreenExc_persp {α : Type} [Add α] [Sub α] [Mul α] [Div α] [Neg α] [LT α] [DecidableLT α] [DecidableEq α] [OfNat α 0] [OfNat α 1] [OfNat α 2] (tmax : α) (n : α) (f : α) (l : α) (r : α) (t : α) (b : α) (p : V3 α) : Except Exc (V2 α) :=
  let t708 := ((l - ((2 : α) * p.x)) + r)
  let t709 := (l - r)
  let t712 := ((b - ((2 : α) * p.y)) + t)
  let t713 := (b - t)
  let t714 := (t712 / t713)
  let t715 := (t708 / t709)
  let t716 := (-p.z)
  let t723 := ((l - ((2 : α) * ((p.x * n) / t716))) + r)
  let t726 := ((b - ((2 : α) * ((p.y * n) / t716))) + t)
  let t727 := (t726 / t713)
  let t728 := (t723 / t709)
  let t729 := (sabs t709)
  let t730 := (tmax * t729)
  let t731 := (sabs t708)
  let t732 := (sabs t713)
  let t733 := (tmax * t732)
  let t734 := (sabs t712)
  let t735 := (sabs t723)
  let t736 := (sabs t726)
  if p.z = (0 : α) then
    if t729 < (1 : α) then
      if t730 < t731 then
        .error Exc.domainError
      else
        if t732 < (1 : α) then
          if t733 < t734 then
            .error Exc.domainError
          else
            .ok (⟨t715, t714⟩)
        else
          .ok (⟨t715, t714⟩)
    else
      if t732 < (1 : α) then
        if t733 < t734 then
          .error Exc.domainError
        else
          .ok (⟨t715, t714⟩)
      else
        .ok (⟨t715, t714⟩)
  else
    if t729 < (1 : α) then
      if t730 < t735 then
        .error Exc.domainError
      else
        if t732 < (1 : α) then
          if t733 < t736 then
            .error Exc.domainError
          else
            .ok (⟨t728, t727⟩)
        else
          .ok (⟨t728, t727⟩)
    else
      if t732 < (1 : α) then
        if t733 < t736 then
          .error Exc.domainError
        else
          .ok (⟨t728, t727⟩)
      else
        .ok (⟨t728, t727⟩)

/-- extracted from the C++ template at T = Sym; 1 path(s) -/
def C07.Frustum.normalizedZToDepth_persp {α : Type} [Sub α] [Mul α] [Div α] [OfNat α 1] [OfNat α 2] (n : α) (f : α) (l : α) (r : α) (t : α) (b : α) (z : α) : α :=
  ((((2 : α) * f) * n) / (((((z * (2 : α)) - (1 : α)) * (f - n)) - f) - n))

/-- extracted from the C++ template at T = Sym; 3 path(s) -/
def C07.Frustum.normalizedZToDepthExc_persp {α : Type} [Sub α] [Mul α] [Div α] [Neg α] [LT α] [DecidableLT α] [OfNat α 0] [OfNat α 1] [OfNat α 2] (tmax : α) (n : α) (f : α) (l : α) (r : α) (t : α) (b : α) (z : α) : Except Exc α :=
  let t741 := (((2 : α) * f) * n)
  let t744 := (((((z * (2 : α)) - (1 : α)) * (f - n)) - f) - n)
  let t745 := (t741 / t744)
  let t746 := (sabs t744)
  let t747 := (tmax * t746)
  let t748 := (sabs t741)
  if t746 < (1 : α) then
    if t747 < t748 then
      .error Exc.domainError
    else
      .ok (t745)
  else
    .ok (t745)

/-- extracted from the C++ template at T = Sym; 1 path(s) -/
def C07.Frustum.ZToDepth_5_0_10_persp {α : Type} [Sub α] [Mul α] [Div α] [OfNat α 0] [OfNat α 1] [OfNat α 2] [OfNat α 5] [OfNat α 10] (n : α) (f : α) (l : α) (r : α) (t : α) (b : α) : α :=
  ((((2 : α) * f) * n) / ((((((((5 : α) - (0 : α)) / (10 : α)) * (2 : α)) - (1 : α)) * (f - n)) - f) - n))

/-- extracted from the C++ template at T = Sym; 3 path(s) -/
def C07.Frustum.ZToDepthExc_5_0_10_persp {α : Type} [Sub α] [Mul α] [Div α] [Neg α] [LT α] [DecidableLT α] [OfNat α 0] [OfNat α 1] [OfNat α 2] [OfNat α 5] [OfNat α 10] (tmax : α) (n : α) (f : α) (l : α) (r : α) (t : α) (b : α) : Except Exc α :=
  let t741 := (((2 : α) * f) * n)
  let t748 := (sabs t741)
  let t757 := ((((((((5 : α) - (0 : α)) / (10 : α)) * (2 : α)) - (1 : α)) * (f - n)) - f) - n)
  let t758 := (t741 / t757)
  let t759 := (sabs t757)
  let t760 := (tmax * t759)
  if t759 < (1 : α) then
    if t760 < t748 then
      .error Exc.domainError
    else
      .ok (t758)
  else
    .ok (t758)

/-- extracted from the C++ template at T = Sym; 1 path(s) -/
def C07.Frustum.projectionMatrix_ortho {α : Type} [Add α] [Sub α] [Div α] [Neg α] [OfNat α 0] [OfNat α 1] [OfNat α 2] (n : α) (f : α) (l : α) (r : α) (t : α) (b : α) : (M44 α) :=
  let t674 := (r - l)
  let t676 := (t - b)
  let t678 := (f - n)
  ⟨((2 : α) / t674), (0 : α), (0 : α), (0 : α), (0 : α), ((2 : α) / t676), (0 : α), (0 : α), (0 : α), (0 : α), ((-(2 : α)) / t678), (0 : α), ((-(r + l)) / t674), ((-(t + b)) / t676), ((-(f + n)) / t678), (1 : α)⟩

/-- extracted from the C++ template at T = Sym; 27 path(s) -/
def C07.Frustum.projectionMatrixExc_ortho {α : Type} [Add α] [Sub α] [Mul α] [Div α] [Neg α] [LT α] [DecidableLT α] [OfNat α 0] [OfNat α 1] [OfNat α 2] (tmax : α) (n : α) (f : α) (l : α) (r : α) (t : α) (b : α) : Except Exc (M44 α) :=
  let t673 := (r + l)
  let t674 := (r - l)
  let t675 := (t + b)
  let t676 := (t - b)
  let t677 := (f + n)
  let t678 := (f - n)
  let t682 := ((-t677) / t678)
  let t692 := (sabs t674)
  let t693 := (tmax * t692)
  let t694 := (sabs t673)
  let t695 := (sabs t676)
  let t696 := (tmax * t695)
  let t697 := (sabs t675)
  let t698 := (sabs t678)
  let t699 := (tmax * t698)
  let t700 := (sabs t677)
  let t762 := ((-t673) / t674)
  let t764 := ((-t675) / t676)
  let t765 := ((2 : α) / t674)
  let t766 := ((2 : α) / t676)
  let t767 := ((-(2 : α)) / t678)
  if t692 < (1 : α) then
    if t693 < t694 then
      .error Exc.domainError
    else
      if t695 < (1 : α) then
        if t696 < t697 then
          .error Exc.domainError
        else
          if t698 < (1 : α) then
            if t699 < t700 then
              .error Exc.domainError
            else
              if t693 < (2 : α) then
                .error Exc.domainError
              else
                if t696 < (2 : α) then
                  .error Exc.domainError
                else
                  if t699 < (2 : α) then
                    .error Exc.domainError
                  else
                    .ok (⟨t765, (0 : α), (0 : α), (0 : α), (0 : α), t766, (0 : α), (0 : α), (0 : α), (0 : α), t767, (0 : α), t762, t764, t682, (1 : α)⟩)
          else
            if t693 < (2 : α) then
              .error Exc.domainError
            else
              if t696 < (2 : α) then
                .error Exc.domainError
              else
                .ok (⟨t765, (0 : α), (0 : α), (0 : α), (0 : α), t766, (0 : α), (0 : α), (0 : α), (0 : α), t767, (0 : α), t762, t764, t682, (1 : α)⟩)
      else
        if t698 < (1 : α) then
          if t699 < t700 then
            .error Exc.domainError
          else
            if t693 < (2 : α) then
              .error Exc.domainError
            else
              if t699 < (2 : α) then
                .error Exc.domainError
              else
                .ok (⟨t765, (0 : α), (0 : α), (0 : α), (0 : α), t766, (0 : α), (0 : α), (0 : α), (0 : α), t767, (0 : α), t762, t764, t682, (1 : α)⟩)
        else
          if t693 < (2 : α) then
            .error Exc.domainError
          else
            .ok (⟨t765, (0 : α), (0 : α), (0 : α), (0 : α), t766, (0 : α), (0 : α), (0 : α), (0 : α), t767, (0 : α), t762, t764, t682, (1 : α)⟩)
  else
    if t695 < (1 : α) then
      if t696 < t697 then
        .error Exc.domainError
      else
        if t698 < (1 : α) then
          if t699 < t700 then
            .error Exc.domainError
          else
            if t696 < (2 : α) then
              .error Exc.domainError
            else
              if t699 < (2 : α) then
                .error Exc.domainError
              else
                .ok (⟨t765, (0 : α), (0 : α), (0 : α), (0 : α), t766, (0 : α), (0 : α), (0 : α), (0 : α), t767, (0 : α), t762, t764, t682, (1 : α)⟩)
        else
          if t696 < (2 : α) then
            .error Exc.domainError
          else
            .ok (⟨t765, (0 : α), (0 : α), (0 : α), (0 : α), t766, (0 : α), (0 : α), (0 : α), (0 : α), t767, (0 : α), t762, t764, t682, (1 : α)⟩)
    else
      if t698 < (1 : α) then
        if t699 < t700 then
          .error Exc.domainError
        else
          if t699 < (2 : α) then
            .error Exc.domainError
          else
            .ok (⟨t765, (0 : α), (0 : α), (0 : α), (0 : α), t766, (0 : α), (0 : α), (0 : α), (0 : α), t767, (0 : α), t762, t764, t682, (1 : α)⟩)
      else
        .ok (⟨t765, (0 : α), (0 : α), (0 : α), (0 : α), t766, (0 : α), (0 : α), (0 : α), (0 : α), t767, (0 : α), t762, t764, t682, (1 : α)⟩)

/-- extracted from the C++ template at T = Sym; 1 path(s) -/
def C07.Frustum.projectPointToScreen_ortho {α : Type} [Add α] [Sub α] [Mul α] [Div α] [OfNat α 2] (n : α) (f : α) (l : α) (r : α) (t : α) (b : α) (p : V3 α) : (V2 α) :=
  ⟨(((l - ((2 : α) * p.x)) + r) / (l - r)), (((b - ((2 : α) * p.y)) + t) / (b - t))⟩

/-- extracted from the C++ template at T = Sym; 7 path(s) -/
def C07.Frustum.projectPointToScreenExc_ortho {α : Type} [Add α] [Sub α] [Mul α] [Div α] [Neg α] [LT α] [DecidableLT α] [OfNat α 0] [OfNat α 1] [OfNat α 2] (tmax : α) (n : α) (f : α) (l : α) (r : α) (t : α) (b : α) (p : V3 α) : Except Exc (V2 α) :=
  let t708 := ((l - ((2 : α) * p.x)) + r)
  let t709 := (l - r)
  let t712 := ((b - ((2 : α) * p.y)) + t)
  let t713 := (b - t)
  let t714 := (t712 / t713)
  let t715 := (t708 / t709)
  let t729 := (sabs t709)
  let t730 := (tmax * t729)
  let t731 := (sabs t708)
  let t732 := (sabs t713)
  let t733 := (tmax * t732)
  let t734 := (sabs t712)
  if t729 < (1 : α) then
    if t730 < t731 then
      .error Exc.domainError
    else
      if t732 < (1 : α) then
        if t733 < t734 then
          .error Exc.domainError
        else
          .ok (⟨t715, t714⟩)
      else
        .ok (⟨t715, t714⟩)
  else
    if t732 < (1 : α) then
      if t733 < t734 then
        .error Exc.domainError
      else
        .ok (⟨t715, t714⟩)
    else
      .ok (⟨t715, t714⟩)

/-- extracted from the C++ template at T = Sym; 1 path(s) -/
def C07.Frustum.normalizedZToDepth_ortho {α : Type} [Add α] [Sub α] [Mul α] [Div α] [Neg α] [OfNat α 1] [OfNat α 2] (n : α) (f : α) (l : α) (r : α) (t : α) (b : α) (z : α) : α :=
  ((-((((z * (2 : α)) - (1 : α)) * (f - n)) + (f + n))) / (2 : α))

/-- extracted from the C++ template at T = Sym; 1 path(s) -/
def C07.Frustum.normalizedZToDepthExc_ortho {α : Type} [Add α] [Sub α] [Mul α] [Div α] [Neg α] [OfNat α 1] [OfNat α 2] (n : α) (f : α) (l : α) (r : α) (t : α) (b : α) (z : α) : α :=
  ((-((((z * (2 : α)) - (1 : α)) * (f - n)) + (f + n))) / (2 : α))

/-- extracted from the C++ template at T = Sym; 1 path(s) -/
def C07.Frustum.ZToDepth_5_0_10_ortho {α : Type} [Add α] [Sub α] [Mul α] [Div α] [Neg α] [OfNat α 0] [OfNat α 1] [OfNat α 2] [OfNat α 5] [OfNat α 10] (n : α) (f : α) (l : α) (r : α) (t : α) (b : α) : α :=
  ((-(((((((5 : α) - (0 : α)) / (10 : α)) * (2 : α)) - (1 : α)) * (f - n)) + (f + n))) / (2 : α))

/-- extracted from the C++ template at T = Sym; 1 path(s) -/
def C07.Frustum.ZToDepthExc_5_0_10_ortho {α : Type} [Add α] [Sub α] [Mul α] [Div α] [Neg α] [OfNat α 0] [OfNat α 1] [OfNat α 2] [OfNat α 5] [OfNat α 10] (n : α) (f : α) (l : α) (r : α) (t : α) (b : α) : α :=
  ((-(((((((5 : α) - (0 : α)) / (10 : α)) * (2 : α)) - (1 : α)) * (f - n)) + (f + n))) / (2 : α))

/-- extracted from the C++ template at T = Sym; 1 path(s) -/
def C07.Frustum.ZToDepth_12_0_10_persp {α : Type} [Sub α] [Mul α] [Div α] [OfNat α 0] [OfNat α 1] [OfNat α 2] [OfNat α 10] (n : α) (f : α) (l : α) (r : α) (t : α) (b : α) : α :=
  ((((2 : α) * f) * n) / ((((((((2 : α) - (0 : α)) / (10 : α)) * (2 : α)) - (1 : α)) * (f - n)) - f) - n))

/-- extracted from the C++ template at T = Sym; 3 path(s) -/
def C07.Frustum.ZToDepthExc_12_0_10_persp {α : Type} [Sub α] [Mul α] [Div α] [Neg α] [LT α] [DecidableLT α] [OfNat α 0] [OfNat α 1] [OfNat α 2] [OfNat α 10] (tmax : α) (n : α) (f : α) (l : α) (r : α) (t : α) (b : α) : Except Exc α :=
  let t741 := (((2 : α) * f) * n)
  let t748 := (sabs t741)
  let t780 := ((((((((2 : α) - (0 : α)) / (10 : α)) * (2 : α)) - (1 : α)) * (f - n)) - f) - n)
  let t781 := (t741 / t780)
  let t782 := (sabs t780)
  let t783 := (tmax * t782)
  if t782 < (1 : α) then
    if t783 < t748 then
      .error Exc.domainError
    else
      .ok (t781)
  else
    .ok (t781)

/-- extracted from the C++ template at T = Sym; 1 path(s) -/
def C07.Frustum.ZToDepth_3_7_7_persp {α : Type} [Sub α] [Mul α] [Div α] [OfNat α 0] [OfNat α 1] [OfNat α 2] [OfNat α 3] [OfNat α 7] (n : α) (f : α) (l : α) (r : α) (t : α) (b : α) : α :=
  ((((2 : α) * f) * n) / ((((((((3 : α) - (7 : α)) / (0 : α)) * (2 : α)) - (1 : α)) * (f - n)) - f) - n))

/-- extracted from the C++ template at T = Sym; 1 path(s) -/
def C07.Frustum.ZToDepthExc_3_7_7_persp {α : Type} (n : α) (f : α) (l : α) (r : α) (t : α) (b : α) : Except Exc Unit :=
  .error Exc.domainError

/-- extracted from the C++ template at T = Sym; 1 path(s) -/
def C07.Frustum.ZToDepth_11_0_10_persp {α : Type} [Sub α] [Mul α] [Div α] [OfNat α 0] [OfNat α 1] [OfNat α 2] [OfNat α 10] [OfNat α 11] (n : α) (f : α) (l : α) (r : α) (t : α) (b : α) : α :=
  ((((2 : α) * f) * n) / ((((((((11 : α) - (0 : α)) / (10 : α)) * (2 : α)) - (1 : α)) * (f - n)) - f) - n))

/-- extracted from the C++ template at T = Sym; 3 path(s) -/
def C07.Frustum.ZToDepthExc_11_0_10_persp {α : Type} [Sub α] [Mul α] [Div α] [Neg α] [LT α] [DecidableLT α] [OfNat α 0] [OfNat α 1] [OfNat α 2] [OfNat α 10] [OfNat α 11] (tmax : α) (n : α) (f : α) (l : α) (r : α) (t : α) (b : α) : Except Exc α :=
  let t741 := (((2 : α) * f) * n)
  let t748 := (sabs t741)
  let t801 := ((((((((11 : α) - (0 : α)) / (10 : α)) * (2 : α)) - (1 : α)) * (f - n)) - f) - n)
  let t802 := (t741 / t801)
  let t803 := (sabs t801)
  let t804 := (tmax * t803)
  if t803 < (1 : α) then
    if t804 < t748 then
      .error Exc.domainError
    else
      .ok (t802)
  else
    .ok (t802)

/-- extracted from the C++ template at T = Sym; 1 path(s) -/
def C07.Frustum.ZToDepth_11_0_10_ortho {α : Type} [Add α] [Sub α] [Mul α] [Div α] [Neg α] [OfNat α 0] [OfNat α 1] [OfNat α 2] [OfNat α 10] [OfNat α 11] (n : α) (f : α) (l : α) (r : α) (t : α) (b : α) : α :=
  ((-(((((((11 : α) - (0 : α)) / (10 : α)) * (2 : α)) - (1 : α)) * (f - n)) + (f + n))) / (2 : α))

/-- extracted from the C++ template at T = Sym; 1 path(s) -/
def C07.Frustum.ZToDepthExc_11_0_10_ortho {α : Type} [Add α] [Sub α] [Mul α] [Div α] [Neg α] [OfNat α 0] [OfNat α 1] [OfNat α 2] [OfNat α 10] [OfNat α 11] (n : α) (f : α) (l : α) (r : α) (t : α) (b : α) : α :=
  ((-(((((((11 : α) - (0 : α)) / (10 : α)) * (2 : α)) - (1 : α)) * (f - n)) + (f + n))) / (2 : α))

/-- extracted from the C++ template at T = Sym; 1 path(s) -/
def C07.Frustum.ZToDepth_m3_m10_10_persp {α : Type} [Sub α] [Mul α] [Div α] [Neg α] [OfNat α 1] [OfNat α 2] [OfNat α 3] [OfNat α 10] [OfNat α 20] (n : α) (f : α) (l : α) (r : α) (t : α) (b : α) : α :=
  ((((2 : α) * f) * n) / ((((((((-(3 : α)) - (-(10 : α))) / (20 : α)) * (2 : α)) - (1 : α)) * (f - n)) - f) - n))

/-- extracted from the C++ template at T = Sym; 3 path(s) -/
def C07.Frustum.ZToDepthExc_m3_m10_10_persp {α : Type} [Sub α] [Mul α] [Div α] [Neg α] [LT α] [DecidableLT α] [OfNat α 0] [OfNat α 1] [OfNat α 2] [OfNat α 3] [OfNat α 10] [OfNat α 20] (tmax : α) (n : α) (f : α) (l : α) (r : α) (t : α) (b : α) : Except Exc α :=
  let t741 := (((2 : α) * f) * n)
  let t748 := (sabs t741)
  let t817 := ((((((((-(3 : α)) - (-(10 : α))) / (20 : α)) * (2 : α)) - (1 : α)) * (f - n)) - f) - n)
  let t818 := (t741 / t817)
  let t819 := (sabs t817)
  let t820 := (tmax * t819)
  if t819 < (1 : α) then
    if t820 < t748 then
      .error Exc.domainError
    else
      .ok (t818)
  else
    .ok (t818)

/-- extracted from the C++ template at T = Sym; 1 path(s) -/
def C07.Frustum.ZToDepth_m3_m10_10_ortho {α : Type} [Add α] [Sub α] [Mul α] [Div α] [Neg α] [OfNat α 1] [OfNat α 2] [OfNat α 3] [OfNat α 10] [OfNat α 20] (n : α) (f : α) (l : α) (r : α) (t : α) (b : α) : α :=
  ((-(((((((-(3 : α)) - (-(10 : α))) / (20 : α)) * (2 : α)) - (1 : α)) * (f - n)) + (f + n))) / (2 : α))

/-- extracted from the C++ template at T = Sym; 1 path(s) -/
def C07.Frustum.ZToDepthExc_m3_m10_10_ortho {α : Type} [Add α] [Sub α] [Mul α] [Div α] [Neg α] [OfNat α 1] [OfNat α 2] [OfNat α 3] [OfNat α 10] [OfNat α 20] (n : α) (f : α) (l : α) (r : α) (t : α) (b : α) : α :=
  ((-(((((((-(3 : α)) - (-(10 : α))) / (20 : α)) * (2 : α)) - (1 : α)) * (f - n)) + (f + n))) / (2 : α))

/-- extracted from the C++ template at T = Sym; 1 path(s) -/
def C07.Frustum.ZToDepth_25_m5_15_persp {α : Type} [Sub α] [Mul α] [Div α] [Neg α] [OfNat α 1] [OfNat α 2] [OfNat α 5] [OfNat α 20] (n : α) (f : α) (l : α) (r : α) (t : α) (b : α) : α :=
  ((((2 : α) * f) * n) / ((((((((5 : α) - (-(5 : α))) / (20 : α)) * (2 : α)) - (1 : α)) * (f - n)) - f) - n))

/-- extracted from the C++ template at T = Sym; 3 path(s) -/
def C07.Frustum.ZToDepthExc_25_m5_15_persp {α : Type} [Sub α] [Mul α] [Div α] [Neg α] [LT α] [DecidableLT α] [OfNat α 0] [OfNat α 1] [OfNat α 2] [OfNat α 5] [OfNat α 20] (tmax : α) (n : α) (f : α) (l : α) (r : α) (t : α) (b : α) : Except Exc α :=
  let t741 := (((2 : α) * f) * n)
  let t748 := (sabs t741)
  let t831 := ((((((((5 : α) - (-(5 : α))) / (20 : α)) * (2 : α)) - (1 : α)) * (f - n)) - f) - n)
  let t832 := (t741 / t831)
  let t833 := (sabs t831)
  let t834 := (tmax * t833)
  if t833 < (1 : α) then
    if t834 < t748 then
      .error Exc.domainError
    else
      .ok (t832)
  else
    .ok (t832)

/-- extracted from the C++ template at T = Sym; 1 path(s) -/
def C07.Frustum.ZToDepth_25_m5_15_ortho {α : Type} [Add α] [Sub α] [Mul α] [Div α] [Neg α] [OfNat α 1] [OfNat α 2] [OfNat α 5] [OfNat α 20] (n : α) (f : α) (l : α) (r : α) (t : α) (b : α) : α :=
  ((-(((((((5 : α) - (-(5 : α))) / (20 : α)) * (2 : α)) - (1 : α)) * (f - n)) + (f + n))) / (2 : α))

/-- extracted from the C++ template at T = Sym; 1 path(s) -/
def C07.Frustum.ZToDepthExc_25_m5_15_ortho {α : Type} [Add α] [Sub α] [Mul α] [Div α] [Neg α] [OfNat α 1] [OfNat α 2] [OfNat α 5] [OfNat α 20] (n : α) (f : α) (l : α) (r : α) (t : α) (b : α) : α :=
  ((-(((((((5 : α) - (-(5 : α))) / (20 : α)) * (2 : α)) - (1 : α)) * (f - n)) + (f + n))) / (2 : α))

/-- extracted from the C++ template at T = Sym; 1 path(s) -/
def C07.Frustum.ZToDepth_0_0_1_persp {α : Type} [Sub α] [Mul α] [Div α] [OfNat α 0] [OfNat α 1] [OfNat α 2] (n : α) (f : α) (l : α) (r : α) (t : α) (b : α) : α :=
  ((((2 : α) * f) * n) / ((((((((0 : α) - (0 : α)) / (1 : α)) * (2 : α)) - (1 : α)) * (f - n)) - f) - n))

/-- extracted from the C++ template at T = Sym; 3 path(s) -/
def C07.Frustum.ZToDepthExc_0_0_1_persp {α : Type} [Sub α] [Mul α] [Div α] [Neg α] [LT α] [DecidableLT α] [OfNat α 0] [OfNat α 1] [OfNat α 2] (tmax : α) (n : α) (f : α) (l : α) (r : α) (t : α) (b : α) : Except Exc α :=
  let t741 := (((2 : α) * f) * n)
  let t748 := (sabs t741)
  let t844 := ((((((((0 : α) - (0 : α)) / (1 : α)) * (2 : α)) - (1 : α)) * (f - n)) - f) - n)
  let t845 := (t741 / t844)
  let t846 := (sabs t844)
  let t847 := (tmax * t846)
  if t846 < (1 : α) then
    if t847 < t748 then
      .error Exc.domainError
    else
      .ok (t845)
  else
    .ok (t845)

/-- extracted from the C++ template at T = Sym; 1 path(s) -/
def C07.Frustum.ZToDepth_0_0_1_ortho {α : Type} [Add α] [Sub α] [Mul α] [Div α] [Neg α] [OfNat α 0] [OfNat α 1] [OfNat α 2] (n : α) (f : α) (l : α) (r : α) (t : α) (b : α) : α :=
  ((-(((((((0 : α) - (0 : α)) / (1 : α)) * (2 : α)) - (1 : α)) * (f - n)) + (f + n))) / (2 : α))

/-- extracted from the C++ template at T = Sym; 1 path(s) -/
def C07.Frustum.ZToDepthExc_0_0_1_ortho {α : Type} [Add α] [Sub α] [Mul α] [Div α] [Neg α] [OfNat α 0] [OfNat α 1] [OfNat α 2] (n : α) (f : α) (l : α) (r : α) (t : α) (b : α) : α :=
  ((-(((((((0 : α) - (0 : α)) / (1 : α)) * (2 : α)) - (1 : α)) * (f - n)) + (f + n))) / (2 : α))

/-- extracted from the C++ template at T = Sym; 1 path(s) -/
def C07.Frustum.ZToDepth_w33_persp {α : Type} [Sub α] [Mul α] [Div α] [OfNat α 1] [OfNat α 2] [OfNat α 8589934590] [OfNat α 8589934591] (n : α) (f : α) (l : α) (r : α) (t : α) (b : α) : α :=
  ((((2 : α) * f) * n) / ((((((((8589934591 : α) - (1 : α)) / (8589934590 : α)) * (2 : α)) - (1 : α)) * (f - n)) - f) - n))

/-- extracted from the C++ template at T = Sym; 3 path(s) -/
def C07.Frustum.ZToDepthExc_w33_persp {α : Type} [Sub α] [Mul α] [Div α] [Neg α] [LT α] [DecidableLT α] [OfNat α 0] [OfNat α 1] [OfNat α 2] [OfNat α 8589934590] [OfNat α 8589934591] (tmax : α) (n : α) (f : α) (l : α) (r : α) (t : α) (b : α) : Except Exc α :=
  let t741 := (((2 : α) * f) * n)
  let t748 := (sabs t741)
  let t859 := ((((((((8589934591 : α) - (1 : α)) / (8589934590 : α)) * (2 : α)) - (1 : α)) * (f - n)) - f) - n)
  let t860 := (t741 / t859)
  let t861 := (sabs t859)
  let t862 := (tmax * t861)
  if t861 < (1 : α) then
    if t862 < t748 then
      .error Exc.domainError
    else
      .ok (t860)
  else
    .ok (t860)

/-- extracted from the C++ template at T = Sym; 1 path(s) -/
def C07.Frustum.ZToDepth_w33_ortho {α : Type} [Add α] [Sub α] [Mul α] [Div α] [Neg α] [OfNat α 1] [OfNat α 2] [OfNat α 8589934590] [OfNat α 8589934591] (n : α) (f : α) (l : α) (r : α) (t : α) (b : α) : α :=
  ((-(((((((8589934591 : α) - (1 : α)) / (8589934590 : α)) * (2 : α)) - (1 : α)) * (f - n)) + (f + n))) / (2 : α))

/-- extracted from the C++ template at T = Sym; 1 path(s) -/
def C07.Frustum.ZToDepthExc_w33_ortho {α : Type} [Add α] [Sub α] [Mul α] [Div α] [Neg α] [OfNat α 1] [OfNat α 2] [OfNat α 8589934590] [OfNat α 8589934591] (n : α) (f : α) (l : α) (r : α) (t : α) (b : α) : α :=
  ((-(((((((8589934591 : α) - (1 : α)) / (8589934590 : α)) * (2 : α)) - (1 : α)) * (f - n)) + (f + n))) / (2 : α))

/-- extracted from the C++ template at T = Sym; 1 path(s) -/
def C07.Frustum.localToScreen {α : Type} [Add α] [Sub α] [Mul α] [Div α] [OfNat α 2] (n : α) (f : α) (l : α) (r : α) (t : α) (b : α) (p : V2 α) : (V2 α) :=
  ⟨(((l - ((2 : α) * p.x)) + r) / (l - r)), (((b - ((2 : α) * p.y)) + t) / (b - t))⟩

/-- extracted from the C++ template at T = Sym; 7 path(s) -/
def C07.Frustum.localToScreenExc {α : Type} [Add α] [Sub α] [Mul α] [Div α] [Neg α] [LT α] [DecidableLT α] [OfNat α 0] [OfNat α 1] [OfNat α 2] (tmax : α) (n : α) (f : α) (l : α) (r : α) (t : α) (b : α) (p : V2 α) : Except Exc (V2 α) :=
  let t708 := ((l - ((2 : α) * p.x)) + r)
  let t709 := (l - r)
  let t712 := ((b - ((2 : α) * p.y)) + t)
  let t713 := (b - t)
  let t714 := (t712 / t713)
  let t715 := (t708 / t709)
  let t729 := (sabs t709)
  let t730 := (tmax * t729)
  let t731 := (sabs t708)
  let t732 := (sabs t713)
  let t733 := (tmax * t732)
  let t734 := (sabs t712)
  if t729 < (1 : α) then
    if t730 < t731 then
      .error Exc.domainError
    else
      if t732 < (1 : α) then
        if t733 < t734 then
          .error Exc.domainError
        else
          .ok (⟨t715, t714⟩)
      else
        .ok (⟨t715, t714⟩)
  else
    if t732 < (1 : α) then
      if t733 < t734 then
        .error Exc.domainError
      else
        .ok (⟨t715, t714⟩)
    else
      .ok (⟨t715, t714⟩)

/-- extracted from the C++ template at T = Sym; 1 path(s) -/
def C07.Frustum.screenRadius {α : Type} [Mul α] [Div α] [Neg α] (n : α) (f : α) (l : α) (r : α) (t : α) (b : α) (p : V3 α) (radius : α) : α :=
  (radius * ((-n) / p.z))

/-- extracted from the C++ template at T = Sym; 3 path(s) -/
def C07.Frustum.screenRadiusExc {α : Type} [Mul α] [Div α] [Neg α] [LT α] [DecidableLT α] [OfNat α 0] [OfNat α 1] (tmax : α) (n : α) (f : α) (l : α) (r : α) (t : α) (b : α) (p : V3 α) (radius : α) : Except Exc α :=
  let t867 := (-n)
  let t869 := (radius * (t867 / p.z))
  let t870 := (sabs p.z)
  let t871 := (tmax * t870)
  let t872 := (sabs t867)
  if (1 : α) < t870 then
    .ok (t869)
  else
    if t872 < t871 then
      .ok (t869)
    else
      .error Exc.domainError

/-- extracted from the C++ template at T = Sym; 1 path(s) -/
def C07.Frustum.worldRadius {α : Type} [Mul α] [Div α] [Neg α] (n : α) (f : α) (l : α) (r : α) (t : α) (b : α) (p : V3 α) (radius : α) : α :=
  (radius * (p.z / (-n)))

/-- extracted from the C++ template at T = Sym; 3 path(s) -/
def C07.Frustum.worldRadiusExc {α : Type} [Mul α] [Div α] [Neg α] [LT α] [DecidableLT α] [OfNat α 0] [OfNat α 1] (tmax : α) (n : α) (f : α) (l : α) (r : α) (t : α) (b : α) (p : V3 α) (radius : α) : Except Exc α :=
  let t867 := (-n)
  let t870 := (sabs p.z)
  let t872 := (sabs t867)
  let t874 := (radius * (p.z / t867))
  let t875 := (tmax * t872)
  if (1 : α) < t872 then
    .ok (t874)
  else
    if t870 < t875 then
      .ok (t874)
    else
      .error Exc.domainError

/-- extracted from the C++ template at T = Sym; 1 path(s) -/
def C07.Frustum.aspect {α : Type} [Sub α] [Div α] (n : α) (f : α) (l : α) (r : α) (t : α) (b : α) : α :=
  ((r - l) / (t - b))

/-- extracted from the C++ template at T = Sym; 3 path(s) -/
def C07.Frustum.aspectExc {α : Type} [Sub α] [Mul α] [Div α] [Neg α] [LT α] [DecidableLT α] [OfNat α 0] [OfNat α 1] (tmax : α) (n : α) (f : α) (l : α) (r : α) (t : α) (b : α) : Except Exc α :=
  let t674 := (r - l)
  let t676 := (t - b)
  let t692 := (sabs t674)
  let t695 := (sabs t676)
  let t696 := (tmax * t695)
  let t876 := (t674 / t676)
  if t695 < (1 : α) then
    if t696 < t692 then
      .error Exc.domainError
    else
      .ok (t876)
  else
    .ok (t876)

/-- extracted from the C++ template at T = Sym; 2 path(s) -/
def C07.Frustum.setFov {α : Type} [Sub α] [Mul α] [Div α] [Neg α] [DecidableEq α] [OfNat α 0] [OfNat α 2] (tan : α → α) (n : α) (f : α) (fovx : α) (fovy : α) (aspect : α) : (α × α × α × α × α × α × Bool) :=
  let t884 := (n * (tan (fovy / (2 : α))))
  let t885 := (-t884)
  let t888 := (((t884 - t885) * aspect) / (2 : α))
  let t892 := (n * (tan (fovx / (2 : α))))
  let t893 := (-t892)
  let t896 := (((t892 - t893) / aspect) / (2 : α))
  if fovx = (0 : α) then
    (n, f, (-t888), t888, t884, t885, false)
  else
    (n, f, t893, t892, t896, (-t896), false)

/-- extracted from the C++ template at T = Sym; 3 path(s) -/
def C07.Frustum.setFovExc {α : Type} [Sub α] [Mul α] [Div α] [Neg α] [DecidableEq α] [OfNat α 0] [OfNat α 2] (tan : α → α) (n : α) (f : α) (fovx : α) (fovy : α) (aspect : α) : Except Exc (α × α × α × α × α × α × Bool) :=
  let t884 := (n * (tan (fovy / (2 : α))))
  let t885 := (-t884)
  let t888 := (((t884 - t885) * aspect) / (2 : α))
  let t892 := (n * (tan (fovx / (2 : α))))
  let t893 := (-t892)
  let t896 := (((t892 - t893) / aspect) / (2 : α))
  if fovx = (0 : α) then
    .ok ((n, f, (-t888), t888, t884, t885, false))
  else
    if fovy = (0 : α) then
      .ok ((n, f, t893, t892, t896, (-t896), false))
    else
      .error Exc.domainError

/-- extracted from the C++ template at T = Sym; 2 path(s) -/
def C07.Frustum.setFovFromOrtho {α : Type} [Sub α] [Mul α] [Div α] [Neg α] [DecidableEq α] [OfNat α 0] [OfNat α 2] (tan : α → α) (n : α) (f : α) (fovx : α) (fovy : α) (aspect : α) : (α × α × α × α × α × α × Bool) :=
  let t884 := (n * (tan (fovy / (2 : α))))
  let t885 := (-t884)
  let t888 := (((t884 - t885) * aspect) / (2 : α))
  let t892 := (n * (tan (fovx / (2 : α))))
  let t893 := (-t892)
  let t896 := (((t892 - t893) / aspect) / (2 : α))
  if fovx = (0 : α) then
    (n, f, (-t888), t888, t884, t885, false)
  else
    (n, f, t893, t892, t896, (-t896), false)

/-- extracted from the C++ template at T = Sym; 3 path(s) -/
def C07.Frustum.setFovExcFromOrtho {α : Type} [Sub α] [Mul α] [Div α] [Neg α] [DecidableEq α] [OfNat α 0] [OfNat α 2] (tan : α → α) (n : α) (f : α) (fovx : α) (fovy : α) (aspect : α) : Except Exc (α × α × α × α × α × α × Bool) :=
  let t884 := (n * (tan (fovy / (2 : α))))
  let t885 := (-t884)
  let t888 := (((t884 - t885) * aspect) / (2 : α))
  let t892 := (n * (tan (fovx / (2 : α))))
  let t893 := (-t892)
  let t896 := (((t892 - t893) / aspect) / (2 : α))
  if fovx = (0 : α) then
    .ok ((n, f, (-t888), t888, t884, t885, false))
  else
    if fovy = (0 : α) then
      .ok ((n, f, t893, t892, t896, (-t896), false))
    else
      .error Exc.domainError

end ImathVerif.Gen
