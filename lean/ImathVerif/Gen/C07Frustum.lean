-- GENERATED from /repo/src/Imath by harness/sym (T = Sym path extraction); do not edit.
import ImathVerif.Basic.Types
set_option linter.unusedVariables false
namespace ImathVerif.Gen
open ImathVerif

/-- extracted from the C++ template at T = Sym; 1 path(s) -/
def C07.Frustum.projectionMatrix_persp {α : Type} [Add α] [Sub α] [Mul α] [Div α] [Neg α] [OfNat α 0] [OfNat α 1] [OfNat α 2] (n : α) (f : α) (l : α) (r : α) (t : α) (b : α) : (M44 α) :=
  let t676 := (r - l)
  let t678 := (t - b)
  let t680 := (f - n)
  let t690 := ((2 : α) * n)
  ⟨(t690 / t676), (0 : α), (0 : α), (0 : α), (0 : α), (t690 / t678), (0 : α), (0 : α), ((r + l) / t676), ((t + b) / t678), ((-(f + n)) / t680), (-(1 : α)), (0 : α), (0 : α), ((((-(2 : α)) * f) * n) / t680), (0 : α)⟩

/-- extracted from the C++ template at T = Sym; 27 path(s) -/
def C07.Frustum.projectionMatrixExc_persp {α : Type} [Add α] [Sub α] [Mul α] [Div α] [Neg α] [LT α] [DecidableLT α] [OfNat α 0] [OfNat α 1] [OfNat α 2] (tmax : α) (n : α) (f : α) (l : α) (r : α) (t : α) (b : α) : Except Exc (M44 α) :=
  let t675 := (r + l)
  let t676 := (r - l)
  let t677 := (t + b)
  let t678 := (t - b)
  let t679 := (f + n)
  let t680 := (f - n)
  let t681 := (t675 / t676)
  let t682 := (t677 / t678)
  let t684 := ((-t679) / t680)
  let t687 := (((-(2 : α)) * f) * n)
  let t688 := (t687 / t680)
  let t690 := ((2 : α) * n)
  let t691 := (t690 / t676)
  let t692 := (t690 / t678)
  let t694 := (sabs t676)
  let t695 := (tmax * t694)
  let t696 := (sabs t675)
  let t697 := (sabs t678)
  let t698 := (tmax * t697)
  let t699 := (sabs t677)
  let t700 := (sabs t680)
  let t701 := (tmax * t700)
  let t702 := (sabs t679)
  let t703 := (sabs t687)
  let t704 := (sabs t690)
  if t694 < (1 : α) then
    if t695 < t696 then
      .error Exc.domainError
    else
      if t697 < (1 : α) then
        if t698 < t699 then
          .error Exc.domainError
        else
          if t700 < (1 : α) then
            if t701 < t702 then
              .error Exc.domainError
            else
              if t701 < t703 then
                .error Exc.domainError
              else
                if t695 < t704 then
                  .error Exc.domainError
                else
                  if t698 < t704 then
                    .error Exc.domainError
                  else
                    .ok (⟨t691, (0 : α), (0 : α), (0 : α), (0 : α), t692, (0 : α), (0 : α), t681, t682, t684, (-(1 : α)), (0 : α), (0 : α), t688, (0 : α)⟩)
          else
            if t695 < t704 then
              .error Exc.domainError
            else
              if t698 < t704 then
                .error Exc.domainError
              else
                .ok (⟨t691, (0 : α), (0 : α), (0 : α), (0 : α), t692, (0 : α), (0 : α), t681, t682, t684, (-(1 : α)), (0 : α), (0 : α), t688, (0 : α)⟩)
      else
        if t700 < (1 : α) then
          if t701 < t702 then
            .error Exc.domainError
          else
            if t701 < t703 then
              .error Exc.domainError
            else
              if t695 < t704 then
                .error Exc.domainError
              else
                .ok (⟨t691, (0 : α), (0 : α), (0 : α), (0 : α), t692, (0 : α), (0 : α), t681, t682, t684, (-(1 : α)), (0 : α), (0 : α), t688, (0 : α)⟩)
        else
          if t695 < t704 then
            .error Exc.domainError
          else
            .ok (⟨t691, (0 : α), (0 : α), (0 : α), (0 : α), t692, (0 : α), (0 : α), t681, t682, t684, (-(1 : α)), (0 : α), (0 : α), t688, (0 : α)⟩)
  else
    if t697 < (1 : α) then
      if t698 < t699 then
        .error Exc.domainError
      else
        if t700 < (1 : α) then
          if t701 < t702 then
            .error Exc.domainError
          else
            if t701 < t703 then
              .error Exc.domainError
            else
              if t698 < t704 then
                .error Exc.domainError
              else
                .ok (⟨t691, (0 : α), (0 : α), (0 : α), (0 : α), t692, (0 : α), (0 : α), t681, t682, t684, (-(1 : α)), (0 : α), (0 : α), t688, (0 : α)⟩)
        else
          if t698 < t704 then
            .error Exc.domainError
          else
            .ok (⟨t691, (0 : α), (0 : α), (0 : α), (0 : α), t692, (0 : α), (0 : α), t681, t682, t684, (-(1 : α)), (0 : α), (0 : α), t688, (0 : α)⟩)
    else
      if t700 < (1 : α) then
        if t701 < t702 then
          .error Exc.domainError
        else
          if t701 < t703 then
            .error Exc.domainError
          else
            .ok (⟨t691, (0 : α), (0 : α), (0 : α), (0 : α), t692, (0 : α), (0 : α), t681, t682, t684, (-(1 : α)), (0 : α), (0 : α), t688, (0 : α)⟩)
      else
        .ok (⟨t691, (0 : α), (0 : α), (0 : α), (0 : α), t692, (0 : α), (0 : α), t681, t682, t684, (-(1 : α)), (0 : α), (0 : α), t688, (0 : α)⟩)

/-- extracted from the C++ template at T = Sym; 2 path(s) -/
def C07.Frustum.projectPointToScreen_persp {α : Type} [Add α] [Sub α] [Mul α] [Div α] [Neg α] [DecidableEq α] [OfNat α 0] [OfNat α 2] (n : α) (f : α) (l : α) (r : α) (t : α) (b : α) (p : V3 α) : (V2 α) :=
  let t711 := (l - r)
  let t715 := (b - t)
  let t718 := (-p.z)
  if p.z = (0 : α) then
    ⟨(((l - ((2 : α) * p.x)) + r) / t711), (((b - ((2 : α) * p.y)) + t) / t715)⟩
  else
    ⟨(((l - ((2 : α) * ((p.x * n) / t718))) + r) / t711), (((b - ((2 : α) * ((p.y * n) / t718))) + t) / t715)⟩

/-- extracted from the C++ template at T = Sym; 14 path(s) -/
def C07.Frustum.projectPointToScreenExc_persp {α : Type} [Add α] [Sub α] [Mul α] [Div α] [Neg α] [LT α] [DecidableLT α] [DecidableEq α] [OfNat α 0] [OfNat α 1] [OfNat α 2] (tmax : α) (n : α) (f : α) (l : α) (r : α) (t : α) (b : α) (p : V3 α) : Except Exc (V2 α) :=
  let t710 := ((l - ((2 : α) * p.x)) + r)
  let t711 := (l - r)
  let t714 := ((b - ((2 : α) * p.y)) + t)
  let t715 := (b - t)
  let t716 := (t714 / t715)
  let t717 := (t710 / t711)
  let t718 := (-p.z)
  let t725 := ((l - ((2 : α) * ((p.x * n) / t718))) + r)
  let t728 := ((b - ((2 : α) * ((p.y * n) / t718))) + t)
  let t729 := (t728 / t715)
  let t730 := (t725 / t711)
  let t731 := (sabs t711)
  let t732 := (tmax * t731)
  let t733 := (sabs t710)
  let t734 := (sabs t715)
  let t735 := (tmax * t734)
  let t736 := (sabs t714)
  let t737 := (sabs t725)
  let t738 := (sabs t728)
  if p.z = (0 : α) then
    if t731 < (1 : α) then
      if t732 < t733 then
        .error Exc.domainError
      else
        if t734 < (1 : α) then
          if t735 < t736 then
            .error Exc.domainError
          else
            .ok (⟨t717, t716⟩)
        else
          .ok (⟨t717, t716⟩)
    else
      if t734 < (1 : α) then
        if t735 < t736 then
          .error Exc.domainError
        else
          .ok (⟨t717, t716⟩)
      else
        .ok (⟨t717, t716⟩)
  else
    if t731 < (1 : α) then
      if t732 < t737 then
        .error Exc.domainError
      else
        if t734 < (1 : α) then
          if t735 < t738 then
            .error Exc.domainError
          else
            .ok (⟨t730, t729⟩)
        else
          .ok (⟨t730, t729⟩)
    else
      if t734 < (1 : α) then
        if t735 < t738 then
          .error Exc.domainError
        else
          .ok (⟨t730, t729⟩)
      else
        .ok (⟨t730, t729⟩)

/-- extracted from the C++ template at T = Sym; 1 path(s) -/
def C07.Frustum.normalizedZToDepth_persp {α : Type} [Sub α] [Mul α] [Div α] [OfNat α 1] [OfNat α 2] (n : α) (f : α) (l : α) (r : α) (t : α) (b : α) (z : α) : α :=
  ((((2 : α) * f) * n) / (((((z * (2 : α)) - (1 : α)) * (f - n)) - f) - n))

/-- extracted from the C++ template at T = Sym; 3 path(s) -/
def C07.Frustum.normalizedZToDepthExc_persp {α : Type} [Sub α] [Mul α] [Div α] [Neg α] [LT α] [DecidableLT α] [OfNat α 0] [OfNat α 1] [OfNat α 2] (tmax : α) (n : α) (f : α) (l : α) (r : α) (t : α) (b : α) (z : α) : Except Exc α :=
  let t743 := (((2 : α) * f) * n)
  let t746 := (((((z * (2 : α)) - (1 : α)) * (f - n)) - f) - n)
  let t747 := (t743 / t746)
  let t748 := (sabs t746)
  let t749 := (tmax * t748)
  let t750 := (sabs t743)
  if t748 < (1 : α) then
    if t749 < t750 then
      .error Exc.domainError
    else
      .ok (t747)
  else
    .ok (t747)

/-- extracted from the C++ template at T = Sym; 1 path(s) -/
def C07.Frustum.ZToDepth_5_0_10_persp {α : Type} [Sub α] [Mul α] [Div α] [OfNat α 0] [OfNat α 1] [OfNat α 2] [OfNat α 5] [OfNat α 10] (n : α) (f : α) (l : α) (r : α) (t : α) (b : α) : α :=
  ((((2 : α) * f) * n) / ((((((((5 : α) - (0 : α)) / (10 : α)) * (2 : α)) - (1 : α)) * (f - n)) - f) - n))

/-- extracted from the C++ template at T = Sym; 3 path(s) -/
def C07.Frustum.ZToDepthExc_5_0_10_persp {α : Type} [Sub α] [Mul α] [Div α] [Neg α] [LT α] [DecidableLT α] [OfNat α 0] [OfNat α 1] [OfNat α 2] [OfNat α 5] [OfNat α 10] (tmax : α) (n : α) (f : α) (l : α) (r : α) (t : α) (b : α) : Except Exc α :=
  let t743 := (((2 : α) * f) * n)
  let t750 := (sabs t743)
  let t759 := ((((((((5 : α) - (0 : α)) / (10 : α)) * (2 : α)) - (1 : α)) * (f - n)) - f) - n)
  let t760 := (t743 / t759)
  let t761 := (sabs t759)
  let t762 := (tmax * t761)
  if t761 < (1 : α) then
    if t762 < t750 then
      .error Exc.domainError
    else
      .ok (t760)
  else
    .ok (t760)

/-- extracted from the C++ template at T = Sym; 1 path(s) -/
def C07.Frustum.projectionMatrix_ortho {α : Type} [Add α] [Sub α] [Div α] [Neg α] [OfNat α 0] [OfNat α 1] [OfNat α 2] (n : α) (f : α) (l : α) (r : α) (t : α) (b : α) : (M44 α) :=
  let t676 := (r - l)
  let t678 := (t - b)
  let t680 := (f - n)
  ⟨((2 : α) / t676), (0 : α), (0 : α), (0 : α), (0 : α), ((2 : α) / t678), (0 : α), (0 : α), (0 : α), (0 : α), ((-(2 : α)) / t680), (0 : α), ((-(r + l)) / t676), ((-(t + b)) / t678), ((-(f + n)) / t680), (1 : α)⟩

/-- extracted from the C++ template at T = Sym; 27 path(s) -/
def C07.Frustum.projectionMatrixExc_ortho {α : Type} [Add α] [Sub α] [Mul α] [Div α] [Neg α] [LT α] [DecidableLT α] [OfNat α 0] [OfNat α 1] [OfNat α 2] (tmax : α) (n : α) (f : α) (l : α) (r : α) (t : α) (b : α) : Except Exc (M44 α) :=
  let t675 := (r + l)
  let t676 := (r - l)
  let t677 := (t + b)
  let t678 := (t - b)
  let t679 := (f + n)
  let t680 := (f - n)
  let t684 := ((-t679) / t680)
  let t694 := (sabs t676)
  let t695 := (tmax * t694)
  let t696 := (sabs t675)
  let t697 := (sabs t678)
  let t698 := (tmax * t697)
  let t699 := (sabs t677)
  let t700 := (sabs t680)
  let t701 := (tmax * t700)
  let t702 := (sabs t679)
  let t764 := ((-t675) / t676)
  let t766 := ((-t677) / t678)
  let t767 := ((2 : α) / t676)
  let t768 := ((2 : α) / t678)
  let t769 := ((-(2 : α)) / t680)
  if t694 < (1 : α) then
    if t695 < t696 then
      .error Exc.domainError
    else
      if t697 < (1 : α) then
        if t698 < t699 then
          .error Exc.domainError
        else
          if t700 < (1 : α) then
            if t701 < t702 then
              .error Exc.domainError
            else
              if t695 < (2 : α) then
                .error Exc.domainError
              else
                if t698 < (2 : α) then
                  .error Exc.domainError
                else
                  if t701 < (2 : α) then
                    .error Exc.domainError
                  else
                    .ok (⟨t767, (0 : α), (0 : α), (0 : α), (0 : α), t768, (0 : α), (0 : α), (0 : α), (0 : α), t769, (0 : α), t764, t766, t684, (1 : α)⟩)
          else
            if t695 < (2 : α) then
              .error Exc.domainError
            else
              if t698 < (2 : α) then
                .error Exc.domainError
              else
                .ok (⟨t767, (0 : α), (0 : α), (0 : α), (0 : α), t768, (0 : α), (0 : α), (0 : α), (0 : α), t769, (0 : α), t764, t766, t684, (1 : α)⟩)
      else
        if t700 < (1 : α) then
          if t701 < t702 then
            .error Exc.domainError
          else
            if t695 < (2 : α) then
              .error Exc.domainError
            else
              if t701 < (2 : α) then
                .error Exc.domainError
              else
                .ok (⟨t767, (0 : α), (0 : α), (0 : α), (0 : α), t768, (0 : α), (0 : α), (0 : α), (0 : α), t769, (0 : α), t764, t766, t684, (1 : α)⟩)
        else
          if t695 < (2 : α) then
            .error Exc.domainError
          else
            .ok (⟨t767, (0 : α), (0 : α), (0 : α), (0 : α), t768, (0 : α), (0 : α), (0 : α), (0 : α), t769, (0 : α), t764, t766, t684, (1 : α)⟩)
  else
    if t697 < (1 : α) then
      if t698 < t699 then
        .error Exc.domainError
      else
        if t700 < (1 : α) then
          if t701 < t702 then
            .error Exc.domainError
          else
            if t698 < (2 : α) then
              .error Exc.domainError
            else
              if t701 < (2 : α) then
                .error Exc.domainError
              else
                .ok (⟨t767, (0 : α), (0 : α), (0 : α), (0 : α), t768, (0 : α), (0 : α), (0 : α), (0 : α), t769, (0 : α), t764, t766, t684, (1 : α)⟩)
        else
          if t698 < (2 : α) then
            .error Exc.domainError
          else
            .ok (⟨t767, (0 : α), (0 : α), (0 : α), (0 : α), t768, (0 : α), (0 : α), (0 : α), (0 : α), t769, (0 : α), t764, t766, t684, (1 : α)⟩)
    else
      if t700 < (1 : α) then
        if t701 < t702 then
          .error Exc.domainError
        else
          if t701 < (2 : α) then
            .error Exc.domainError
          else
            .ok (⟨t767, (0 : α), (0 : α), (0 : α), (0 : α), t768, (0 : α), (0 : α), (0 : α), (0 : α), t769, (0 : α), t764, t766, t684, (1 : α)⟩)
      else
        .ok (⟨t767, (0 : α), (0 : α), (0 : α), (0 : α), t768, (0 : α), (0 : α), (0 : α), (0 : α), t769, (0 : α), t764, t766, t684, (1 : α)⟩)

/-- extracted from the C++ template at T = Sym; 1 path(s) -/
def C07.Frustum.projectPointToScreen_ortho {α : Type} [Add α] [Sub α] [Mul α] [Div α] [OfNat α 2] (n : α) (f : α) (l : α) (r : α) (t : α) (b : α) (p : V3 α) : (V2 α) :=
  ⟨(((l - ((2 : α) * p.x)) + r) / (l - r)), (((b - ((2 : α) * p.y)) + t) / (b - t))⟩

/-- extracted from the C++ template at T = Sym; 7 path(s) -/
def C07.Frustum.projectPointToScreenExc_ortho {α : Type} [Add α] [Sub α] [Mul α] [Div α] [Neg α] [LT α] [DecidableLT α] [OfNat α 0] [OfNat α 1] [OfNat α 2] (tmax : α) (n : α) (f : α) (l : α) (r : α) (t : α) (b : α) (p : V3 α) : Except Exc (V2 α) :=
  let t710 := ((l - ((2 : α) * p.x)) + r)
  let t711 := (l - r)
  let t714 := ((b - ((2 : α) * p.y)) + t)
  let t715 := (b - t)
  let t716 := (t714 / t715)
  let t717 := (t710 / t711)
  let t731 := (sabs t711)
  let t732 := (tmax * t731)
  let t733 := (sabs t710)
  let t734 := (sabs t715)
  let t735 := (tmax * t734)
  let t736 := (sabs t714)
  if t731 < (1 : α) then
    if t732 < t733 then
      .error Exc.domainError
    else
      if t734 < (1 : α) then
        if t735 < t736 then
          .error Exc.domainError
        else
          .ok (⟨t717, t716⟩)
      else
        .ok (⟨t717, t716⟩)
  else
    if t734 < (1 : α) then
      if t735 < t736 then
        .error Exc.domainError
      else
        .ok (⟨t717, t716⟩)
    else
      .ok (⟨t717, t716⟩)

/-- extracted from the C++ template at T = Sym; 1 path(s) -/
def C07.Frustum.normalizedZToDepth_ortho {α : Type} [Add α] [Sub α] [Mul α] [Div α] [Neg α] [OfNat α 1] [OfNat α 2] (n : α) (f : α) (l : α) (r : α) (t : α) (b : α) (z : α) : α :=
  ((-((((z * (2 : α)) - (1 : α)) * (f - n)) + (f + n))) / (2 : α))

/-- extracted from the C++ template at T = Sym; 1 path(s) -/
def C07.Frustum.normalizedZToDepthExc_ortho {α : Type} [Add α] [Sub α] [Mul α] [Div α] [Neg α] [OfNat α 1] [OfNat α 2] (n : α) (f : α) (l : α) (r : α) (t : α) (b : α) (z : α) : α :=
  ((-((((z * (2 : α)) - (1 : α)) * (f - n)) + (f + n))) / (2 : α))

/-- extracted from the C++ template at T = Sym; 1 path(s) -/
def C07.Frustum.ZToDepth_5_0_10_ortho {α : Type} [Add α] [Sub α] [Mul α] [Div α] [Neg α] [OfNat α 0] [OfNat α 1] [OfNat α 2] [OfNat α 5] [OfNat α 10] (n : α) (f : α) (l : α) (r : α) (t : α) (b : α) : α :=
  ((-(((((((5 : α) - (0 : α)) / (10 : α)) * (2 : α)) - (1 : α)) * (f - n)) + (f + n))) / (2 : α))

/-- extracted from the C++ template at T = Sym; 1 path(s) -/
def C07.Frustum.ZToDepthExc_5_0_10_ortho {α : Type} [Add α] [Sub α] [Mul α] [Div α] [Neg α] [OfNat α 0] [OfNat α 1] [OfNat α 2] [OfNat α 5] [OfNat α 10] (n : α) (f : α) (l : α) (r : α) (t : α) (b : α) : α :=
  ((-(((((((5 : α) - (0 : α)) / (10 : α)) * (2 : α)) - (1 : α)) * (f - n)) + (f + n))) / (2 : α))

/-- extracted from the C++ template at T = Sym; 1 path(s) -/
def C07.Frustum.ZToDepth_12_0_10_persp {α : Type} [Sub α] [Mul α] [Div α] [OfNat α 0] [OfNat α 1] [OfNat α 2] [OfNat α 10] (n : α) (f : α) (l : α) (r : α) (t : α) (b : α) : α :=
  ((((2 : α) * f) * n) / ((((((((2 : α) - (0 : α)) / (10 : α)) * (2 : α)) - (1 : α)) * (f - n)) - f) - n))

/-- extracted from the C++ template at T = Sym; 3 path(s) -/
def C07.Frustum.ZToDepthExc_12_0_10_persp {α : Type} [Sub α] [Mul α] [Div α] [Neg α] [LT α] [DecidableLT α] [OfNat α 0] [OfNat α 1] [OfNat α 2] [OfNat α 10] (tmax : α) (n : α) (f : α) (l : α) (r : α) (t : α) (b : α) : Except Exc α :=
  let t743 := (((2 : α) * f) * n)
  let t750 := (sabs t743)
  let t782 := ((((((((2 : α) - (0 : α)) / (10 : α)) * (2 : α)) - (1 : α)) * (f - n)) - f) - n)
  let t783 := (t743 / t782)
  let t784 := (sabs t782)
  let t785 := (tmax * t784)
  if t784 < (1 : α) then
    if t785 < t750 then
      .error Exc.domainError
    else
      .ok (t783)
  else
    .ok (t783)

/-- extracted from the C++ template at T = Sym; 1 path(s) -/
def C07.Frustum.ZToDepth_3_7_7_persp {α : Type} [Sub α] [Mul α] [Div α] [OfNat α 0] [OfNat α 1] [OfNat α 2] [OfNat α 3] [OfNat α 7] (n : α) (f : α) (l : α) (r : α) (t : α) (b : α) : α :=
  ((((2 : α) * f) * n) / ((((((((3 : α) - (7 : α)) / (0 : α)) * (2 : α)) - (1 : α)) * (f - n)) - f) - n))

/-- extracted from the C++ template at T = Sym; 1 path(s) -/
def C07.Frustum.ZToDepthExc_3_7_7_persp {α : Type} (n : α) (f : α) (l : α) (r : α) (t : α) (b : α) : Except Exc Unit :=
  .error Exc.domainError

/-- extracted from the C++ template at T = Sym; 1 path(s) -/
def C07.Frustum.localToScreen {α : Type} [Add α] [Sub α] [Mul α] [Div α] [OfNat α 2] (n : α) (f : α) (l : α) (r : α) (t : α) (b : α) (p : V2 α) : (V2 α) :=
  ⟨(((l - ((2 : α) * p.x)) + r) / (l - r)), (((b - ((2 : α) * p.y)) + t) / (b - t))⟩

/-- extracted from the C++ template at T = Sym; 7 path(s) -/
def C07.Frustum.localToScreenExc {α : Type} [Add α] [Sub α] [Mul α] [Div α] [Neg α] [LT α] [DecidableLT α] [OfNat α 0] [OfNat α 1] [OfNat α 2] (tmax : α) (n : α) (f : α) (l : α) (r : α) (t : α) (b : α) (p : V2 α) : Except Exc (V2 α) :=
  let t710 := ((l - ((2 : α) * p.x)) + r)
  let t711 := (l - r)
  let t714 := ((b - ((2 : α) * p.y)) + t)
  let t715 := (b - t)
  let t716 := (t714 / t715)
  let t717 := (t710 / t711)
  let t731 := (sabs t711)
  let t732 := (tmax * t731)
  let t733 := (sabs t710)
  let t734 := (sabs t715)
  let t735 := (tmax * t734)
  let t736 := (sabs t714)
  if t731 < (1 : α) then
    if t732 < t733 then
      .error Exc.domainError
    else
      if t734 < (1 : α) then
        if t735 < t736 then
          .error Exc.domainError
        else
          .ok (⟨t717, t716⟩)
      else
        .ok (⟨t717, t716⟩)
  else
    if t734 < (1 : α) then
      if t735 < t736 then
        .error Exc.domainError
      else
        .ok (⟨t717, t716⟩)
    else
      .ok (⟨t717, t716⟩)

/-- extracted from the C++ template at T = Sym; 1 path(s) -/
def C07.Frustum.screenRadius {α : Type} [Mul α] [Div α] [Neg α] (n : α) (f : α) (l : α) (r : α) (t : α) (b : α) (p : V3 α) (radius : α) : α :=
  (radius * ((-n) / p.z))

/-- extracted from the C++ template at T = Sym; 3 path(s) -/
def C07.Frustum.screenRadiusExc {α : Type} [Mul α] [Div α] [Neg α] [LT α] [DecidableLT α] [OfNat α 0] [OfNat α 1] (tmax : α) (n : α) (f : α) (l : α) (r : α) (t : α) (b : α) (p : V3 α) (radius : α) : Except Exc α :=
  let t797 := (-n)
  let t799 := (radius * (t797 / p.z))
  let t800 := (sabs p.z)
  let t801 := (tmax * t800)
  let t802 := (sabs t797)
  if (1 : α) < t800 then
    .ok (t799)
  else
    if t802 < t801 then
      .ok (t799)
    else
      .error Exc.domainError

/-- extracted from the C++ template at T = Sym; 1 path(s) -/
def C07.Frustum.worldRadius {α : Type} [Mul α] [Div α] [Neg α] (n : α) (f : α) (l : α) (r : α) (t : α) (b : α) (p : V3 α) (radius : α) : α :=
  (radius * (p.z / (-n)))

/-- extracted from the C++ template at T = Sym; 3 path(s) -/
def C07.Frustum.worldRadiusExc {α : Type} [Mul α] [Div α] [Neg α] [LT α] [DecidableLT α] [OfNat α 0] [OfNat α 1] (tmax : α) (n : α) (f : α) (l : α) (r : α) (t : α) (b : α) (p : V3 α) (radius : α) : Except Exc α :=
  let t797 := (-n)
  let t800 := (sabs p.z)
  let t802 := (sabs t797)
  let t804 := (radius * (p.z / t797))
  let t805 := (tmax * t802)
  if (1 : α) < t802 then
    .ok (t804)
  else
    if t800 < t805 then
      .ok (t804)
    else
      .error Exc.domainError

/-- extracted from the C++ template at T = Sym; 1 path(s) -/
def C07.Frustum.aspect {α : Type} [Sub α] [Div α] (n : α) (f : α) (l : α) (r : α) (t : α) (b : α) : α :=
  ((r - l) / (t - b))

/-- extracted from the C++ template at T = Sym; 3 path(s) -/
def C07.Frustum.aspectExc {α : Type} [Sub α] [Mul α] [Div α] [Neg α] [LT α] [DecidableLT α] [OfNat α 0] [OfNat α 1] (tmax : α) (n : α) (f : α) (l : α) (r : α) (t : α) (b : α) : Except Exc α :=
  let t676 := (r - l)
  let t678 := (t - b)
  let t694 := (sabs t676)
  let t697 := (sabs t678)
  let t698 := (tmax * t697)
  let t806 := (t676 / t678)
  if t697 < (1 : α) then
    if t698 < t694 then
      .error Exc.domainError
    else
      .ok (t806)
  else
    .ok (t806)

/-- extracted from the C++ template at T = Sym; 2 path(s) -/
def C07.Frustum.setFov {α : Type} [Sub α] [Mul α] [Div α] [Neg α] [DecidableEq α] [OfNat α 0] [OfNat α 2] (tan : α → α) (n : α) (f : α) (fovx : α) (fovy : α) (aspect : α) : (α × α × α × α × α × α × Bool) :=
  let t814 := (n * (tan (fovy / (2 : α))))
  let t815 := (-t814)
  let t818 := (((t814 - t815) * aspect) / (2 : α))
  let t822 := (n * (tan (fovx / (2 : α))))
  let t823 := (-t822)
  let t826 := (((t822 - t823) / aspect) / (2 : α))
  if fovx = (0 : α) then
    (n, f, (-t818), t818, t814, t815, false)
  else
    (n, f, t823, t822, t826, (-t826), false)

/-- extracted from the C++ template at T = Sym; 3 path(s) -/
def C07.Frustum.setFovExc {α : Type} [Sub α] [Mul α] [Div α] [Neg α] [DecidableEq α] [OfNat α 0] [OfNat α 2] (tan : α → α) (n : α) (f : α) (fovx : α) (fovy : α) (aspect : α) : Except Exc (α × α × α × α × α × α × Bool) :=
  let t814 := (n * (tan (fovy / (2 : α))))
  let t815 := (-t814)
  let t818 := (((t814 - t815) * aspect) / (2 : α))
  let t822 := (n * (tan (fovx / (2 : α))))
  let t823 := (-t822)
  let t826 := (((t822 - t823) / aspect) / (2 : α))
  if fovx = (0 : α) then
    .ok ((n, f, (-t818), t818, t814, t815, false))
  else
    if fovy = (0 : α) then
      .ok ((n, f, t823, t822, t826, (-t826), false))
    else
      .error Exc.domainError

end ImathVerif.Gen
