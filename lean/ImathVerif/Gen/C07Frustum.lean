-- GENERATED from /repo/src/Imath by harness/sym (T = Sym path extraction); do not edit.
import ImathVerif.Basic.Types
set_option linter.unusedVariables false
namespace ImathVerif.Gen
open ImathVerif

/-- extracted from the C++ template at T = Sym; 1 path(s) -/
def C07.Frustum.projectionMatrix_persp {α : Type} [Add α] [Sub α] [Mul α] [Div α] [Neg α] [OfNat α 0] [OfNat α 1] [OfNat α 2] (n : α) (f : α) (l : α) (r : α) (t : α) (b : α) : (M44 α) :=
  let t639 := (r - l)
  let t641 := (t - b)
  let t643 := (f - n)
  let t653 := ((2 : α) * n)
  ⟨(t653 / t639), (0 : α), (0 : α), (0 : α), (0 : α), (t653 / t641), (0 : α), (0 : α), ((r + l) / t639), ((t + b) / t641), ((-(f + n)) / t643), (-(1 : α)), (0 : α), (0 : α), ((((-(2 : α)) * f) * n) / t643), (0 : α)⟩

/-- extracted from the C++ template at T = Sym; 27 path(s) -/
def C07.Frustum.projectionMatrixExc_persp {α : Type} [Add α] [Sub α] [Mul α] [Div α] [Neg α] [LT α] [DecidableLT α] [OfNat α 0] [OfNat α 1] [OfNat α 2] (tmax : α) (n : α) (f : α) (l : α) (r : α) (t : α) (b : α) : Except Exc (M44 α) :=
  let t638 := (r + l)
  let t639 := (r - l)
  let t640 := (t + b)
  let t641 := (t - b)
  let t642 := (f + n)
  let t643 := (f - n)
  let t644 := (t638 / t639)
  let t645 := (t640 / t641)
  let t647 := ((-t642) / t643)
  let t650 := (((-(2 : α)) * f) * n)
  let t651 := (t650 / t643)
  let t653 := ((2 : α) * n)
  let t654 := (t653 / t639)
  let t655 := (t653 / t641)
  let t657 := (sabs t639)
  let t658 := (tmax * t657)
  let t659 := (sabs t638)
  let t660 := (sabs t641)
  let t661 := (tmax * t660)
  let t662 := (sabs t640)
  let t663 := (sabs t643)
  let t664 := (tmax * t663)
  let t665 := (sabs t642)
  let t666 := (sabs t650)
  let t667 := (sabs t653)
  if t657 < (1 : α) then
    if t658 < t659 then
      .error Exc.domainError
    else
      if t660 < (1 : α) then
        if t661 < t662 then
          .error Exc.domainError
        else
          if t663 < (1 : α) then
            if t664 < t665 then
              .error Exc.domainError
            else
              if t664 < t666 then
                .error Exc.domainError
              else
                if t658 < t667 then
                  .error Exc.domainError
                else
                  if t661 < t667 then
                    .error Exc.domainError
                  else
                    .ok (⟨t654, (0 : α), (0 : α), (0 : α), (0 : α), t655, (0 : α), (0 : α), t644, t645, t647, (-(1 : α)), (0 : α), (0 : α), t651, (0 : α)⟩)
          else
            if t658 < t667 then
              .error Exc.domainError
            else
              if t661 < t667 then
                .error Exc.domainError
              else
                .ok (⟨t654, (0 : α), (0 : α), (0 : α), (0 : α), t655, (0 : α), (0 : α), t644, t645, t647, (-(1 : α)), (0 : α), (0 : α), t651, (0 : α)⟩)
      else
        if t663 < (1 : α) then
          if t664 < t665 then
            .error Exc.domainError
          else
            if t664 < t666 then
              .error Exc.domainError
            else
              if t658 < t667 then
                .error Exc.domainError
              else
                .ok (⟨t654, (0 : α), (0 : α), (0 : α), (0 : α), t655, (0 : α), (0 : α), t644, t645, t647, (-(1 : α)), (0 : α), (0 : α), t651, (0 : α)⟩)
        else
          if t658 < t667 then
            .error Exc.domainError
          else
            .ok (⟨t654, (0 : α), (0 : α), (0 : α), (0 : α), t655, (0 : α), (0 : α), t644, t645, t647, (-(1 : α)), (0 : α), (0 : α), t651, (0 : α)⟩)
  else
    if t660 < (1 : α) then
      if t661 < t662 then
        .error Exc.domainError
      else
        if t663 < (1 : α) then
          if t664 < t665 then
            .error Exc.domainError
          else
            if t664 < t666 then
              .error Exc.domainError
            else
              if t661 < t667 then
                .error Exc.domainError
              else
                .ok (⟨t654, (0 : α), (0 : α), (0 : α), (0 : α), t655, (0 : α), (0 : α), t644, t645, t647, (-(1 : α)), (0 : α), (0 : α), t651, (0 : α)⟩)
        else
          if t661 < t667 then
            .error Exc.domainError
          else
            .ok (⟨t654, (0 : α), (0 : α), (0 : α), (0 : α), t655, (0 : α), (0 : α), t644, t645, t647, (-(1 : α)), (0 : α), (0 : α), t651, (0 : α)⟩)
    else
      if t663 < (1 : α) then
        if t664 < t665 then
          .error Exc.domainError
        else
          if t664 < t666 then
            .error Exc.domainError
          else
            .ok (⟨t654, (0 : α), (0 : α), (0 : α), (0 : α), t655, (0 : α), (0 : α), t644, t645, t647, (-(1 : α)), (0 : α), (0 : α), t651, (0 : α)⟩)
      else
        .ok (⟨t654, (0 : α), (0 : α), (0 : α), (0 : α), t655, (0 : α), (0 : α), t644, t645, t647, (-(1 : α)), (0 : α), (0 : α), t651, (0 : α)⟩)

/-- extracted from the C++ template at T = Sym; 2 path(s) -/
def C07.Frustum.projectPointToScreen_persp {α : Type} [Add α] [Sub α] [Mul α] [Div α] [Neg α] [DecidableEq α] [OfNat α 0] [OfNat α 2] (n : α) (f : α) (l : α) (r : α) (t : α) (b : α) (p : V3 α) : (V2 α) :=
  let t674 := (l - r)
  let t678 := (b - t)
  let t681 := (-p.z)
  if p.z = (0 : α) then
    ⟨(((l - ((2 : α) * p.x)) + r) / t674), (((b - ((2 : α) * p.y)) + t) / t678)⟩
  else
    ⟨(((l - ((2 : α) * ((p.x * n) / t681))) + r) / t674), (((b - ((2 : α) * ((p.y * n) / t681))) + t) / t678)⟩

/-- extracted from the C++ template at T = Sym; 14 path(s) -/
def C07.Frustum.projectPointToScreenExc_persp {α : Type} [Add α] [Sub α] [Mul α] [Div α] [Neg α] [LT α] [DecidableLT α] [DecidableEq α] [OfNat α 0] [OfNat α 1] [OfNat α 2] (tmax : α) (n : α) (f : α) (l : α) (r : α) (t : α) (b : α) (p : V3 α) : Except Exc (V2 α) :=
  let t673 := ((l - ((2 : α) * p.x)) + r)
  let t674 := (l - r)
  let t677 := ((b - ((2 : α) * p.y)) + t)
  let t678 := (b - t)
  let t679 := (t677 / t678)
  let t680 := (t673 / t674)
  let t681 := (-p.z)
  let t688 := ((l - ((2 : α) * ((p.x * n) / t681))) + r)
  let t691 := ((b - ((2 : α) * ((p.y * n) / t681))) + t)
  let t692 := (t691 / t678)
  let t693 := (t688 / t674)
  let t694 := (sabs t674)
  let t695 := (tmax * t694)
  let t696 := (sabs t673)
  let t697 := (sabs t678)
  let t698 := (tmax * t697)
  let t699 := (sabs t677)
  let t700 := (sabs t688)
  let t701 := (sabs t691)
  if p.z = (0 : α) then
    if t694 < (1 : α) then
      if t695 < t696 then
        .error Exc.domainError
      else
        if t697 < (1 : α) then
          if t698 < t699 then
            .error Exc.domainError
          else
            .ok (⟨t680, t679⟩)
        else
          .ok (⟨t680, t679⟩)
    else
      if t697 < (1 : α) then
        if t698 < t699 then
          .error Exc.domainError
        else
          .ok (⟨t680, t679⟩)
      else
        .ok (⟨t680, t679⟩)
  else
    if t694 < (1 : α) then
      if t695 < t700 then
        .error Exc.domainError
      else
        if t697 < (1 : α) then
          if t698 < t701 then
            .error Exc.domainError
          else
            .ok (⟨t693, t692⟩)
        else
          .ok (⟨t693, t692⟩)
    else
      if t697 < (1 : α) then
        if t698 < t701 then
          .error Exc.domainError
        else
          .ok (⟨t693, t692⟩)
      else
        .ok (⟨t693, t692⟩)

/-- extracted from the C++ template at T = Sym; 1 path(s) -/
def C07.Frustum.normalizedZToDepth_persp {α : Type} [Sub α] [Mul α] [Div α] [OfNat α 1] [OfNat α 2] (n : α) (f : α) (l : α) (r : α) (t : α) (b : α) (z : α) : α :=
  ((((2 : α) * f) * n) / (((((z * (2 : α)) - (1 : α)) * (f - n)) - f) - n))

/-- extracted from the C++ template at T = Sym; 3 path(s) -/
def C07.Frustum.normalizedZToDepthExc_persp {α : Type} [Sub α] [Mul α] [Div α] [Neg α] [LT α] [DecidableLT α] [OfNat α 0] [OfNat α 1] [OfNat α 2] (tmax : α) (n : α) (f : α) (l : α) (r : α) (t : α) (b : α) (z : α) : Except Exc α :=
  let t706 := (((2 : α) * f) * n)
  let t709 := (((((z * (2 : α)) - (1 : α)) * (f - n)) - f) - n)
  let t710 := (t706 / t709)
  let t711 := (sabs t709)
  let t712 := (tmax * t711)
  let t713 := (sabs t706)
  if t711 < (1 : α) then
    if t712 < t713 then
      .error Exc.domainError
    else
      .ok (t710)
  else
    .ok (t710)

/-- extracted from the C++ template at T = Sym; 1 path(s) -/
def C07.Frustum.ZToDepth_5_0_10_persp {α : Type} [Sub α] [Mul α] [Div α] [OfNat α 0] [OfNat α 1] [OfNat α 2] [OfNat α 5] [OfNat α 10] (n : α) (f : α) (l : α) (r : α) (t : α) (b : α) : α :=
  ((((2 : α) * f) * n) / ((((((((5 : α) - (0 : α)) / (10 : α)) * (2 : α)) - (1 : α)) * (f - n)) - f) - n))

/-- extracted from the C++ template at T = Sym; 3 path(s) -/
def C07.Frustum.ZToDepthExc_5_0_10_persp {α : Type} [Sub α] [Mul α] [Div α] [Neg α] [LT α] [DecidableLT α] [OfNat α 0] [OfNat α 1] [OfNat α 2] [OfNat α 5] [OfNat α 10] (tmax : α) (n : α) (f : α) (l : α) (r : α) (t : α) (b : α) : Except Exc α :=
  let t706 := (((2 : α) * f) * n)
  let t713 := (sabs t706)
  let t722 := ((((((((5 : α) - (0 : α)) / (10 : α)) * (2 : α)) - (1 : α)) * (f - n)) - f) - n)
  let t723 := (t706 / t722)
  let t724 := (sabs t722)
  let t725 := (tmax * t724)
  if t724 < (1 : α) then
    if t725 < t713 then
      .error Exc.domainError
    else
      .ok (t723)
  else
    .ok (t723)

/-- extracted from the C++ template at T = Sym; 1 path(s) -/
def C07.Frustum.projectionMatrix_ortho {α : Type} [Add α] [Sub α] [Div α] [Neg α] [OfNat α 0] [OfNat α 1] [OfNat α 2] (n : α) (f : α) (l : α) (r : α) (t : α) (b : α) : (M44 α) :=
  let t639 := (r - l)
  let t641 := (t - b)
  let t643 := (f - n)
  ⟨((2 : α) / t639), (0 : α), (0 : α), (0 : α), (0 : α), ((2 : α) / t641), (0 : α), (0 : α), (0 : α), (0 : α), ((-(2 : α)) / t643), (0 : α), ((-(r + l)) / t639), ((-(t + b)) / t641), ((-(f + n)) / t643), (1 : α)⟩

/-- extracted from the C++ template at T = Sym; 27 path(s) -/
def C07.Frustum.projectionMatrixExc_ortho {α : Type} [Add α] [Sub α] [Mul α] [Div α] [Neg α] [LT α] [DecidableLT α] [OfNat α 0] [OfNat α 1] [OfNat α 2] (tmax : α) (n : α) (f : α) (l : α) (r : α) (t : α) (b : α) : Except Exc (M44 α) :=
  let t638 := (r + l)
  let t639 := (r - l)
  let t640 := (t + b)
  let t641 := (t - b)
  let t642 := (f + n)
  let t643 := (f - n)
  let t647 := ((-t642) / t643)
  let t657 := (sabs t639)
  let t658 := (tmax * t657)
  let t659 := (sabs t638)
  let t660 := (sabs t641)
  let t661 := (tmax * t660)
  let t662 := (sabs t640)
  let t663 := (sabs t643)
  let t664 := (tmax * t663)
  let t665 := (sabs t642)
  let t727 := ((-t638) / t639)
  let t729 := ((-t640) / t641)
  let t730 := ((2 : α) / t639)
  let t731 := ((2 : α) / t641)
  let t732 := ((-(2 : α)) / t643)
  if t657 < (1 : α) then
    if t658 < t659 then
      .error Exc.domainError
    else
      if t660 < (1 : α) then
        if t661 < t662 then
          .error Exc.domainError
        else
          if t663 < (1 : α) then
            if t664 < t665 then
              .error Exc.domainError
            else
              if t658 < (2 : α) then
                .error Exc.domainError
              else
                if t661 < (2 : α) then
                  .error Exc.domainError
                else
                  if t664 < (2 : α) then
                    .error Exc.domainError
                  else
                    .ok (⟨t730, (0 : α), (0 : α), (0 : α), (0 : α), t731, (0 : α), (0 : α), (0 : α), (0 : α), t732, (0 : α), t727, t729, t647, (1 : α)⟩)
          else
            if t658 < (2 : α) then
              .error Exc.domainError
            else
              if t661 < (2 : α) then
                .error Exc.domainError
              else
                .ok (⟨t730, (0 : α), (0 : α), (0 : α), (0 : α), t731, (0 : α), (0 : α), (0 : α), (0 : α), t732, (0 : α), t727, t729, t647, (1 : α)⟩)
      else
        if t663 < (1 : α) then
          if t664 < t665 then
            .error Exc.domainError
          else
            if t658 < (2 : α) then
              .error Exc.domainError
            else
              if t664 < (2 : α) then
                .error Exc.domainError
              else
                .ok (⟨t730, (0 : α), (0 : α), (0 : α), (0 : α), t731, (0 : α), (0 : α), (0 : α), (0 : α), t732, (0 : α), t727, t729, t647, (1 : α)⟩)
        else
          if t658 < (2 : α) then
            .error Exc.domainError
          else
            .ok (⟨t730, (0 : α), (0 : α), (0 : α), (0 : α), t731, (0 : α), (0 : α), (0 : α), (0 : α), t732, (0 : α), t727, t729, t647, (1 : α)⟩)
  else
    if t660 < (1 : α) then
      if t661 < t662 then
        .error Exc.domainError
      else
        if t663 < (1 : α) then
          if t664 < t665 then
            .error Exc.domainError
          else
            if t661 < (2 : α) then
              .error Exc.domainError
            else
              if t664 < (2 : α) then
                .error Exc.domainError
              else
                .ok (⟨t730, (0 : α), (0 : α), (0 : α), (0 : α), t731, (0 : α), (0 : α), (0 : α), (0 : α), t732, (0 : α), t727, t729, t647, (1 : α)⟩)
        else
          if t661 < (2 : α) then
            .error Exc.domainError
          else
            .ok (⟨t730, (0 : α), (0 : α), (0 : α), (0 : α), t731, (0 : α), (0 : α), (0 : α), (0 : α), t732, (0 : α), t727, t729, t647, (1 : α)⟩)
    else
      if t663 < (1 : α) then
        if t664 < t665 then
          .error Exc.domainError
        else
          if t664 < (2 : α) then
            .error Exc.domainError
          else
            .ok (⟨t730, (0 : α), (0 : α), (0 : α), (0 : α), t731, (0 : α), (0 : α), (0 : α), (0 : α), t732, (0 : α), t727, t729, t647, (1 : α)⟩)
      else
        .ok (⟨t730, (0 : α), (0 : α), (0 : α), (0 : α), t731, (0 : α), (0 : α), (0 : α), (0 : α), t732, (0 : α), t727, t729, t647, (1 : α)⟩)

/-- extracted from the C++ template at T = Sym; 1 path(s) -/
def C07.Frustum.projectPointToScreen_ortho {α : Type} [Add α] [Sub α] [Mul α] [Div α] [OfNat α 2] (n : α) (f : α) (l : α) (r : α) (t : α) (b : α) (p : V3 α) : (V2 α) :=
  ⟨(((l - ((2 : α) * p.x)) + r) / (l - r)), (((b - ((2 : α) * p.y)) + t) / (b - t))⟩

/-- extracted from the C++ template at T = Sym; 7 path(s) -/
def C07.Frustum.projectPointToScreenExc_ortho {α : Type} [Add α] [Sub α] [Mul α] [Div α] [Neg α] [LT α] [DecidableLT α] [OfNat α 0] [OfNat α 1] [OfNat α 2] (tmax : α) (n : α) (f : α) (l : α) (r : α) (t : α) (b : α) (p : V3 α) : Except Exc (V2 α) :=
  let t673 := ((l - ((2 : α) * p.x)) + r)
  let t674 := (l - r)
  let t677 := ((b - ((2 : α) * p.y)) + t)
  let t678 := (b - t)
  let t679 := (t677 / t678)
  let t680 := (t673 / t674)
  let t694 := (sabs t674)
  let t695 := (tmax * t694)
  let t696 := (sabs t673)
  let t697 := (sabs t678)
  let t698 := (tmax * t697)
  let t699 := (sabs t677)
  if t694 < (1 : α) then
    if t695 < t696 then
      .error Exc.domainError
    else
      if t697 < (1 : α) then
        if t698 < t699 then
          .error Exc.domainError
        else
          .ok (⟨t680, t679⟩)
      else
        .ok (⟨t680, t679⟩)
  else
    if t697 < (1 : α) then
      if t698 < t699 then
        .error Exc.domainError
      else
        .ok (⟨t680, t679⟩)
    else
      .ok (⟨t680, t679⟩)

/-- extracted from the C++ template at T = Sym; 1 path(s) -/
def C07.Frustum.normalizedZToDepth_ortho {α : Type} [Add α] [Sub α] [Mul α] [Div α] [Neg α] [OfNat α 1] [OfNat α 2] (n : α) (f : α) (l : α) (r : α) (t : α) (b : α) (z : α) : α :=
  ((-((((z * (2 : α)) - (1 : α)) * (f - n)) + (f + n))) / (2 : α))

/-- extracted from the C++ template at T = Sym; 1 path(s) -/
def C07.Frustum.normalizedZToDepthExc_ortho {α : Type} [Add α] [Sub α] [Mul α] [Div α] [Neg α] [OfNat α 1] [OfNat α 2] (n : α) (f : α) (l : α) (r : α) (t : α) (b : α) (z : α) : α :=
  ((-((((z * (2 : α)) - (1 : α)) * (f - n)) + (f + n))) / (2 : α))

/-- extracted from the C++ template at T = Sym; 1 path(s) -/
def C07.Frustum.ZToDepth_5_0_10_ortho {α : Type} [Add α] [Sub α] [Mul α] [Div α] [Neg α] [OfNat α 0] [OfNat α 1] [OfNat α 2] [OfNat α 5] [OfNat α 10] (n : α) (f : α) (l : α) (r : α) (t : α) (b : α) : α :=
  ((-(((((((5 : α) - (0 : α)) / (10 : α)) * (2 : α)) - (1 : α)) * (f - n)) + (f + n))) / (2 : α))

/-- extracted from the C++ template at T = Sym; 1 path(s) -/
def C07.Frustum.ZToDepthExc_5_0_10_ortho {α : Type} [Add α] [Sub α] [Mul α] [Div α] [Neg α] [OfNat α 0] [OfNat α 1] [OfNat α 2] [OfNat α 5] [OfNat α 10] (n : α) (f : α) (l : α) (r : α) (t : α) (b : α) : α :=
  ((-(((((((5 : α) - (0 : α)) / (10 : α)) * (2 : α)) - (1 : α)) * (f - n)) + (f + n))) / (2 : α))

/-- extracted from the C++ template at T = Sym; 1 path(s) -/
def C07.Frustum.ZToDepth_12_0_10_persp {α : Type} [Sub α] [Mul α] [Div α] [OfNat α 0] [OfNat α 1] [OfNat α 2] [OfNat α 10] (n : α) (f : α) (l : α) (r : α) (t : α) (b : α) : α :=
  ((((2 : α) * f) * n) / ((((((((2 : α) - (0 : α)) / (10 : α)) * (2 : α)) - (1 : α)) * (f - n)) - f) - n))

/-- extracted from the C++ template at T = Sym; 3 path(s) -/
def C07.Frustum.ZToDepthExc_12_0_10_persp {α : Type} [Sub α] [Mul α] [Div α] [Neg α] [LT α] [DecidableLT α] [OfNat α 0] [OfNat α 1] [OfNat α 2] [OfNat α 10] (tmax : α) (n : α) (f : α) (l : α) (r : α) (t : α) (b : α) : Except Exc α :=
  let t706 := (((2 : α) * f) * n)
  let t713 := (sabs t706)
  let t745 := ((((((((2 : α) - (0 : α)) / (10 : α)) * (2 : α)) - (1 : α)) * (f - n)) - f) - n)
  let t746 := (t706 / t745)
  let t747 := (sabs t745)
  let t748 := (tmax * t747)
  if t747 < (1 : α) then
    if t748 < t713 then
      .error Exc.domainError
    else
      .ok (t746)
  else
    .ok (t746)

/-- extracted from the C++ template at T = Sym; 1 path(s) -/
def C07.Frustum.ZToDepth_3_7_7_persp {α : Type} [Sub α] [Mul α] [Div α] [OfNat α 0] [OfNat α 1] [OfNat α 2] [OfNat α 3] [OfNat α 7] (n : α) (f : α) (l : α) (r : α) (t : α) (b : α) : α :=
  ((((2 : α) * f) * n) / ((((((((3 : α) - (7 : α)) / (0 : α)) * (2 : α)) - (1 : α)) * (f - n)) - f) - n))

/-- extracted from the C++ template at T = Sym; 1 path(s) -/
def C07.Frustum.ZToDepthExc_3_7_7_persp {α : Type} (n : α) (f : α) (l : α) (r : α) (t : α) (b : α) : Except Exc Unit :=
  .error Exc.domainError

/-- extracted from the C++ template at T = Sym; 1 path(s) -/
def C07.Frustum.localToScreen {α : Type} [Add α] [Sub α] [Mul α] [Div α] [OfNat α 2] (n : α) (f : α) (l : α) (r : α) (t : α) (b : α) (p : V2 α) : (V2 α) :=
  ⟨(((l - ((2 : α) * p.x)) + r) / (l - r)), (((b - ((2 : α) * p.y)) + t) / (b - t))⟩

/-- extracted from the C++ template at T = Sym; 7 path(s) -/
def C07.Frustum.localToScreenExc {α : Type} [Add α] [Sub α] [Mul α] [Div α] [Neg α] [LT α] [DecidableLT α] [OfNat α 0] [OfNat α 1] [OfNat α 2] (tmax : α) (n : α) (f : α) (l : α) (r : α) (t : α) (b : α) (p : V2 α) : Except Exc (V2 α) :=
  let t673 := ((l - ((2 : α) * p.x)) + r)
  let t674 := (l - r)
  let t677 := ((b - ((2 : α) * p.y)) + t)
  let t678 := (b - t)
  let t679 := (t677 / t678)
  let t680 := (t673 / t674)
  let t694 := (sabs t674)
  let t695 := (tmax * t694)
  let t696 := (sabs t673)
  let t697 := (sabs t678)
  let t698 := (tmax * t697)
  let t699 := (sabs t677)
  if t694 < (1 : α) then
    if t695 < t696 then
      .error Exc.domainError
    else
      if t697 < (1 : α) then
        if t698 < t699 then
          .error Exc.domainError
        else
          .ok (⟨t680, t679⟩)
      else
        .ok (⟨t680, t679⟩)
  else
    if t697 < (1 : α) then
      if t698 < t699 then
        .error Exc.domainError
      else
        .ok (⟨t680, t679⟩)
    else
      .ok (⟨t680, t679⟩)

/-- extracted from the C++ template at T = Sym; 1 path(s) -/
def C07.Frustum.screenRadius {α : Type} [Mul α] [Div α] [Neg α] (n : α) (f : α) (l : α) (r : α) (t : α) (b : α) (p : V3 α) (radius : α) : α :=
  (radius * ((-n) / p.z))

/-- extracted from the C++ template at T = Sym; 3 path(s) -/
def C07.Frustum.screenRadiusExc {α : Type} [Mul α] [Div α] [Neg α] [LT α] [DecidableLT α] [OfNat α 0] [OfNat α 1] (tmax : α) (n : α) (f : α) (l : α) (r : α) (t : α) (b : α) (p : V3 α) (radius : α) : Except Exc α :=
  let t760 := (-n)
  let t762 := (radius * (t760 / p.z))
  let t763 := (sabs p.z)
  let t764 := (tmax * t763)
  let t765 := (sabs t760)
  if (1 : α) < t763 then
    .ok (t762)
  else
    if t765 < t764 then
      .ok (t762)
    else
      .error Exc.domainError

/-- extracted from the C++ template at T = Sym; 1 path(s) -/
def C07.Frustum.worldRadius {α : Type} [Mul α] [Div α] [Neg α] (n : α) (f : α) (l : α) (r : α) (t : α) (b : α) (p : V3 α) (radius : α) : α :=
  (radius * (p.z / (-n)))

/-- extracted from the C++ template at T = Sym; 3 path(s) -/
def C07.Frustum.worldRadiusExc {α : Type} [Mul α] [Div α] [Neg α] [LT α] [DecidableLT α] [OfNat α 0] [OfNat α 1] (tmax : α) (n : α) (f : α) (l : α) (r : α) (t : α) (b : α) (p : V3 α) (radius : α) : Except Exc α :=
  let t760 := (-n)
  let t763 := (sabs p.z)
  let t765 := (sabs t760)
  let t767 := (radius * (p.z / t760))
  let t768 := (tmax * t765)
  if (1 : α) < t765 then
    .ok (t767)
  else
    if t763 < t768 then
      .ok (t767)
    else
      .error Exc.domainError

/-- extracted from the C++ template at T = Sym; 1 path(s) -/
def C07.Frustum.aspect {α : Type} [Sub α] [Div α] (n : α) (f : α) (l : α) (r : α) (t : α) (b : α) : α :=
  ((r - l) / (t - b))

/-- extracted from the C++ template at T = Sym; 3 path(s) -/
def C07.Frustum.aspectExc {α : Type} [Sub α] [Mul α] [Div α] [Neg α] [LT α] [DecidableLT α] [OfNat α 0] [OfNat α 1] (tmax : α) (n : α) (f : α) (l : α) (r : α) (t : α) (b : α) : Except Exc α :=
  let t639 := (r - l)
  let t641 := (t - b)
  let t657 := (sabs t639)
  let t660 := (sabs t641)
  let t661 := (tmax * t660)
  let t769 := (t639 / t641)
  if t660 < (1 : α) then
    if t661 < t657 then
      .error Exc.domainError
    else
      .ok (t769)
  else
    .ok (t769)

/-- extracted from the C++ template at T = Sym; 2 path(s) -/
def C07.Frustum.setFov {α : Type} [Sub α] [Mul α] [Div α] [Neg α] [DecidableEq α] [OfNat α 0] [OfNat α 2] (tan : α → α) (n : α) (f : α) (fovx : α) (fovy : α) (aspect : α) : (α × α × α × α × α × α × Bool) :=
  let t777 := (n * (tan (fovy / (2 : α))))
  let t778 := (-t777)
  let t781 := (((t777 - t778) * aspect) / (2 : α))
  let t785 := (n * (tan (fovx / (2 : α))))
  let t786 := (-t785)
  let t789 := (((t785 - t786) / aspect) / (2 : α))
  if fovx = (0 : α) then
    (n, f, (-t781), t781, t777, t778, false)
  else
    (n, f, t786, t785, t789, (-t789), false)

/-- extracted from the C++ template at T = Sym; 3 path(s) -/
def C07.Frustum.setFovExc {α : Type} [Sub α] [Mul α] [Div α] [Neg α] [DecidableEq α] [OfNat α 0] [OfNat α 2] (tan : α → α) (n : α) (f : α) (fovx : α) (fovy : α) (aspect : α) : Except Exc (α × α × α × α × α × α × Bool) :=
  let t777 := (n * (tan (fovy / (2 : α))))
  let t778 := (-t777)
  let t781 := (((t777 - t778) * aspect) / (2 : α))
  let t785 := (n * (tan (fovx / (2 : α))))
  let t786 := (-t785)
  let t789 := (((t785 - t786) / aspect) / (2 : α))
  if fovx = (0 : α) then
    .ok ((n, f, (-t781), t781, t777, t778, false))
  else
    if fovy = (0 : α) then
      .ok ((n, f, t786, t785, t789, (-t789), false))
    else
      .error Exc.domainError

end ImathVerif.Gen
