-- GENERATED from /repo/src/Imath/ImathEuler.h by tools/gen_euler.py (enumerator names parsed from the
-- header, values printed by a program compiled against it); do not edit.
namespace ImathVerif.Gen.EulerOrder

def XYZ : Nat := 0x0101
def XZY : Nat := 0x0001
def YZX : Nat := 0x1101
def YXZ : Nat := 0x1001
def ZXY : Nat := 0x2101
def ZYX : Nat := 0x2001
def XZX : Nat := 0x0011
def XYX : Nat := 0x0111
def YXY : Nat := 0x1011
def YZY : Nat := 0x1111
def ZYZ : Nat := 0x2011
def ZXZ : Nat := 0x2111
def XYZr : Nat := 0x2000
def XZYr : Nat := 0x2100
def YZXr : Nat := 0x1000
def YXZr : Nat := 0x1100
def ZXYr : Nat := 0x0000
def ZYXr : Nat := 0x0100
def XZXr : Nat := 0x2110
def XYXr : Nat := 0x2010
def YXYr : Nat := 0x1110
def YZYr : Nat := 0x1010
def ZYZr : Nat := 0x0110
def ZXZr : Nat := 0x0010

def Legal : Nat := 0x3111
def Min : Nat := 0x0000
def Max : Nat := 0x2111
def Default : Nat := 0x0101

/-- every enumerator of `Euler<T>::Order` except Legal/Min/Max/Default, in declaration order -/
def orders : List (String × Nat) :=
  [("XYZ", 0x0101),
   ("XZY", 0x0001),
   ("YZX", 0x1101),
   ("YXZ", 0x1001),
   ("ZXY", 0x2101),
   ("ZYX", 0x2001),
   ("XZX", 0x0011),
   ("XYX", 0x0111),
   ("YXY", 0x1011),
   ("YZY", 0x1111),
   ("ZYZ", 0x2011),
   ("ZXZ", 0x2111),
   ("XYZr", 0x2000),
   ("XZYr", 0x2100),
   ("YZXr", 0x1000),
   ("YXZr", 0x1100),
   ("ZXYr", 0x0000),
   ("ZYXr", 0x0100),
   ("XZXr", 0x2110),
   ("XYXr", 0x2010),
   ("YXYr", 0x1110),
   ("YZYr", 0x1010),
   ("ZYZr", 0x0110),
   ("ZXZr", 0x0010)]

def axes : List (String × Nat) := [("X", 0), ("Y", 1), ("Z", 2)]
def layouts : List (String × Nat) := [("XYZLayout", 0), ("IJKLayout", 1)]

end ImathVerif.Gen.EulerOrder
