-- GENERATED from /repo/src/Imath by harness/sym (T = Sym path extraction); do not edit.
import ImathVerif.Basic.Types
import ImathVerif.Gen.C09Align
import ImathVerif.Gen.Leaf
set_option linter.unusedVariables false
namespace ImathVerif.Gen
open ImathVerif

/-- extracted from the C++ template at T = Sym; 2 path(s) -/
def Frame.rotationMatrixWithUpDir {α : Type} [Add α] [Sub α] [Mul α] [Div α] [Neg α] [LT α] [LE α] [DecidableLT α] [DecidableLE α] [DecidableEq α] [OfNat α 0] [OfNat α 1] [OfNat α 2] (tmin : α) (tmax : α) (sqrt : α → α) (fromDir : V3 α) (toDir : V3 α) (upDir : V3 α) : (M44 α) :=
  let t10 := (V3.length tmin tmax sqrt ⟨fromDir.x, fromDir.y, fromDir.z⟩)
  let t12 := (Frame.alignZAxisWithTargetDir tmin tmax sqrt ⟨fromDir.x, fromDir.y, fromDir.z⟩ ⟨(0 : α), (1 : α), (0 : α)⟩)
  let t29 := (Frame.alignZAxisWithTargetDir tmin tmax sqrt ⟨toDir.x, toDir.y, toDir.z⟩ ⟨upDir.x, upDir.y, upDir.z⟩)
  if t10 = (0 : α) then
    ⟨(1 : α), (0 : α), (0 : α), (0 : α), (0 : α), (1 : α), (0 : α), (0 : α), (0 : α), (0 : α), (1 : α), (0 : α), (0 : α), (0 : α), (0 : α), (1 : α)⟩
  else
    ⟨(((((t12).x00 * (t29).x00) + ((t12).x10 * (t29).x10)) + ((t12).x20 * (t29).x20)) + ((t12).x30 * (t29).x30)), (((((t12).x00 * (t29).x01) + ((t12).x10 * (t29).x11)) + ((t12).x20 * (t29).x21)) + ((t12).x30 * (t29).x31)), (((((t12).x00 * (t29).x02) + ((t12).x10 * (t29).x12)) + ((t12).x20 * (t29).x22)) + ((t12).x30 * (t29).x32)), (((((t12).x00 * (t29).x03) + ((t12).x10 * (t29).x13)) + ((t12).x20 * (t29).x23)) + ((t12).x30 * (t29).x33)), (((((t12).x01 * (t29).x00) + ((t12).x11 * (t29).x10)) + ((t12).x21 * (t29).x20)) + ((t12).x31 * (t29).x30)), (((((t12).x01 * (t29).x01) + ((t12).x11 * (t29).x11)) + ((t12).x21 * (t29).x21)) + ((t12).x31 * (t29).x31)), (((((t12).x01 * (t29).x02) + ((t12).x11 * (t29).x12)) + ((t12).x21 * (t29).x22)) + ((t12).x31 * (t29).x32)), (((((t12).x01 * (t29).x03) + ((t12).x11 * (t29).x13)) + ((t12).x21 * (t29).x23)) + ((t12).x31 * (t29).x33)), (((((t12).x02 * (t29).x00) + ((t12).x12 * (t29).x10)) + ((t12).x22 * (t29).x20)) + ((t12).x32 * (t29).x30)), (((((t12).x02 * (t29).x01) + ((t12).x12 * (t29).x11)) + ((t12).x22 * (t29).x21)) + ((t12).x32 * (t29).x31)), (((((t12).x02 * (t29).x02) + ((t12).x12 * (t29).x12)) + ((t12).x22 * (t29).x22)) + ((t12).x32 * (t29).x32)), (((((t12).x02 * (t29).x03) + ((t12).x12 * (t29).x13)) + ((t12).x22 * (t29).x23)) + ((t12).x32 * (t29).x33)), (((((t12).x03 * (t29).x00) + ((t12).x13 * (t29).x10)) + ((t12).x23 * (t29).x20)) + ((t12).x33 * (t29).x30)), (((((t12).x03 * (t29).x01) + ((t12).x13 * (t29).x11)) + ((t12).x23 * (t29).x21)) + ((t12).x33 * (t29).x31)), (((((t12).x03 * (t29).x02) + ((t12).x13 * (t29).x12)) + ((t12).x23 * (t29).x22)) + ((t12).x33 * (t29).x32)), (((((t12).x03 * (t29).x03) + ((t12).x13 * (t29).x13)) + ((t12).x23 * (t29).x23)) + ((t12).x33 * (t29).x33))⟩

end ImathVerif.Gen
