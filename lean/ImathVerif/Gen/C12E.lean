-- GENERATED from /repo/src/Imath by harness/sym (T = Sym path extraction); do not edit.
import ImathVerif.Basic.Types
import ImathVerif.Gen.C12
import ImathVerif.Model.SHRT
set_option linter.unusedVariables false
namespace ImathVerif.Gen
open ImathVerif

/-- extracted from the C++ template at T = Sym; 2 path(s) -/
def M44.extractSHRTOrd_XYZ {α : Type} [Add α] [Sub α] [Mul α] [Div α] [Neg α] [LT α] [LE α] [DecidableLT α] [DecidableLE α] [DecidableEq α] [OfNat α 0] [OfNat α 1] [OfNat α 2] (tmin : α) (tmax : α) (sqrt : α → α) (sin : α → α) (cos : α → α) (atan2 : α → α → α) (m : M44 α) : (Bool × (V3 α) × (V3 α) × (V3 α) × (V3 α)) :=
  let t18 := (SHRT.ear44Flag tmin tmax sqrt ⟨m.x00, m.x01, m.x02, m.x03, m.x10, m.x11, m.x12, m.x13, m.x20, m.x21, m.x22, m.x23, m.x30, m.x31, m.x32, m.x33⟩)
  let t19 := (SHRT.ear44Mat tmin tmax sqrt ⟨m.x00, m.x01, m.x02, m.x03, m.x10, m.x11, m.x12, m.x13, m.x20, m.x21, m.x22, m.x23, m.x30, m.x31, m.x32, m.x33⟩)
  let t36 := (SHRT.ear44Scl tmin tmax sqrt ⟨m.x00, m.x01, m.x02, m.x03, m.x10, m.x11, m.x12, m.x13, m.x20, m.x21, m.x22, m.x23, m.x30, m.x31, m.x32, m.x33⟩)
  let t40 := (SHRT.ear44Shr tmin tmax sqrt ⟨m.x00, m.x01, m.x02, m.x03, m.x10, m.x11, m.x12, m.x13, m.x20, m.x21, m.x22, m.x23, m.x30, m.x31, m.x32, m.x33⟩)
  let t44 := (M44.extractEulerXYZ tmin tmax sqrt sin cos atan2 ⟨(t19).x00, (t19).x01, (t19).x02, (t19).x03, (t19).x10, (t19).x11, (t19).x12, (t19).x13, (t19).x20, (t19).x21, (t19).x22, (t19).x23, (t19).x30, (t19).x31, (t19).x32, (t19).x33⟩)
  if t18 = (0 : α) then
    (false, ⟨(0 : α), (0 : α), (0 : α)⟩, ⟨(0 : α), (0 : α), (0 : α)⟩, ⟨(0 : α), (0 : α), (0 : α)⟩, ⟨(0 : α), (0 : α), (0 : α)⟩)
  else
    (true, ⟨(t36).x, (t36).y, (t36).z⟩, ⟨(t40).x, (t40).y, (t40).z⟩, ⟨(t44).x, (t44).y, (t44).z⟩, ⟨m.x30, m.x31, m.x32⟩)

/-- extracted from the C++ template at T = Sym; 2 path(s) -/
def M44.extractSHRTEuler_XYZ {α : Type} [Add α] [Sub α] [Mul α] [Div α] [Neg α] [LT α] [LE α] [DecidableLT α] [DecidableLE α] [DecidableEq α] [OfNat α 0] [OfNat α 1] [OfNat α 2] (tmin : α) (tmax : α) (sqrt : α → α) (sin : α → α) (cos : α → α) (atan2 : α → α → α) (m : M44 α) : (Bool × (V3 α) × (V3 α) × (V3 α) × (V3 α) × Int) :=
  let t18 := (SHRT.ear44Flag tmin tmax sqrt ⟨m.x00, m.x01, m.x02, m.x03, m.x10, m.x11, m.x12, m.x13, m.x20, m.x21, m.x22, m.x23, m.x30, m.x31, m.x32, m.x33⟩)
  let t19 := (SHRT.ear44Mat tmin tmax sqrt ⟨m.x00, m.x01, m.x02, m.x03, m.x10, m.x11, m.x12, m.x13, m.x20, m.x21, m.x22, m.x23, m.x30, m.x31, m.x32, m.x33⟩)
  let t36 := (SHRT.ear44Scl tmin tmax sqrt ⟨m.x00, m.x01, m.x02, m.x03, m.x10, m.x11, m.x12, m.x13, m.x20, m.x21, m.x22, m.x23, m.x30, m.x31, m.x32, m.x33⟩)
  let t40 := (SHRT.ear44Shr tmin tmax sqrt ⟨m.x00, m.x01, m.x02, m.x03, m.x10, m.x11, m.x12, m.x13, m.x20, m.x21, m.x22, m.x23, m.x30, m.x31, m.x32, m.x33⟩)
  let t44 := (M44.extractEulerXYZ tmin tmax sqrt sin cos atan2 ⟨(t19).x00, (t19).x01, (t19).x02, (t19).x03, (t19).x10, (t19).x11, (t19).x12, (t19).x13, (t19).x20, (t19).x21, (t19).x22, (t19).x23, (t19).x30, (t19).x31, (t19).x32, (t19).x33⟩)
  if t18 = (0 : α) then
    (false, ⟨(0 : α), (0 : α), (0 : α)⟩, ⟨(0 : α), (0 : α), (0 : α)⟩, ⟨(0 : α), (0 : α), (0 : α)⟩, ⟨(0 : α), (0 : α), (0 : α)⟩, (257 : Int))
  else
    (true, ⟨(t36).x, (t36).y, (t36).z⟩, ⟨(t40).x, (t40).y, (t40).z⟩, ⟨(t44).x, (t44).y, (t44).z⟩, ⟨m.x30, m.x31, m.x32⟩, (257 : Int))

/-- extracted from the C++ template at T = Sym; 2 path(s) -/
def M44.extractSHRTOrd_XZY {α : Type} [Add α] [Sub α] [Mul α] [Div α] [Neg α] [LT α] [LE α] [DecidableLT α] [DecidableLE α] [DecidableEq α] [OfNat α 0] [OfNat α 1] [OfNat α 2] (tmin : α) (tmax : α) (sqrt : α → α) (sin : α → α) (cos : α → α) (atan2 : α → α → α) (m : M44 α) : (Bool × (V3 α) × (V3 α) × (V3 α) × (V3 α)) :=
  let t18 := (SHRT.ear44Flag tmin tmax sqrt ⟨m.x00, m.x01, m.x02, m.x03, m.x10, m.x11, m.x12, m.x13, m.x20, m.x21, m.x22, m.x23, m.x30, m.x31, m.x32, m.x33⟩)
  let t19 := (SHRT.ear44Mat tmin tmax sqrt ⟨m.x00, m.x01, m.x02, m.x03, m.x10, m.x11, m.x12, m.x13, m.x20, m.x21, m.x22, m.x23, m.x30, m.x31, m.x32, m.x33⟩)
  let t36 := (SHRT.ear44Scl tmin tmax sqrt ⟨m.x00, m.x01, m.x02, m.x03, m.x10, m.x11, m.x12, m.x13, m.x20, m.x21, m.x22, m.x23, m.x30, m.x31, m.x32, m.x33⟩)
  let t40 := (SHRT.ear44Shr tmin tmax sqrt ⟨m.x00, m.x01, m.x02, m.x03, m.x10, m.x11, m.x12, m.x13, m.x20, m.x21, m.x22, m.x23, m.x30, m.x31, m.x32, m.x33⟩)
  let t44 := (M44.extractEulerXYZ tmin tmax sqrt sin cos atan2 ⟨(t19).x00, (t19).x01, (t19).x02, (t19).x03, (t19).x10, (t19).x11, (t19).x12, (t19).x13, (t19).x20, (t19).x21, (t19).x22, (t19).x23, (t19).x30, (t19).x31, (t19).x32, (t19).x33⟩)
  let t48 := (M44.reorderFromXYZ_XZY sqrt sin cos atan2 ⟨(t44).x, (t44).y, (t44).z⟩)
  if t18 = (0 : α) then
    (false, ⟨(0 : α), (0 : α), (0 : α)⟩, ⟨(0 : α), (0 : α), (0 : α)⟩, ⟨(0 : α), (0 : α), (0 : α)⟩, ⟨(0 : α), (0 : α), (0 : α)⟩)
  else
    (true, ⟨(t36).x, (t36).y, (t36).z⟩, ⟨(t40).x, (t40).y, (t40).z⟩, ⟨(t48).x, (t48).z, (t48).y⟩, ⟨m.x30, m.x31, m.x32⟩)

/-- extracted from the C++ template at T = Sym; 2 path(s) -/
def M44.extractSHRTEuler_XZY {α : Type} [Add α] [Sub α] [Mul α] [Div α] [Neg α] [LT α] [LE α] [DecidableLT α] [DecidableLE α] [DecidableEq α] [OfNat α 0] [OfNat α 1] [OfNat α 2] (tmin : α) (tmax : α) (sqrt : α → α) (sin : α → α) (cos : α → α) (atan2 : α → α → α) (m : M44 α) : (Bool × (V3 α) × (V3 α) × (V3 α) × (V3 α) × Int) :=
  let t18 := (SHRT.ear44Flag tmin tmax sqrt ⟨m.x00, m.x01, m.x02, m.x03, m.x10, m.x11, m.x12, m.x13, m.x20, m.x21, m.x22, m.x23, m.x30, m.x31, m.x32, m.x33⟩)
  let t19 := (SHRT.ear44Mat tmin tmax sqrt ⟨m.x00, m.x01, m.x02, m.x03, m.x10, m.x11, m.x12, m.x13, m.x20, m.x21, m.x22, m.x23, m.x30, m.x31, m.x32, m.x33⟩)
  let t36 := (SHRT.ear44Scl tmin tmax sqrt ⟨m.x00, m.x01, m.x02, m.x03, m.x10, m.x11, m.x12, m.x13, m.x20, m.x21, m.x22, m.x23, m.x30, m.x31, m.x32, m.x33⟩)
  let t40 := (SHRT.ear44Shr tmin tmax sqrt ⟨m.x00, m.x01, m.x02, m.x03, m.x10, m.x11, m.x12, m.x13, m.x20, m.x21, m.x22, m.x23, m.x30, m.x31, m.x32, m.x33⟩)
  let t44 := (M44.extractEulerXYZ tmin tmax sqrt sin cos atan2 ⟨(t19).x00, (t19).x01, (t19).x02, (t19).x03, (t19).x10, (t19).x11, (t19).x12, (t19).x13, (t19).x20, (t19).x21, (t19).x22, (t19).x23, (t19).x30, (t19).x31, (t19).x32, (t19).x33⟩)
  let t48 := (M44.reorderFromXYZ_XZY sqrt sin cos atan2 ⟨(t44).x, (t44).y, (t44).z⟩)
  if t18 = (0 : α) then
    (false, ⟨(0 : α), (0 : α), (0 : α)⟩, ⟨(0 : α), (0 : α), (0 : α)⟩, ⟨(0 : α), (0 : α), (0 : α)⟩, ⟨(0 : α), (0 : α), (0 : α)⟩, (1 : Int))
  else
    (true, ⟨(t36).x, (t36).y, (t36).z⟩, ⟨(t40).x, (t40).y, (t40).z⟩, ⟨(t48).x, (t48).y, (t48).z⟩, ⟨m.x30, m.x31, m.x32⟩, (1 : Int))

/-- extracted from the C++ template at T = Sym; 2 path(s) -/
def M44.extractSHRTOrd_YZX {α : Type} [Add α] [Sub α] [Mul α] [Div α] [Neg α] [LT α] [LE α] [DecidableLT α] [DecidableLE α] [DecidableEq α] [OfNat α 0] [OfNat α 1] [OfNat α 2] (tmin : α) (tmax : α) (sqrt : α → α) (sin : α → α) (cos : α → α) (atan2 : α → α → α) (m : M44 α) : (Bool × (V3 α) × (V3 α) × (V3 α) × (V3 α)) :=
  let t18 := (SHRT.ear44Flag tmin tmax sqrt ⟨m.x00, m.x01, m.x02, m.x03, m.x10, m.x11, m.x12, m.x13, m.x20, m.x21, m.x22, m.x23, m.x30, m.x31, m.x32, m.x33⟩)
  let t19 := (SHRT.ear44Mat tmin tmax sqrt ⟨m.x00, m.x01, m.x02, m.x03, m.x10, m.x11, m.x12, m.x13, m.x20, m.x21, m.x22, m.x23, m.x30, m.x31, m.x32, m.x33⟩)
  let t36 := (SHRT.ear44Scl tmin tmax sqrt ⟨m.x00, m.x01, m.x02, m.x03, m.x10, m.x11, m.x12, m.x13, m.x20, m.x21, m.x22, m.x23, m.x30, m.x31, m.x32, m.x33⟩)
  let t40 := (SHRT.ear44Shr tmin tmax sqrt ⟨m.x00, m.x01, m.x02, m.x03, m.x10, m.x11, m.x12, m.x13, m.x20, m.x21, m.x22, m.x23, m.x30, m.x31, m.x32, m.x33⟩)
  let t44 := (M44.extractEulerXYZ tmin tmax sqrt sin cos atan2 ⟨(t19).x00, (t19).x01, (t19).x02, (t19).x03, (t19).x10, (t19).x11, (t19).x12, (t19).x13, (t19).x20, (t19).x21, (t19).x22, (t19).x23, (t19).x30, (t19).x31, (t19).x32, (t19).x33⟩)
  let t52 := (M44.reorderFromXYZ_YZX sqrt sin cos atan2 ⟨(t44).x, (t44).y, (t44).z⟩)
  if t18 = (0 : α) then
    (false, ⟨(0 : α), (0 : α), (0 : α)⟩, ⟨(0 : α), (0 : α), (0 : α)⟩, ⟨(0 : α), (0 : α), (0 : α)⟩, ⟨(0 : α), (0 : α), (0 : α)⟩)
  else
    (true, ⟨(t36).x, (t36).y, (t36).z⟩, ⟨(t40).x, (t40).y, (t40).z⟩, ⟨(t52).z, (t52).x, (t52).y⟩, ⟨m.x30, m.x31, m.x32⟩)

/-- extracted from the C++ template at T = Sym; 2 path(s) -/
def M44.extractSHRTEuler_YZX {α : Type} [Add α] [Sub α] [Mul α] [Div α] [Neg α] [LT α] [LE α] [DecidableLT α] [DecidableLE α] [DecidableEq α] [OfNat α 0] [OfNat α 1] [OfNat α 2] (tmin : α) (tmax : α) (sqrt : α → α) (sin : α → α) (cos : α → α) (atan2 : α → α → α) (m : M44 α) : (Bool × (V3 α) × (V3 α) × (V3 α) × (V3 α) × Int) :=
  let t18 := (SHRT.ear44Flag tmin tmax sqrt ⟨m.x00, m.x01, m.x02, m.x03, m.x10, m.x11, m.x12, m.x13, m.x20, m.x21, m.x22, m.x23, m.x30, m.x31, m.x32, m.x33⟩)
  let t19 := (SHRT.ear44Mat tmin tmax sqrt ⟨m.x00, m.x01, m.x02, m.x03, m.x10, m.x11, m.x12, m.x13, m.x20, m.x21, m.x22, m.x23, m.x30, m.x31, m.x32, m.x33⟩)
  let t36 := (SHRT.ear44Scl tmin tmax sqrt ⟨m.x00, m.x01, m.x02, m.x03, m.x10, m.x11, m.x12, m.x13, m.x20, m.x21, m.x22, m.x23, m.x30, m.x31, m.x32, m.x33⟩)
  let t40 := (SHRT.ear44Shr tmin tmax sqrt ⟨m.x00, m.x01, m.x02, m.x03, m.x10, m.x11, m.x12, m.x13, m.x20, m.x21, m.x22, m.x23, m.x30, m.x31, m.x32, m.x33⟩)
  let t44 := (M44.extractEulerXYZ tmin tmax sqrt sin cos atan2 ⟨(t19).x00, (t19).x01, (t19).x02, (t19).x03, (t19).x10, (t19).x11, (t19).x12, (t19).x13, (t19).x20, (t19).x21, (t19).x22, (t19).x23, (t19).x30, (t19).x31, (t19).x32, (t19).x33⟩)
  let t52 := (M44.reorderFromXYZ_YZX sqrt sin cos atan2 ⟨(t44).x, (t44).y, (t44).z⟩)
  if t18 = (0 : α) then
    (false, ⟨(0 : α), (0 : α), (0 : α)⟩, ⟨(0 : α), (0 : α), (0 : α)⟩, ⟨(0 : α), (0 : α), (0 : α)⟩, ⟨(0 : α), (0 : α), (0 : α)⟩, (4353 : Int))
  else
    (true, ⟨(t36).x, (t36).y, (t36).z⟩, ⟨(t40).x, (t40).y, (t40).z⟩, ⟨(t52).x, (t52).y, (t52).z⟩, ⟨m.x30, m.x31, m.x32⟩, (4353 : Int))

/-- extracted from the C++ template at T = Sym; 2 path(s) -/
def M44.extractSHRTOrd_YXZ {α : Type} [Add α] [Sub α] [Mul α] [Div α] [Neg α] [LT α] [LE α] [DecidableLT α] [DecidableLE α] [DecidableEq α] [OfNat α 0] [OfNat α 1] [OfNat α 2] (tmin : α) (tmax : α) (sqrt : α → α) (sin : α → α) (cos : α → α) (atan2 : α → α → α) (m : M44 α) : (Bool × (V3 α) × (V3 α) × (V3 α) × (V3 α)) :=
  let t18 := (SHRT.ear44Flag tmin tmax sqrt ⟨m.x00, m.x01, m.x02, m.x03, m.x10, m.x11, m.x12, m.x13, m.x20, m.x21, m.x22, m.x23, m.x30, m.x31, m.x32, m.x33⟩)
  let t19 := (SHRT.ear44Mat tmin tmax sqrt ⟨m.x00, m.x01, m.x02, m.x03, m.x10, m.x11, m.x12, m.x13, m.x20, m.x21, m.x22, m.x23, m.x30, m.x31, m.x32, m.x33⟩)
  let t36 := (SHRT.ear44Scl tmin tmax sqrt ⟨m.x00, m.x01, m.x02, m.x03, m.x10, m.x11, m.x12, m.x13, m.x20, m.x21, m.x22, m.x23, m.x30, m.x31, m.x32, m.x33⟩)
  let t40 := (SHRT.ear44Shr tmin tmax sqrt ⟨m.x00, m.x01, m.x02, m.x03, m.x10, m.x11, m.x12, m.x13, m.x20, m.x21, m.x22, m.x23, m.x30, m.x31, m.x32, m.x33⟩)
  let t44 := (M44.extractEulerXYZ tmin tmax sqrt sin cos atan2 ⟨(t19).x00, (t19).x01, (t19).x02, (t19).x03, (t19).x10, (t19).x11, (t19).x12, (t19).x13, (t19).x20, (t19).x21, (t19).x22, (t19).x23, (t19).x30, (t19).x31, (t19).x32, (t19).x33⟩)
  let t56 := (M44.reorderFromXYZ_YXZ sqrt sin cos atan2 ⟨(t44).x, (t44).y, (t44).z⟩)
  if t18 = (0 : α) then
    (false, ⟨(0 : α), (0 : α), (0 : α)⟩, ⟨(0 : α), (0 : α), (0 : α)⟩, ⟨(0 : α), (0 : α), (0 : α)⟩, ⟨(0 : α), (0 : α), (0 : α)⟩)
  else
    (true, ⟨(t36).x, (t36).y, (t36).z⟩, ⟨(t40).x, (t40).y, (t40).z⟩, ⟨(t56).y, (t56).x, (t56).z⟩, ⟨m.x30, m.x31, m.x32⟩)

/-- extracted from the C++ template at T = Sym; 2 path(s) -/
def M44.extractSHRTEuler_YXZ {α : Type} [Add α] [Sub α] [Mul α] [Div α] [Neg α] [LT α] [LE α] [DecidableLT α] [DecidableLE α] [DecidableEq α] [OfNat α 0] [OfNat α 1] [OfNat α 2] (tmin : α) (tmax : α) (sqrt : α → α) (sin : α → α) (cos : α → α) (atan2 : α → α → α) (m : M44 α) : (Bool × (V3 α) × (V3 α) × (V3 α) × (V3 α) × Int) :=
  let t18 := (SHRT.ear44Flag tmin tmax sqrt ⟨m.x00, m.x01, m.x02, m.x03, m.x10, m.x11, m.x12, m.x13, m.x20, m.x21, m.x22, m.x23, m.x30, m.x31, m.x32, m.x33⟩)
  let t19 := (SHRT.ear44Mat tmin tmax sqrt ⟨m.x00, m.x01, m.x02, m.x03, m.x10, m.x11, m.x12, m.x13, m.x20, m.x21, m.x22, m.x23, m.x30, m.x31, m.x32, m.x33⟩)
  let t36 := (SHRT.ear44Scl tmin tmax sqrt ⟨m.x00, m.x01, m.x02, m.x03, m.x10, m.x11, m.x12, m.x13, m.x20, m.x21, m.x22, m.x23, m.x30, m.x31, m.x32, m.x33⟩)
  let t40 := (SHRT.ear44Shr tmin tmax sqrt ⟨m.x00, m.x01, m.x02, m.x03, m.x10, m.x11, m.x12, m.x13, m.x20, m.x21, m.x22, m.x23, m.x30, m.x31, m.x32, m.x33⟩)
  let t44 := (M44.extractEulerXYZ tmin tmax sqrt sin cos atan2 ⟨(t19).x00, (t19).x01, (t19).x02, (t19).x03, (t19).x10, (t19).x11, (t19).x12, (t19).x13, (t19).x20, (t19).x21, (t19).x22, (t19).x23, (t19).x30, (t19).x31, (t19).x32, (t19).x33⟩)
  let t56 := (M44.reorderFromXYZ_YXZ sqrt sin cos atan2 ⟨(t44).x, (t44).y, (t44).z⟩)
  if t18 = (0 : α) then
    (false, ⟨(0 : α), (0 : α), (0 : α)⟩, ⟨(0 : α), (0 : α), (0 : α)⟩, ⟨(0 : α), (0 : α), (0 : α)⟩, ⟨(0 : α), (0 : α), (0 : α)⟩, (4097 : Int))
  else
    (true, ⟨(t36).x, (t36).y, (t36).z⟩, ⟨(t40).x, (t40).y, (t40).z⟩, ⟨(t56).x, (t56).y, (t56).z⟩, ⟨m.x30, m.x31, m.x32⟩, (4097 : Int))

/-- extracted from the C++ template at T = Sym; 2 path(s) -/
def M44.extractSHRTOrd_ZXY {α : Type} [Add α] [Sub α] [Mul α] [Div α] [Neg α] [LT α] [LE α] [DecidableLT α] [DecidableLE α] [DecidableEq α] [OfNat α 0] [OfNat α 1] [OfNat α 2] (tmin : α) (tmax : α) (sqrt : α → α) (sin : α → α) (cos : α → α) (atan2 : α → α → α) (m : M44 α) : (Bool × (V3 α) × (V3 α) × (V3 α) × (V3 α)) :=
  let t18 := (SHRT.ear44Flag tmin tmax sqrt ⟨m.x00, m.x01, m.x02, m.x03, m.x10, m.x11, m.x12, m.x13, m.x20, m.x21, m.x22, m.x23, m.x30, m.x31, m.x32, m.x33⟩)
  let t19 := (SHRT.ear44Mat tmin tmax sqrt ⟨m.x00, m.x01, m.x02, m.x03, m.x10, m.x11, m.x12, m.x13, m.x20, m.x21, m.x22, m.x23, m.x30, m.x31, m.x32, m.x33⟩)
  let t36 := (SHRT.ear44Scl tmin tmax sqrt ⟨m.x00, m.x01, m.x02, m.x03, m.x10, m.x11, m.x12, m.x13, m.x20, m.x21, m.x22, m.x23, m.x30, m.x31, m.x32, m.x33⟩)
  let t40 := (SHRT.ear44Shr tmin tmax sqrt ⟨m.x00, m.x01, m.x02, m.x03, m.x10, m.x11, m.x12, m.x13, m.x20, m.x21, m.x22, m.x23, m.x30, m.x31, m.x32, m.x33⟩)
  let t44 := (M44.extractEulerXYZ tmin tmax sqrt sin cos atan2 ⟨(t19).x00, (t19).x01, (t19).x02, (t19).x03, (t19).x10, (t19).x11, (t19).x12, (t19).x13, (t19).x20, (t19).x21, (t19).x22, (t19).x23, (t19).x30, (t19).x31, (t19).x32, (t19).x33⟩)
  let t60 := (M44.reorderFromXYZ_ZXY sqrt sin cos atan2 ⟨(t44).x, (t44).y, (t44).z⟩)
  if t18 = (0 : α) then
    (false, ⟨(0 : α), (0 : α), (0 : α)⟩, ⟨(0 : α), (0 : α), (0 : α)⟩, ⟨(0 : α), (0 : α), (0 : α)⟩, ⟨(0 : α), (0 : α), (0 : α)⟩)
  else
    (true, ⟨(t36).x, (t36).y, (t36).z⟩, ⟨(t40).x, (t40).y, (t40).z⟩, ⟨(t60).y, (t60).z, (t60).x⟩, ⟨m.x30, m.x31, m.x32⟩)

/-- extracted from the C++ template at T = Sym; 2 path(s) -/
def M44.extractSHRTEuler_ZXY {α : Type} [Add α] [Sub α] [Mul α] [Div α] [Neg α] [LT α] [LE α] [DecidableLT α] [DecidableLE α] [DecidableEq α] [OfNat α 0] [OfNat α 1] [OfNat α 2] (tmin : α) (tmax : α) (sqrt : α → α) (sin : α → α) (cos : α → α) (atan2 : α → α → α) (m : M44 α) : (Bool × (V3 α) × (V3 α) × (V3 α) × (V3 α) × Int) :=
  let t18 := (SHRT.ear44Flag tmin tmax sqrt ⟨m.x00, m.x01, m.x02, m.x03, m.x10, m.x11, m.x12, m.x13, m.x20, m.x21, m.x22, m.x23, m.x30, m.x31, m.x32, m.x33⟩)
  let t19 := (SHRT.ear44Mat tmin tmax sqrt ⟨m.x00, m.x01, m.x02, m.x03, m.x10, m.x11, m.x12, m.x13, m.x20, m.x21, m.x22, m.x23, m.x30, m.x31, m.x32, m.x33⟩)
  let t36 := (SHRT.ear44Scl tmin tmax sqrt ⟨m.x00, m.x01, m.x02, m.x03, m.x10, m.x11, m.x12, m.x13, m.x20, m.x21, m.x22, m.x23, m.x30, m.x31, m.x32, m.x33⟩)
  let t40 := (SHRT.ear44Shr tmin tmax sqrt ⟨m.x00, m.x01, m.x02, m.x03, m.x10, m.x11, m.x12, m.x13, m.x20, m.x21, m.x22, m.x23, m.x30, m.x31, m.x32, m.x33⟩)
  let t44 := (M44.extractEulerXYZ tmin tmax sqrt sin cos atan2 ⟨(t19).x00, (t19).x01, (t19).x02, (t19).x03, (t19).x10, (t19).x11, (t19).x12, (t19).x13, (t19).x20, (t19).x21, (t19).x22, (t19).x23, (t19).x30, (t19).x31, (t19).x32, (t19).x33⟩)
  let t60 := (M44.reorderFromXYZ_ZXY sqrt sin cos atan2 ⟨(t44).x, (t44).y, (t44).z⟩)
  if t18 = (0 : α) then
    (false, ⟨(0 : α), (0 : α), (0 : α)⟩, ⟨(0 : α), (0 : α), (0 : α)⟩, ⟨(0 : α), (0 : α), (0 : α)⟩, ⟨(0 : α), (0 : α), (0 : α)⟩, (8449 : Int))
  else
    (true, ⟨(t36).x, (t36).y, (t36).z⟩, ⟨(t40).x, (t40).y, (t40).z⟩, ⟨(t60).x, (t60).y, (t60).z⟩, ⟨m.x30, m.x31, m.x32⟩, (8449 : Int))

/-- extracted from the C++ template at T = Sym; 2 path(s) -/
def M44.extractSHRTOrd_ZYX {α : Type} [Add α] [Sub α] [Mul α] [Div α] [Neg α] [LT α] [LE α] [DecidableLT α] [DecidableLE α] [DecidableEq α] [OfNat α 0] [OfNat α 1] [OfNat α 2] (tmin : α) (tmax : α) (sqrt : α → α) (sin : α → α) (cos : α → α) (atan2 : α → α → α) (m : M44 α) : (Bool × (V3 α) × (V3 α) × (V3 α) × (V3 α)) :=
  let t18 := (SHRT.ear44Flag tmin tmax sqrt ⟨m.x00, m.x01, m.x02, m.x03, m.x10, m.x11, m.x12, m.x13, m.x20, m.x21, m.x22, m.x23, m.x30, m.x31, m.x32, m.x33⟩)
  let t19 := (SHRT.ear44Mat tmin tmax sqrt ⟨m.x00, m.x01, m.x02, m.x03, m.x10, m.x11, m.x12, m.x13, m.x20, m.x21, m.x22, m.x23, m.x30, m.x31, m.x32, m.x33⟩)
  let t36 := (SHRT.ear44Scl tmin tmax sqrt ⟨m.x00, m.x01, m.x02, m.x03, m.x10, m.x11, m.x12, m.x13, m.x20, m.x21, m.x22, m.x23, m.x30, m.x31, m.x32, m.x33⟩)
  let t40 := (SHRT.ear44Shr tmin tmax sqrt ⟨m.x00, m.x01, m.x02, m.x03, m.x10, m.x11, m.x12, m.x13, m.x20, m.x21, m.x22, m.x23, m.x30, m.x31, m.x32, m.x33⟩)
  let t44 := (M44.extractEulerXYZ tmin tmax sqrt sin cos atan2 ⟨(t19).x00, (t19).x01, (t19).x02, (t19).x03, (t19).x10, (t19).x11, (t19).x12, (t19).x13, (t19).x20, (t19).x21, (t19).x22, (t19).x23, (t19).x30, (t19).x31, (t19).x32, (t19).x33⟩)
  let t64 := (M44.reorderFromXYZ_ZYX sqrt sin cos atan2 ⟨(t44).x, (t44).y, (t44).z⟩)
  if t18 = (0 : α) then
    (false, ⟨(0 : α), (0 : α), (0 : α)⟩, ⟨(0 : α), (0 : α), (0 : α)⟩, ⟨(0 : α), (0 : α), (0 : α)⟩, ⟨(0 : α), (0 : α), (0 : α)⟩)
  else
    (true, ⟨(t36).x, (t36).y, (t36).z⟩, ⟨(t40).x, (t40).y, (t40).z⟩, ⟨(t64).z, (t64).y, (t64).x⟩, ⟨m.x30, m.x31, m.x32⟩)

/-- extracted from the C++ template at T = Sym; 2 path(s) -/
def M44.extractSHRTEuler_ZYX {α : Type} [Add α] [Sub α] [Mul α] [Div α] [Neg α] [LT α] [LE α] [DecidableLT α] [DecidableLE α] [DecidableEq α] [OfNat α 0] [OfNat α 1] [OfNat α 2] (tmin : α) (tmax : α) (sqrt : α → α) (sin : α → α) (cos : α → α) (atan2 : α → α → α) (m : M44 α) : (Bool × (V3 α) × (V3 α) × (V3 α) × (V3 α) × Int) :=
  let t18 := (SHRT.ear44Flag tmin tmax sqrt ⟨m.x00, m.x01, m.x02, m.x03, m.x10, m.x11, m.x12, m.x13, m.x20, m.x21, m.x22, m.x23, m.x30, m.x31, m.x32, m.x33⟩)
  let t19 := (SHRT.ear44Mat tmin tmax sqrt ⟨m.x00, m.x01, m.x02, m.x03, m.x10, m.x11, m.x12, m.x13, m.x20, m.x21, m.x22, m.x23, m.x30, m.x31, m.x32, m.x33⟩)
  let t36 := (SHRT.ear44Scl tmin tmax sqrt ⟨m.x00, m.x01, m.x02, m.x03, m.x10, m.x11, m.x12, m.x13, m.x20, m.x21, m.x22, m.x23, m.x30, m.x31, m.x32, m.x33⟩)
  let t40 := (SHRT.ear44Shr tmin tmax sqrt ⟨m.x00, m.x01, m.x02, m.x03, m.x10, m.x11, m.x12, m.x13, m.x20, m.x21, m.x22, m.x23, m.x30, m.x31, m.x32, m.x33⟩)
  let t44 := (M44.extractEulerXYZ tmin tmax sqrt sin cos atan2 ⟨(t19).x00, (t19).x01, (t19).x02, (t19).x03, (t19).x10, (t19).x11, (t19).x12, (t19).x13, (t19).x20, (t19).x21, (t19).x22, (t19).x23, (t19).x30, (t19).x31, (t19).x32, (t19).x33⟩)
  let t64 := (M44.reorderFromXYZ_ZYX sqrt sin cos atan2 ⟨(t44).x, (t44).y, (t44).z⟩)
  if t18 = (0 : α) then
    (false, ⟨(0 : α), (0 : α), (0 : α)⟩, ⟨(0 : α), (0 : α), (0 : α)⟩, ⟨(0 : α), (0 : α), (0 : α)⟩, ⟨(0 : α), (0 : α), (0 : α)⟩, (8193 : Int))
  else
    (true, ⟨(t36).x, (t36).y, (t36).z⟩, ⟨(t40).x, (t40).y, (t40).z⟩, ⟨(t64).x, (t64).y, (t64).z⟩, ⟨m.x30, m.x31, m.x32⟩, (8193 : Int))

/-- extracted from the C++ template at T = Sym; 2 path(s) -/
def M44.extractSHRTOrd_XZX {α : Type} [Add α] [Sub α] [Mul α] [Div α] [Neg α] [LT α] [LE α] [DecidableLT α] [DecidableLE α] [DecidableEq α] [OfNat α 0] [OfNat α 1] [OfNat α 2] (tmin : α) (tmax : α) (sqrt : α → α) (sin : α → α) (cos : α → α) (atan2 : α → α → α) (m : M44 α) : (Bool × (V3 α) × (V3 α) × (V3 α) × (V3 α)) :=
  let t18 := (SHRT.ear44Flag tmin tmax sqrt ⟨m.x00, m.x01, m.x02, m.x03, m.x10, m.x11, m.x12, m.x13, m.x20, m.x21, m.x22, m.x23, m.x30, m.x31, m.x32, m.x33⟩)
  let t19 := (SHRT.ear44Mat tmin tmax sqrt ⟨m.x00, m.x01, m.x02, m.x03, m.x10, m.x11, m.x12, m.x13, m.x20, m.x21, m.x22, m.x23, m.x30, m.x31, m.x32, m.x33⟩)
  let t36 := (SHRT.ear44Scl tmin tmax sqrt ⟨m.x00, m.x01, m.x02, m.x03, m.x10, m.x11, m.x12, m.x13, m.x20, m.x21, m.x22, m.x23, m.x30, m.x31, m.x32, m.x33⟩)
  let t40 := (SHRT.ear44Shr tmin tmax sqrt ⟨m.x00, m.x01, m.x02, m.x03, m.x10, m.x11, m.x12, m.x13, m.x20, m.x21, m.x22, m.x23, m.x30, m.x31, m.x32, m.x33⟩)
  let t44 := (M44.extractEulerXYZ tmin tmax sqrt sin cos atan2 ⟨(t19).x00, (t19).x01, (t19).x02, (t19).x03, (t19).x10, (t19).x11, (t19).x12, (t19).x13, (t19).x20, (t19).x21, (t19).x22, (t19).x23, (t19).x30, (t19).x31, (t19).x32, (t19).x33⟩)
  let t68 := (M44.reorderFromXYZ_XZX sqrt sin cos atan2 ⟨(t44).x, (t44).y, (t44).z⟩)
  if t18 = (0 : α) then
    (false, ⟨(0 : α), (0 : α), (0 : α)⟩, ⟨(0 : α), (0 : α), (0 : α)⟩, ⟨(0 : α), (0 : α), (0 : α)⟩, ⟨(0 : α), (0 : α), (0 : α)⟩)
  else
    (true, ⟨(t36).x, (t36).y, (t36).z⟩, ⟨(t40).x, (t40).y, (t40).z⟩, ⟨(t68).x, (t68).z, (t68).y⟩, ⟨m.x30, m.x31, m.x32⟩)

/-- extracted from the C++ template at T = Sym; 2 path(s) -/
def M44.extractSHRTEuler_XZX {α : Type} [Add α] [Sub α] [Mul α] [Div α] [Neg α] [LT α] [LE α] [DecidableLT α] [DecidableLE α] [DecidableEq α] [OfNat α 0] [OfNat α 1] [OfNat α 2] (tmin : α) (tmax : α) (sqrt : α → α) (sin : α → α) (cos : α → α) (atan2 : α → α → α) (m : M44 α) : (Bool × (V3 α) × (V3 α) × (V3 α) × (V3 α) × Int) :=
  let t18 := (SHRT.ear44Flag tmin tmax sqrt ⟨m.x00, m.x01, m.x02, m.x03, m.x10, m.x11, m.x12, m.x13, m.x20, m.x21, m.x22, m.x23, m.x30, m.x31, m.x32, m.x33⟩)
  let t19 := (SHRT.ear44Mat tmin tmax sqrt ⟨m.x00, m.x01, m.x02, m.x03, m.x10, m.x11, m.x12, m.x13, m.x20, m.x21, m.x22, m.x23, m.x30, m.x31, m.x32, m.x33⟩)
  let t36 := (SHRT.ear44Scl tmin tmax sqrt ⟨m.x00, m.x01, m.x02, m.x03, m.x10, m.x11, m.x12, m.x13, m.x20, m.x21, m.x22, m.x23, m.x30, m.x31, m.x32, m.x33⟩)
  let t40 := (SHRT.ear44Shr tmin tmax sqrt ⟨m.x00, m.x01, m.x02, m.x03, m.x10, m.x11, m.x12, m.x13, m.x20, m.x21, m.x22, m.x23, m.x30, m.x31, m.x32, m.x33⟩)
  let t44 := (M44.extractEulerXYZ tmin tmax sqrt sin cos atan2 ⟨(t19).x00, (t19).x01, (t19).x02, (t19).x03, (t19).x10, (t19).x11, (t19).x12, (t19).x13, (t19).x20, (t19).x21, (t19).x22, (t19).x23, (t19).x30, (t19).x31, (t19).x32, (t19).x33⟩)
  let t68 := (M44.reorderFromXYZ_XZX sqrt sin cos atan2 ⟨(t44).x, (t44).y, (t44).z⟩)
  if t18 = (0 : α) then
    (false, ⟨(0 : α), (0 : α), (0 : α)⟩, ⟨(0 : α), (0 : α), (0 : α)⟩, ⟨(0 : α), (0 : α), (0 : α)⟩, ⟨(0 : α), (0 : α), (0 : α)⟩, (17 : Int))
  else
    (true, ⟨(t36).x, (t36).y, (t36).z⟩, ⟨(t40).x, (t40).y, (t40).z⟩, ⟨(t68).x, (t68).y, (t68).z⟩, ⟨m.x30, m.x31, m.x32⟩, (17 : Int))

/-- extracted from the C++ template at T = Sym; 2 path(s) -/
def M44.extractSHRTOrd_XYX {α : Type} [Add α] [Sub α] [Mul α] [Div α] [Neg α] [LT α] [LE α] [DecidableLT α] [DecidableLE α] [DecidableEq α] [OfNat α 0] [OfNat α 1] [OfNat α 2] (tmin : α) (tmax : α) (sqrt : α → α) (sin : α → α) (cos : α → α) (atan2 : α → α → α) (m : M44 α) : (Bool × (V3 α) × (V3 α) × (V3 α) × (V3 α)) :=
  let t18 := (SHRT.ear44Flag tmin tmax sqrt ⟨m.x00, m.x01, m.x02, m.x03, m.x10, m.x11, m.x12, m.x13, m.x20, m.x21, m.x22, m.x23, m.x30, m.x31, m.x32, m.x33⟩)
  let t19 := (SHRT.ear44Mat tmin tmax sqrt ⟨m.x00, m.x01, m.x02, m.x03, m.x10, m.x11, m.x12, m.x13, m.x20, m.x21, m.x22, m.x23, m.x30, m.x31, m.x32, m.x33⟩)
  let t36 := (SHRT.ear44Scl tmin tmax sqrt ⟨m.x00, m.x01, m.x02, m.x03, m.x10, m.x11, m.x12, m.x13, m.x20, m.x21, m.x22, m.x23, m.x30, m.x31, m.x32, m.x33⟩)
  let t40 := (SHRT.ear44Shr tmin tmax sqrt ⟨m.x00, m.x01, m.x02, m.x03, m.x10, m.x11, m.x12, m.x13, m.x20, m.x21, m.x22, m.x23, m.x30, m.x31, m.x32, m.x33⟩)
  let t44 := (M44.extractEulerXYZ tmin tmax sqrt sin cos atan2 ⟨(t19).x00, (t19).x01, (t19).x02, (t19).x03, (t19).x10, (t19).x11, (t19).x12, (t19).x13, (t19).x20, (t19).x21, (t19).x22, (t19).x23, (t19).x30, (t19).x31, (t19).x32, (t19).x33⟩)
  let t72 := (M44.reorderFromXYZ_XYX sqrt sin cos atan2 ⟨(t44).x, (t44).y, (t44).z⟩)
  if t18 = (0 : α) then
    (false, ⟨(0 : α), (0 : α), (0 : α)⟩, ⟨(0 : α), (0 : α), (0 : α)⟩, ⟨(0 : α), (0 : α), (0 : α)⟩, ⟨(0 : α), (0 : α), (0 : α)⟩)
  else
    (true, ⟨(t36).x, (t36).y, (t36).z⟩, ⟨(t40).x, (t40).y, (t40).z⟩, ⟨(t72).x, (t72).y, (t72).z⟩, ⟨m.x30, m.x31, m.x32⟩)

/-- extracted from the C++ template at T = Sym; 2 path(s) -/
def M44.extractSHRTEuler_XYX {α : Type} [Add α] [Sub α] [Mul α] [Div α] [Neg α] [LT α] [LE α] [DecidableLT α] [DecidableLE α] [DecidableEq α] [OfNat α 0] [OfNat α 1] [OfNat α 2] (tmin : α) (tmax : α) (sqrt : α → α) (sin : α → α) (cos : α → α) (atan2 : α → α → α) (m : M44 α) : (Bool × (V3 α) × (V3 α) × (V3 α) × (V3 α) × Int) :=
  let t18 := (SHRT.ear44Flag tmin tmax sqrt ⟨m.x00, m.x01, m.x02, m.x03, m.x10, m.x11, m.x12, m.x13, m.x20, m.x21, m.x22, m.x23, m.x30, m.x31, m.x32, m.x33⟩)
  let t19 := (SHRT.ear44Mat tmin tmax sqrt ⟨m.x00, m.x01, m.x02, m.x03, m.x10, m.x11, m.x12, m.x13, m.x20, m.x21, m.x22, m.x23, m.x30, m.x31, m.x32, m.x33⟩)
  let t36 := (SHRT.ear44Scl tmin tmax sqrt ⟨m.x00, m.x01, m.x02, m.x03, m.x10, m.x11, m.x12, m.x13, m.x20, m.x21, m.x22, m.x23, m.x30, m.x31, m.x32, m.x33⟩)
  let t40 := (SHRT.ear44Shr tmin tmax sqrt ⟨m.x00, m.x01, m.x02, m.x03, m.x10, m.x11, m.x12, m.x13, m.x20, m.x21, m.x22, m.x23, m.x30, m.x31, m.x32, m.x33⟩)
  let t44 := (M44.extractEulerXYZ tmin tmax sqrt sin cos atan2 ⟨(t19).x00, (t19).x01, (t19).x02, (t19).x03, (t19).x10, (t19).x11, (t19).x12, (t19).x13, (t19).x20, (t19).x21, (t19).x22, (t19).x23, (t19).x30, (t19).x31, (t19).x32, (t19).x33⟩)
  let t72 := (M44.reorderFromXYZ_XYX sqrt sin cos atan2 ⟨(t44).x, (t44).y, (t44).z⟩)
  if t18 = (0 : α) then
    (false, ⟨(0 : α), (0 : α), (0 : α)⟩, ⟨(0 : α), (0 : α), (0 : α)⟩, ⟨(0 : α), (0 : α), (0 : α)⟩, ⟨(0 : α), (0 : α), (0 : α)⟩, (273 : Int))
  else
    (true, ⟨(t36).x, (t36).y, (t36).z⟩, ⟨(t40).x, (t40).y, (t40).z⟩, ⟨(t72).x, (t72).y, (t72).z⟩, ⟨m.x30, m.x31, m.x32⟩, (273 : Int))

/-- extracted from the C++ template at T = Sym; 2 path(s) -/
def M44.extractSHRTOrd_YXY {α : Type} [Add α] [Sub α] [Mul α] [Div α] [Neg α] [LT α] [LE α] [DecidableLT α] [DecidableLE α] [DecidableEq α] [OfNat α 0] [OfNat α 1] [OfNat α 2] (tmin : α) (tmax : α) (sqrt : α → α) (sin : α → α) (cos : α → α) (atan2 : α → α → α) (m : M44 α) : (Bool × (V3 α) × (V3 α) × (V3 α) × (V3 α)) :=
  let t18 := (SHRT.ear44Flag tmin tmax sqrt ⟨m.x00, m.x01, m.x02, m.x03, m.x10, m.x11, m.x12, m.x13, m.x20, m.x21, m.x22, m.x23, m.x30, m.x31, m.x32, m.x33⟩)
  let t19 := (SHRT.ear44Mat tmin tmax sqrt ⟨m.x00, m.x01, m.x02, m.x03, m.x10, m.x11, m.x12, m.x13, m.x20, m.x21, m.x22, m.x23, m.x30, m.x31, m.x32, m.x33⟩)
  let t36 := (SHRT.ear44Scl tmin tmax sqrt ⟨m.x00, m.x01, m.x02, m.x03, m.x10, m.x11, m.x12, m.x13, m.x20, m.x21, m.x22, m.x23, m.x30, m.x31, m.x32, m.x33⟩)
  let t40 := (SHRT.ear44Shr tmin tmax sqrt ⟨m.x00, m.x01, m.x02, m.x03, m.x10, m.x11, m.x12, m.x13, m.x20, m.x21, m.x22, m.x23, m.x30, m.x31, m.x32, m.x33⟩)
  let t44 := (M44.extractEulerXYZ tmin tmax sqrt sin cos atan2 ⟨(t19).x00, (t19).x01, (t19).x02, (t19).x03, (t19).x10, (t19).x11, (t19).x12, (t19).x13, (t19).x20, (t19).x21, (t19).x22, (t19).x23, (t19).x30, (t19).x31, (t19).x32, (t19).x33⟩)
  let t76 := (M44.reorderFromXYZ_YXY sqrt sin cos atan2 ⟨(t44).x, (t44).y, (t44).z⟩)
  if t18 = (0 : α) then
    (false, ⟨(0 : α), (0 : α), (0 : α)⟩, ⟨(0 : α), (0 : α), (0 : α)⟩, ⟨(0 : α), (0 : α), (0 : α)⟩, ⟨(0 : α), (0 : α), (0 : α)⟩)
  else
    (true, ⟨(t36).x, (t36).y, (t36).z⟩, ⟨(t40).x, (t40).y, (t40).z⟩, ⟨(t76).y, (t76).x, (t76).z⟩, ⟨m.x30, m.x31, m.x32⟩)

/-- extracted from the C++ template at T = Sym; 2 path(s) -/
def M44.extractSHRTEuler_YXY {α : Type} [Add α] [Sub α] [Mul α] [Div α] [Neg α] [LT α] [LE α] [DecidableLT α] [DecidableLE α] [DecidableEq α] [OfNat α 0] [OfNat α 1] [OfNat α 2] (tmin : α) (tmax : α) (sqrt : α → α) (sin : α → α) (cos : α → α) (atan2 : α → α → α) (m : M44 α) : (Bool × (V3 α) × (V3 α) × (V3 α) × (V3 α) × Int) :=
  let t18 := (SHRT.ear44Flag tmin tmax sqrt ⟨m.x00, m.x01, m.x02, m.x03, m.x10, m.x11, m.x12, m.x13, m.x20, m.x21, m.x22, m.x23, m.x30, m.x31, m.x32, m.x33⟩)
  let t19 := (SHRT.ear44Mat tmin tmax sqrt ⟨m.x00, m.x01, m.x02, m.x03, m.x10, m.x11, m.x12, m.x13, m.x20, m.x21, m.x22, m.x23, m.x30, m.x31, m.x32, m.x33⟩)
  let t36 := (SHRT.ear44Scl tmin tmax sqrt ⟨m.x00, m.x01, m.x02, m.x03, m.x10, m.x11, m.x12, m.x13, m.x20, m.x21, m.x22, m.x23, m.x30, m.x31, m.x32, m.x33⟩)
  let t40 := (SHRT.ear44Shr tmin tmax sqrt ⟨m.x00, m.x01, m.x02, m.x03, m.x10, m.x11, m.x12, m.x13, m.x20, m.x21, m.x22, m.x23, m.x30, m.x31, m.x32, m.x33⟩)
  let t44 := (M44.extractEulerXYZ tmin tmax sqrt sin cos atan2 ⟨(t19).x00, (t19).x01, (t19).x02, (t19).x03, (t19).x10, (t19).x11, (t19).x12, (t19).x13, (t19).x20, (t19).x21, (t19).x22, (t19).x23, (t19).x30, (t19).x31, (t19).x32, (t19).x33⟩)
  let t76 := (M44.reorderFromXYZ_YXY sqrt sin cos atan2 ⟨(t44).x, (t44).y, (t44).z⟩)
  if t18 = (0 : α) then
    (false, ⟨(0 : α), (0 : α), (0 : α)⟩, ⟨(0 : α), (0 : α), (0 : α)⟩, ⟨(0 : α), (0 : α), (0 : α)⟩, ⟨(0 : α), (0 : α), (0 : α)⟩, (4113 : Int))
  else
    (true, ⟨(t36).x, (t36).y, (t36).z⟩, ⟨(t40).x, (t40).y, (t40).z⟩, ⟨(t76).x, (t76).y, (t76).z⟩, ⟨m.x30, m.x31, m.x32⟩, (4113 : Int))

/-- extracted from the C++ template at T = Sym; 2 path(s) -/
def M44.extractSHRTOrd_YZY {α : Type} [Add α] [Sub α] [Mul α] [Div α] [Neg α] [LT α] [LE α] [DecidableLT α] [DecidableLE α] [DecidableEq α] [OfNat α 0] [OfNat α 1] [OfNat α 2] (tmin : α) (tmax : α) (sqrt : α → α) (sin : α → α) (cos : α → α) (atan2 : α → α → α) (m : M44 α) : (Bool × (V3 α) × (V3 α) × (V3 α) × (V3 α)) :=
  let t18 := (SHRT.ear44Flag tmin tmax sqrt ⟨m.x00, m.x01, m.x02, m.x03, m.x10, m.x11, m.x12, m.x13, m.x20, m.x21, m.x22, m.x23, m.x30, m.x31, m.x32, m.x33⟩)
  let t19 := (SHRT.ear44Mat tmin tmax sqrt ⟨m.x00, m.x01, m.x02, m.x03, m.x10, m.x11, m.x12, m.x13, m.x20, m.x21, m.x22, m.x23, m.x30, m.x31, m.x32, m.x33⟩)
  let t36 := (SHRT.ear44Scl tmin tmax sqrt ⟨m.x00, m.x01, m.x02, m.x03, m.x10, m.x11, m.x12, m.x13, m.x20, m.x21, m.x22, m.x23, m.x30, m.x31, m.x32, m.x33⟩)
  let t40 := (SHRT.ear44Shr tmin tmax sqrt ⟨m.x00, m.x01, m.x02, m.x03, m.x10, m.x11, m.x12, m.x13, m.x20, m.x21, m.x22, m.x23, m.x30, m.x31, m.x32, m.x33⟩)
  let t44 := (M44.extractEulerXYZ tmin tmax sqrt sin cos atan2 ⟨(t19).x00, (t19).x01, (t19).x02, (t19).x03, (t19).x10, (t19).x11, (t19).x12, (t19).x13, (t19).x20, (t19).x21, (t19).x22, (t19).x23, (t19).x30, (t19).x31, (t19).x32, (t19).x33⟩)
  let t80 := (M44.reorderFromXYZ_YZY sqrt sin cos atan2 ⟨(t44).x, (t44).y, (t44).z⟩)
  if t18 = (0 : α) then
    (false, ⟨(0 : α), (0 : α), (0 : α)⟩, ⟨(0 : α), (0 : α), (0 : α)⟩, ⟨(0 : α), (0 : α), (0 : α)⟩, ⟨(0 : α), (0 : α), (0 : α)⟩)
  else
    (true, ⟨(t36).x, (t36).y, (t36).z⟩, ⟨(t40).x, (t40).y, (t40).z⟩, ⟨(t80).z, (t80).x, (t80).y⟩, ⟨m.x30, m.x31, m.x32⟩)

/-- extracted from the C++ template at T = Sym; 2 path(s) -/
def M44.extractSHRTEuler_YZY {α : Type} [Add α] [Sub α] [Mul α] [Div α] [Neg α] [LT α] [LE α] [DecidableLT α] [DecidableLE α] [DecidableEq α] [OfNat α 0] [OfNat α 1] [OfNat α 2] (tmin : α) (tmax : α) (sqrt : α → α) (sin : α → α) (cos : α → α) (atan2 : α → α → α) (m : M44 α) : (Bool × (V3 α) × (V3 α) × (V3 α) × (V3 α) × Int) :=
  let t18 := (SHRT.ear44Flag tmin tmax sqrt ⟨m.x00, m.x01, m.x02, m.x03, m.x10, m.x11, m.x12, m.x13, m.x20, m.x21, m.x22, m.x23, m.x30, m.x31, m.x32, m.x33⟩)
  let t19 := (SHRT.ear44Mat tmin tmax sqrt ⟨m.x00, m.x01, m.x02, m.x03, m.x10, m.x11, m.x12, m.x13, m.x20, m.x21, m.x22, m.x23, m.x30, m.x31, m.x32, m.x33⟩)
  let t36 := (SHRT.ear44Scl tmin tmax sqrt ⟨m.x00, m.x01, m.x02, m.x03, m.x10, m.x11, m.x12, m.x13, m.x20, m.x21, m.x22, m.x23, m.x30, m.x31, m.x32, m.x33⟩)
  let t40 := (SHRT.ear44Shr tmin tmax sqrt ⟨m.x00, m.x01, m.x02, m.x03, m.x10, m.x11, m.x12, m.x13, m.x20, m.x21, m.x22, m.x23, m.x30, m.x31, m.x32, m.x33⟩)
  let t44 := (M44.extractEulerXYZ tmin tmax sqrt sin cos atan2 ⟨(t19).x00, (t19).x01, (t19).x02, (t19).x03, (t19).x10, (t19).x11, (t19).x12, (t19).x13, (t19).x20, (t19).x21, (t19).x22, (t19).x23, (t19).x30, (t19).x31, (t19).x32, (t19).x33⟩)
  let t80 := (M44.reorderFromXYZ_YZY sqrt sin cos atan2 ⟨(t44).x, (t44).y, (t44).z⟩)
  if t18 = (0 : α) then
    (false, ⟨(0 : α), (0 : α), (0 : α)⟩, ⟨(0 : α), (0 : α), (0 : α)⟩, ⟨(0 : α), (0 : α), (0 : α)⟩, ⟨(0 : α), (0 : α), (0 : α)⟩, (4369 : Int))
  else
    (true, ⟨(t36).x, (t36).y, (t36).z⟩, ⟨(t40).x, (t40).y, (t40).z⟩, ⟨(t80).x, (t80).y, (t80).z⟩, ⟨m.x30, m.x31, m.x32⟩, (4369 : Int))

/-- extracted from the C++ template at T = Sym; 2 path(s) -/
def M44.extractSHRTOrd_ZYZ {α : Type} [Add α] [Sub α] [Mul α] [Div α] [Neg α] [LT α] [LE α] [DecidableLT α] [DecidableLE α] [DecidableEq α] [OfNat α 0] [OfNat α 1] [OfNat α 2] (tmin : α) (tmax : α) (sqrt : α → α) (sin : α → α) (cos : α → α) (atan2 : α → α → α) (m : M44 α) : (Bool × (V3 α) × (V3 α) × (V3 α) × (V3 α)) :=
  let t18 := (SHRT.ear44Flag tmin tmax sqrt ⟨m.x00, m.x01, m.x02, m.x03, m.x10, m.x11, m.x12, m.x13, m.x20, m.x21, m.x22, m.x23, m.x30, m.x31, m.x32, m.x33⟩)
  let t19 := (SHRT.ear44Mat tmin tmax sqrt ⟨m.x00, m.x01, m.x02, m.x03, m.x10, m.x11, m.x12, m.x13, m.x20, m.x21, m.x22, m.x23, m.x30, m.x31, m.x32, m.x33⟩)
  let t36 := (SHRT.ear44Scl tmin tmax sqrt ⟨m.x00, m.x01, m.x02, m.x03, m.x10, m.x11, m.x12, m.x13, m.x20, m.x21, m.x22, m.x23, m.x30, m.x31, m.x32, m.x33⟩)
  let t40 := (SHRT.ear44Shr tmin tmax sqrt ⟨m.x00, m.x01, m.x02, m.x03, m.x10, m.x11, m.x12, m.x13, m.x20, m.x21, m.x22, m.x23, m.x30, m.x31, m.x32, m.x33⟩)
  let t44 := (M44.extractEulerXYZ tmin tmax sqrt sin cos atan2 ⟨(t19).x00, (t19).x01, (t19).x02, (t19).x03, (t19).x10, (t19).x11, (t19).x12, (t19).x13, (t19).x20, (t19).x21, (t19).x22, (t19).x23, (t19).x30, (t19).x31, (t19).x32, (t19).x33⟩)
  let t84 := (M44.reorderFromXYZ_ZYZ sqrt sin cos atan2 ⟨(t44).x, (t44).y, (t44).z⟩)
  if t18 = (0 : α) then
    (false, ⟨(0 : α), (0 : α), (0 : α)⟩, ⟨(0 : α), (0 : α), (0 : α)⟩, ⟨(0 : α), (0 : α), (0 : α)⟩, ⟨(0 : α), (0 : α), (0 : α)⟩)
  else
    (true, ⟨(t36).x, (t36).y, (t36).z⟩, ⟨(t40).x, (t40).y, (t40).z⟩, ⟨(t84).z, (t84).y, (t84).x⟩, ⟨m.x30, m.x31, m.x32⟩)

/-- extracted from the C++ template at T = Sym; 2 path(s) -/
def M44.extractSHRTEuler_ZYZ {α : Type} [Add α] [Sub α] [Mul α] [Div α] [Neg α] [LT α] [LE α] [DecidableLT α] [DecidableLE α] [DecidableEq α] [OfNat α 0] [OfNat α 1] [OfNat α 2] (tmin : α) (tmax : α) (sqrt : α → α) (sin : α → α) (cos : α → α) (atan2 : α → α → α) (m : M44 α) : (Bool × (V3 α) × (V3 α) × (V3 α) × (V3 α) × Int) :=
  let t18 := (SHRT.ear44Flag tmin tmax sqrt ⟨m.x00, m.x01, m.x02, m.x03, m.x10, m.x11, m.x12, m.x13, m.x20, m.x21, m.x22, m.x23, m.x30, m.x31, m.x32, m.x33⟩)
  let t19 := (SHRT.ear44Mat tmin tmax sqrt ⟨m.x00, m.x01, m.x02, m.x03, m.x10, m.x11, m.x12, m.x13, m.x20, m.x21, m.x22, m.x23, m.x30, m.x31, m.x32, m.x33⟩)
  let t36 := (SHRT.ear44Scl tmin tmax sqrt ⟨m.x00, m.x01, m.x02, m.x03, m.x10, m.x11, m.x12, m.x13, m.x20, m.x21, m.x22, m.x23, m.x30, m.x31, m.x32, m.x33⟩)
  let t40 := (SHRT.ear44Shr tmin tmax sqrt ⟨m.x00, m.x01, m.x02, m.x03, m.x10, m.x11, m.x12, m.x13, m.x20, m.x21, m.x22, m.x23, m.x30, m.x31, m.x32, m.x33⟩)
  let t44 := (M44.extractEulerXYZ tmin tmax sqrt sin cos atan2 ⟨(t19).x00, (t19).x01, (t19).x02, (t19).x03, (t19).x10, (t19).x11, (t19).x12, (t19).x13, (t19).x20, (t19).x21, (t19).x22, (t19).x23, (t19).x30, (t19).x31, (t19).x32, (t19).x33⟩)
  let t84 := (M44.reorderFromXYZ_ZYZ sqrt sin cos atan2 ⟨(t44).x, (t44).y, (t44).z⟩)
  if t18 = (0 : α) then
    (false, ⟨(0 : α), (0 : α), (0 : α)⟩, ⟨(0 : α), (0 : α), (0 : α)⟩, ⟨(0 : α), (0 : α), (0 : α)⟩, ⟨(0 : α), (0 : α), (0 : α)⟩, (8209 : Int))
  else
    (true, ⟨(t36).x, (t36).y, (t36).z⟩, ⟨(t40).x, (t40).y, (t40).z⟩, ⟨(t84).x, (t84).y, (t84).z⟩, ⟨m.x30, m.x31, m.x32⟩, (8209 : Int))

/-- extracted from the C++ template at T = Sym; 2 path(s) -/
def M44.extractSHRTOrd_ZXZ {α : Type} [Add α] [Sub α] [Mul α] [Div α] [Neg α] [LT α] [LE α] [DecidableLT α] [DecidableLE α] [DecidableEq α] [OfNat α 0] [OfNat α 1] [OfNat α 2] (tmin : α) (tmax : α) (sqrt : α → α) (sin : α → α) (cos : α → α) (atan2 : α → α → α) (m : M44 α) : (Bool × (V3 α) × (V3 α) × (V3 α) × (V3 α)) :=
  let t18 := (SHRT.ear44Flag tmin tmax sqrt ⟨m.x00, m.x01, m.x02, m.x03, m.x10, m.x11, m.x12, m.x13, m.x20, m.x21, m.x22, m.x23, m.x30, m.x31, m.x32, m.x33⟩)
  let t19 := (SHRT.ear44Mat tmin tmax sqrt ⟨m.x00, m.x01, m.x02, m.x03, m.x10, m.x11, m.x12, m.x13, m.x20, m.x21, m.x22, m.x23, m.x30, m.x31, m.x32, m.x33⟩)
  let t36 := (SHRT.ear44Scl tmin tmax sqrt ⟨m.x00, m.x01, m.x02, m.x03, m.x10, m.x11, m.x12, m.x13, m.x20, m.x21, m.x22, m.x23, m.x30, m.x31, m.x32, m.x33⟩)
  let t40 := (SHRT.ear44Shr tmin tmax sqrt ⟨m.x00, m.x01, m.x02, m.x03, m.x10, m.x11, m.x12, m.x13, m.x20, m.x21, m.x22, m.x23, m.x30, m.x31, m.x32, m.x33⟩)
  let t44 := (M44.extractEulerXYZ tmin tmax sqrt sin cos atan2 ⟨(t19).x00, (t19).x01, (t19).x02, (t19).x03, (t19).x10, (t19).x11, (t19).x12, (t19).x13, (t19).x20, (t19).x21, (t19).x22, (t19).x23, (t19).x30, (t19).x31, (t19).x32, (t19).x33⟩)
  let t88 := (M44.reorderFromXYZ_ZXZ sqrt sin cos atan2 ⟨(t44).x, (t44).y, (t44).z⟩)
  if t18 = (0 : α) then
    (false, ⟨(0 : α), (0 : α), (0 : α)⟩, ⟨(0 : α), (0 : α), (0 : α)⟩, ⟨(0 : α), (0 : α), (0 : α)⟩, ⟨(0 : α), (0 : α), (0 : α)⟩)
  else
    (true, ⟨(t36).x, (t36).y, (t36).z⟩, ⟨(t40).x, (t40).y, (t40).z⟩, ⟨(t88).y, (t88).z, (t88).x⟩, ⟨m.x30, m.x31, m.x32⟩)

/-- extracted from the C++ template at T = Sym; 2 path(s) -/
def M44.extractSHRTEuler_ZXZ {α : Type} [Add α] [Sub α] [Mul α] [Div α] [Neg α] [LT α] [LE α] [DecidableLT α] [DecidableLE α] [DecidableEq α] [OfNat α 0] [OfNat α 1] [OfNat α 2] (tmin : α) (tmax : α) (sqrt : α → α) (sin : α → α) (cos : α → α) (atan2 : α → α → α) (m : M44 α) : (Bool × (V3 α) × (V3 α) × (V3 α) × (V3 α) × Int) :=
  let t18 := (SHRT.ear44Flag tmin tmax sqrt ⟨m.x00, m.x01, m.x02, m.x03, m.x10, m.x11, m.x12, m.x13, m.x20, m.x21, m.x22, m.x23, m.x30, m.x31, m.x32, m.x33⟩)
  let t19 := (SHRT.ear44Mat tmin tmax sqrt ⟨m.x00, m.x01, m.x02, m.x03, m.x10, m.x11, m.x12, m.x13, m.x20, m.x21, m.x22, m.x23, m.x30, m.x31, m.x32, m.x33⟩)
  let t36 := (SHRT.ear44Scl tmin tmax sqrt ⟨m.x00, m.x01, m.x02, m.x03, m.x10, m.x11, m.x12, m.x13, m.x20, m.x21, m.x22, m.x23, m.x30, m.x31, m.x32, m.x33⟩)
  let t40 := (SHRT.ear44Shr tmin tmax sqrt ⟨m.x00, m.x01, m.x02, m.x03, m.x10, m.x11, m.x12, m.x13, m.x20, m.x21, m.x22, m.x23, m.x30, m.x31, m.x32, m.x33⟩)
  let t44 := (M44.extractEulerXYZ tmin tmax sqrt sin cos atan2 ⟨(t19).x00, (t19).x01, (t19).x02, (t19).x03, (t19).x10, (t19).x11, (t19).x12, (t19).x13, (t19).x20, (t19).x21, (t19).x22, (t19).x23, (t19).x30, (t19).x31, (t19).x32, (t19).x33⟩)
  let t88 := (M44.reorderFromXYZ_ZXZ sqrt sin cos atan2 ⟨(t44).x, (t44).y, (t44).z⟩)
  if t18 = (0 : α) then
    (false, ⟨(0 : α), (0 : α), (0 : α)⟩, ⟨(0 : α), (0 : α), (0 : α)⟩, ⟨(0 : α), (0 : α), (0 : α)⟩, ⟨(0 : α), (0 : α), (0 : α)⟩, (8465 : Int))
  else
    (true, ⟨(t36).x, (t36).y, (t36).z⟩, ⟨(t40).x, (t40).y, (t40).z⟩, ⟨(t88).x, (t88).y, (t88).z⟩, ⟨m.x30, m.x31, m.x32⟩, (8465 : Int))

/-- extracted from the C++ template at T = Sym; 2 path(s) -/
def M44.extractSHRTOrd_XYZr {α : Type} [Add α] [Sub α] [Mul α] [Div α] [Neg α] [LT α] [LE α] [DecidableLT α] [DecidableLE α] [DecidableEq α] [OfNat α 0] [OfNat α 1] [OfNat α 2] (tmin : α) (tmax : α) (sqrt : α → α) (sin : α → α) (cos : α → α) (atan2 : α → α → α) (m : M44 α) : (Bool × (V3 α) × (V3 α) × (V3 α) × (V3 α)) :=
  let t18 := (SHRT.ear44Flag tmin tmax sqrt ⟨m.x00, m.x01, m.x02, m.x03, m.x10, m.x11, m.x12, m.x13, m.x20, m.x21, m.x22, m.x23, m.x30, m.x31, m.x32, m.x33⟩)
  let t19 := (SHRT.ear44Mat tmin tmax sqrt ⟨m.x00, m.x01, m.x02, m.x03, m.x10, m.x11, m.x12, m.x13, m.x20, m.x21, m.x22, m.x23, m.x30, m.x31, m.x32, m.x33⟩)
  let t36 := (SHRT.ear44Scl tmin tmax sqrt ⟨m.x00, m.x01, m.x02, m.x03, m.x10, m.x11, m.x12, m.x13, m.x20, m.x21, m.x22, m.x23, m.x30, m.x31, m.x32, m.x33⟩)
  let t40 := (SHRT.ear44Shr tmin tmax sqrt ⟨m.x00, m.x01, m.x02, m.x03, m.x10, m.x11, m.x12, m.x13, m.x20, m.x21, m.x22, m.x23, m.x30, m.x31, m.x32, m.x33⟩)
  let t44 := (M44.extractEulerXYZ tmin tmax sqrt sin cos atan2 ⟨(t19).x00, (t19).x01, (t19).x02, (t19).x03, (t19).x10, (t19).x11, (t19).x12, (t19).x13, (t19).x20, (t19).x21, (t19).x22, (t19).x23, (t19).x30, (t19).x31, (t19).x32, (t19).x33⟩)
  let t92 := (M44.reorderFromXYZ_XYZr sqrt sin cos atan2 ⟨(t44).x, (t44).y, (t44).z⟩)
  if t18 = (0 : α) then
    (false, ⟨(0 : α), (0 : α), (0 : α)⟩, ⟨(0 : α), (0 : α), (0 : α)⟩, ⟨(0 : α), (0 : α), (0 : α)⟩, ⟨(0 : α), (0 : α), (0 : α)⟩)
  else
    (true, ⟨(t36).x, (t36).y, (t36).z⟩, ⟨(t40).x, (t40).y, (t40).z⟩, ⟨(t92).z, (t92).y, (t92).x⟩, ⟨m.x30, m.x31, m.x32⟩)

/-- extracted from the C++ template at T = Sym; 2 path(s) -/
def M44.extractSHRTEuler_XYZr {α : Type} [Add α] [Sub α] [Mul α] [Div α] [Neg α] [LT α] [LE α] [DecidableLT α] [DecidableLE α] [DecidableEq α] [OfNat α 0] [OfNat α 1] [OfNat α 2] (tmin : α) (tmax : α) (sqrt : α → α) (sin : α → α) (cos : α → α) (atan2 : α → α → α) (m : M44 α) : (Bool × (V3 α) × (V3 α) × (V3 α) × (V3 α) × Int) :=
  let t18 := (SHRT.ear44Flag tmin tmax sqrt ⟨m.x00, m.x01, m.x02, m.x03, m.x10, m.x11, m.x12, m.x13, m.x20, m.x21, m.x22, m.x23, m.x30, m.x31, m.x32, m.x33⟩)
  let t19 := (SHRT.ear44Mat tmin tmax sqrt ⟨m.x00, m.x01, m.x02, m.x03, m.x10, m.x11, m.x12, m.x13, m.x20, m.x21, m.x22, m.x23, m.x30, m.x31, m.x32, m.x33⟩)
  let t36 := (SHRT.ear44Scl tmin tmax sqrt ⟨m.x00, m.x01, m.x02, m.x03, m.x10, m.x11, m.x12, m.x13, m.x20, m.x21, m.x22, m.x23, m.x30, m.x31, m.x32, m.x33⟩)
  let t40 := (SHRT.ear44Shr tmin tmax sqrt ⟨m.x00, m.x01, m.x02, m.x03, m.x10, m.x11, m.x12, m.x13, m.x20, m.x21, m.x22, m.x23, m.x30, m.x31, m.x32, m.x33⟩)
  let t44 := (M44.extractEulerXYZ tmin tmax sqrt sin cos atan2 ⟨(t19).x00, (t19).x01, (t19).x02, (t19).x03, (t19).x10, (t19).x11, (t19).x12, (t19).x13, (t19).x20, (t19).x21, (t19).x22, (t19).x23, (t19).x30, (t19).x31, (t19).x32, (t19).x33⟩)
  let t92 := (M44.reorderFromXYZ_XYZr sqrt sin cos atan2 ⟨(t44).x, (t44).y, (t44).z⟩)
  if t18 = (0 : α) then
    (false, ⟨(0 : α), (0 : α), (0 : α)⟩, ⟨(0 : α), (0 : α), (0 : α)⟩, ⟨(0 : α), (0 : α), (0 : α)⟩, ⟨(0 : α), (0 : α), (0 : α)⟩, (8192 : Int))
  else
    (true, ⟨(t36).x, (t36).y, (t36).z⟩, ⟨(t40).x, (t40).y, (t40).z⟩, ⟨(t92).x, (t92).y, (t92).z⟩, ⟨m.x30, m.x31, m.x32⟩, (8192 : Int))

/-- extracted from the C++ template at T = Sym; 2 path(s) -/
def M44.extractSHRTOrd_XZYr {α : Type} [Add α] [Sub α] [Mul α] [Div α] [Neg α] [LT α] [LE α] [DecidableLT α] [DecidableLE α] [DecidableEq α] [OfNat α 0] [OfNat α 1] [OfNat α 2] (tmin : α) (tmax : α) (sqrt : α → α) (sin : α → α) (cos : α → α) (atan2 : α → α → α) (m : M44 α) : (Bool × (V3 α) × (V3 α) × (V3 α) × (V3 α)) :=
  let t18 := (SHRT.ear44Flag tmin tmax sqrt ⟨m.x00, m.x01, m.x02, m.x03, m.x10, m.x11, m.x12, m.x13, m.x20, m.x21, m.x22, m.x23, m.x30, m.x31, m.x32, m.x33⟩)
  let t19 := (SHRT.ear44Mat tmin tmax sqrt ⟨m.x00, m.x01, m.x02, m.x03, m.x10, m.x11, m.x12, m.x13, m.x20, m.x21, m.x22, m.x23, m.x30, m.x31, m.x32, m.x33⟩)
  let t36 := (SHRT.ear44Scl tmin tmax sqrt ⟨m.x00, m.x01, m.x02, m.x03, m.x10, m.x11, m.x12, m.x13, m.x20, m.x21, m.x22, m.x23, m.x30, m.x31, m.x32, m.x33⟩)
  let t40 := (SHRT.ear44Shr tmin tmax sqrt ⟨m.x00, m.x01, m.x02, m.x03, m.x10, m.x11, m.x12, m.x13, m.x20, m.x21, m.x22, m.x23, m.x30, m.x31, m.x32, m.x33⟩)
  let t44 := (M44.extractEulerXYZ tmin tmax sqrt sin cos atan2 ⟨(t19).x00, (t19).x01, (t19).x02, (t19).x03, (t19).x10, (t19).x11, (t19).x12, (t19).x13, (t19).x20, (t19).x21, (t19).x22, (t19).x23, (t19).x30, (t19).x31, (t19).x32, (t19).x33⟩)
  let t96 := (M44.reorderFromXYZ_XZYr sqrt sin cos atan2 ⟨(t44).x, (t44).y, (t44).z⟩)
  if t18 = (0 : α) then
    (false, ⟨(0 : α), (0 : α), (0 : α)⟩, ⟨(0 : α), (0 : α), (0 : α)⟩, ⟨(0 : α), (0 : α), (0 : α)⟩, ⟨(0 : α), (0 : α), (0 : α)⟩)
  else
    (true, ⟨(t36).x, (t36).y, (t36).z⟩, ⟨(t40).x, (t40).y, (t40).z⟩, ⟨(t96).y, (t96).z, (t96).x⟩, ⟨m.x30, m.x31, m.x32⟩)

/-- extracted from the C++ template at T = Sym; 2 path(s) -/
def M44.extractSHRTEuler_XZYr {α : Type} [Add α] [Sub α] [Mul α] [Div α] [Neg α] [LT α] [LE α] [DecidableLT α] [DecidableLE α] [DecidableEq α] [OfNat α 0] [OfNat α 1] [OfNat α 2] (tmin : α) (tmax : α) (sqrt : α → α) (sin : α → α) (cos : α → α) (atan2 : α → α → α) (m : M44 α) : (Bool × (V3 α) × (V3 α) × (V3 α) × (V3 α) × Int) :=
  let t18 := (SHRT.ear44Flag tmin tmax sqrt ⟨m.x00, m.x01, m.x02, m.x03, m.x10, m.x11, m.x12, m.x13, m.x20, m.x21, m.x22, m.x23, m.x30, m.x31, m.x32, m.x33⟩)
  let t19 := (SHRT.ear44Mat tmin tmax sqrt ⟨m.x00, m.x01, m.x02, m.x03, m.x10, m.x11, m.x12, m.x13, m.x20, m.x21, m.x22, m.x23, m.x30, m.x31, m.x32, m.x33⟩)
  let t36 := (SHRT.ear44Scl tmin tmax sqrt ⟨m.x00, m.x01, m.x02, m.x03, m.x10, m.x11, m.x12, m.x13, m.x20, m.x21, m.x22, m.x23, m.x30, m.x31, m.x32, m.x33⟩)
  let t40 := (SHRT.ear44Shr tmin tmax sqrt ⟨m.x00, m.x01, m.x02, m.x03, m.x10, m.x11, m.x12, m.x13, m.x20, m.x21, m.x22, m.x23, m.x30, m.x31, m.x32, m.x33⟩)
  let t44 := (M44.extractEulerXYZ tmin tmax sqrt sin cos atan2 ⟨(t19).x00, (t19).x01, (t19).x02, (t19).x03, (t19).x10, (t19).x11, (t19).x12, (t19).x13, (t19).x20, (t19).x21, (t19).x22, (t19).x23, (t19).x30, (t19).x31, (t19).x32, (t19).x33⟩)
  let t96 := (M44.reorderFromXYZ_XZYr sqrt sin cos atan2 ⟨(t44).x, (t44).y, (t44).z⟩)
  if t18 = (0 : α) then
    (false, ⟨(0 : α), (0 : α), (0 : α)⟩, ⟨(0 : α), (0 : α), (0 : α)⟩, ⟨(0 : α), (0 : α), (0 : α)⟩, ⟨(0 : α), (0 : α), (0 : α)⟩, (8448 : Int))
  else
    (true, ⟨(t36).x, (t36).y, (t36).z⟩, ⟨(t40).x, (t40).y, (t40).z⟩, ⟨(t96).x, (t96).y, (t96).z⟩, ⟨m.x30, m.x31, m.x32⟩, (8448 : Int))

/-- extracted from the C++ template at T = Sym; 2 path(s) -/
def M44.extractSHRTOrd_YZXr {α : Type} [Add α] [Sub α] [Mul α] [Div α] [Neg α] [LT α] [LE α] [DecidableLT α] [DecidableLE α] [DecidableEq α] [OfNat α 0] [OfNat α 1] [OfNat α 2] (tmin : α) (tmax : α) (sqrt : α → α) (sin : α → α) (cos : α → α) (atan2 : α → α → α) (m : M44 α) : (Bool × (V3 α) × (V3 α) × (V3 α) × (V3 α)) :=
  let t18 := (SHRT.ear44Flag tmin tmax sqrt ⟨m.x00, m.x01, m.x02, m.x03, m.x10, m.x11, m.x12, m.x13, m.x20, m.x21, m.x22, m.x23, m.x30, m.x31, m.x32, m.x33⟩)
  let t19 := (SHRT.ear44Mat tmin tmax sqrt ⟨m.x00, m.x01, m.x02, m.x03, m.x10, m.x11, m.x12, m.x13, m.x20, m.x21, m.x22, m.x23, m.x30, m.x31, m.x32, m.x33⟩)
  let t36 := (SHRT.ear44Scl tmin tmax sqrt ⟨m.x00, m.x01, m.x02, m.x03, m.x10, m.x11, m.x12, m.x13, m.x20, m.x21, m.x22, m.x23, m.x30, m.x31, m.x32, m.x33⟩)
  let t40 := (SHRT.ear44Shr tmin tmax sqrt ⟨m.x00, m.x01, m.x02, m.x03, m.x10, m.x11, m.x12, m.x13, m.x20, m.x21, m.x22, m.x23, m.x30, m.x31, m.x32, m.x33⟩)
  let t44 := (M44.extractEulerXYZ tmin tmax sqrt sin cos atan2 ⟨(t19).x00, (t19).x01, (t19).x02, (t19).x03, (t19).x10, (t19).x11, (t19).x12, (t19).x13, (t19).x20, (t19).x21, (t19).x22, (t19).x23, (t19).x30, (t19).x31, (t19).x32, (t19).x33⟩)
  let t100 := (M44.reorderFromXYZ_YZXr sqrt sin cos atan2 ⟨(t44).x, (t44).y, (t44).z⟩)
  if t18 = (0 : α) then
    (false, ⟨(0 : α), (0 : α), (0 : α)⟩, ⟨(0 : α), (0 : α), (0 : α)⟩, ⟨(0 : α), (0 : α), (0 : α)⟩, ⟨(0 : α), (0 : α), (0 : α)⟩)
  else
    (true, ⟨(t36).x, (t36).y, (t36).z⟩, ⟨(t40).x, (t40).y, (t40).z⟩, ⟨(t100).y, (t100).x, (t100).z⟩, ⟨m.x30, m.x31, m.x32⟩)

/-- extracted from the C++ template at T = Sym; 2 path(s) -/
def M44.extractSHRTEuler_YZXr {α : Type} [Add α] [Sub α] [Mul α] [Div α] [Neg α] [LT α] [LE α] [DecidableLT α] [DecidableLE α] [DecidableEq α] [OfNat α 0] [OfNat α 1] [OfNat α 2] (tmin : α) (tmax : α) (sqrt : α → α) (sin : α → α) (cos : α → α) (atan2 : α → α → α) (m : M44 α) : (Bool × (V3 α) × (V3 α) × (V3 α) × (V3 α) × Int) :=
  let t18 := (SHRT.ear44Flag tmin tmax sqrt ⟨m.x00, m.x01, m.x02, m.x03, m.x10, m.x11, m.x12, m.x13, m.x20, m.x21, m.x22, m.x23, m.x30, m.x31, m.x32, m.x33⟩)
  let t19 := (SHRT.ear44Mat tmin tmax sqrt ⟨m.x00, m.x01, m.x02, m.x03, m.x10, m.x11, m.x12, m.x13, m.x20, m.x21, m.x22, m.x23, m.x30, m.x31, m.x32, m.x33⟩)
  let t36 := (SHRT.ear44Scl tmin tmax sqrt ⟨m.x00, m.x01, m.x02, m.x03, m.x10, m.x11, m.x12, m.x13, m.x20, m.x21, m.x22, m.x23, m.x30, m.x31, m.x32, m.x33⟩)
  let t40 := (SHRT.ear44Shr tmin tmax sqrt ⟨m.x00, m.x01, m.x02, m.x03, m.x10, m.x11, m.x12, m.x13, m.x20, m.x21, m.x22, m.x23, m.x30, m.x31, m.x32, m.x33⟩)
  let t44 := (M44.extractEulerXYZ tmin tmax sqrt sin cos atan2 ⟨(t19).x00, (t19).x01, (t19).x02, (t19).x03, (t19).x10, (t19).x11, (t19).x12, (t19).x13, (t19).x20, (t19).x21, (t19).x22, (t19).x23, (t19).x30, (t19).x31, (t19).x32, (t19).x33⟩)
  let t100 := (M44.reorderFromXYZ_YZXr sqrt sin cos atan2 ⟨(t44).x, (t44).y, (t44).z⟩)
  if t18 = (0 : α) then
    (false, ⟨(0 : α), (0 : α), (0 : α)⟩, ⟨(0 : α), (0 : α), (0 : α)⟩, ⟨(0 : α), (0 : α), (0 : α)⟩, ⟨(0 : α), (0 : α), (0 : α)⟩, (4096 : Int))
  else
    (true, ⟨(t36).x, (t36).y, (t36).z⟩, ⟨(t40).x, (t40).y, (t40).z⟩, ⟨(t100).x, (t100).y, (t100).z⟩, ⟨m.x30, m.x31, m.x32⟩, (4096 : Int))

/-- extracted from the C++ template at T = Sym; 2 path(s) -/
def M44.extractSHRTOrd_YXZr {α : Type} [Add α] [Sub α] [Mul α] [Div α] [Neg α] [LT α] [LE α] [DecidableLT α] [DecidableLE α] [DecidableEq α] [OfNat α 0] [OfNat α 1] [OfNat α 2] (tmin : α) (tmax : α) (sqrt : α → α) (sin : α → α) (cos : α → α) (atan2 : α → α → α) (m : M44 α) : (Bool × (V3 α) × (V3 α) × (V3 α) × (V3 α)) :=
  let t18 := (SHRT.ear44Flag tmin tmax sqrt ⟨m.x00, m.x01, m.x02, m.x03, m.x10, m.x11, m.x12, m.x13, m.x20, m.x21, m.x22, m.x23, m.x30, m.x31, m.x32, m.x33⟩)
  let t19 := (SHRT.ear44Mat tmin tmax sqrt ⟨m.x00, m.x01, m.x02, m.x03, m.x10, m.x11, m.x12, m.x13, m.x20, m.x21, m.x22, m.x23, m.x30, m.x31, m.x32, m.x33⟩)
  let t36 := (SHRT.ear44Scl tmin tmax sqrt ⟨m.x00, m.x01, m.x02, m.x03, m.x10, m.x11, m.x12, m.x13, m.x20, m.x21, m.x22, m.x23, m.x30, m.x31, m.x32, m.x33⟩)
  let t40 := (SHRT.ear44Shr tmin tmax sqrt ⟨m.x00, m.x01, m.x02, m.x03, m.x10, m.x11, m.x12, m.x13, m.x20, m.x21, m.x22, m.x23, m.x30, m.x31, m.x32, m.x33⟩)
  let t44 := (M44.extractEulerXYZ tmin tmax sqrt sin cos atan2 ⟨(t19).x00, (t19).x01, (t19).x02, (t19).x03, (t19).x10, (t19).x11, (t19).x12, (t19).x13, (t19).x20, (t19).x21, (t19).x22, (t19).x23, (t19).x30, (t19).x31, (t19).x32, (t19).x33⟩)
  let t104 := (M44.reorderFromXYZ_YXZr sqrt sin cos atan2 ⟨(t44).x, (t44).y, (t44).z⟩)
  if t18 = (0 : α) then
    (false, ⟨(0 : α), (0 : α), (0 : α)⟩, ⟨(0 : α), (0 : α), (0 : α)⟩, ⟨(0 : α), (0 : α), (0 : α)⟩, ⟨(0 : α), (0 : α), (0 : α)⟩)
  else
    (true, ⟨(t36).x, (t36).y, (t36).z⟩, ⟨(t40).x, (t40).y, (t40).z⟩, ⟨(t104).z, (t104).x, (t104).y⟩, ⟨m.x30, m.x31, m.x32⟩)

/-- extracted from the C++ template at T = Sym; 2 path(s) -/
def M44.extractSHRTEuler_YXZr {α : Type} [Add α] [Sub α] [Mul α] [Div α] [Neg α] [LT α] [LE α] [DecidableLT α] [DecidableLE α] [DecidableEq α] [OfNat α 0] [OfNat α 1] [OfNat α 2] (tmin : α) (tmax : α) (sqrt : α → α) (sin : α → α) (cos : α → α) (atan2 : α → α → α) (m : M44 α) : (Bool × (V3 α) × (V3 α) × (V3 α) × (V3 α) × Int) :=
  let t18 := (SHRT.ear44Flag tmin tmax sqrt ⟨m.x00, m.x01, m.x02, m.x03, m.x10, m.x11, m.x12, m.x13, m.x20, m.x21, m.x22, m.x23, m.x30, m.x31, m.x32, m.x33⟩)
  let t19 := (SHRT.ear44Mat tmin tmax sqrt ⟨m.x00, m.x01, m.x02, m.x03, m.x10, m.x11, m.x12, m.x13, m.x20, m.x21, m.x22, m.x23, m.x30, m.x31, m.x32, m.x33⟩)
  let t36 := (SHRT.ear44Scl tmin tmax sqrt ⟨m.x00, m.x01, m.x02, m.x03, m.x10, m.x11, m.x12, m.x13, m.x20, m.x21, m.x22, m.x23, m.x30, m.x31, m.x32, m.x33⟩)
  let t40 := (SHRT.ear44Shr tmin tmax sqrt ⟨m.x00, m.x01, m.x02, m.x03, m.x10, m.x11, m.x12, m.x13, m.x20, m.x21, m.x22, m.x23, m.x30, m.x31, m.x32, m.x33⟩)
  let t44 := (M44.extractEulerXYZ tmin tmax sqrt sin cos atan2 ⟨(t19).x00, (t19).x01, (t19).x02, (t19).x03, (t19).x10, (t19).x11, (t19).x12, (t19).x13, (t19).x20, (t19).x21, (t19).x22, (t19).x23, (t19).x30, (t19).x31, (t19).x32, (t19).x33⟩)
  let t104 := (M44.reorderFromXYZ_YXZr sqrt sin cos atan2 ⟨(t44).x, (t44).y, (t44).z⟩)
  if t18 = (0 : α) then
    (false, ⟨(0 : α), (0 : α), (0 : α)⟩, ⟨(0 : α), (0 : α), (0 : α)⟩, ⟨(0 : α), (0 : α), (0 : α)⟩, ⟨(0 : α), (0 : α), (0 : α)⟩, (4352 : Int))
  else
    (true, ⟨(t36).x, (t36).y, (t36).z⟩, ⟨(t40).x, (t40).y, (t40).z⟩, ⟨(t104).x, (t104).y, (t104).z⟩, ⟨m.x30, m.x31, m.x32⟩, (4352 : Int))

/-- extracted from the C++ template at T = Sym; 2 path(s) -/
def M44.extractSHRTOrd_ZXYr {α : Type} [Add α] [Sub α] [Mul α] [Div α] [Neg α] [LT α] [LE α] [DecidableLT α] [DecidableLE α] [DecidableEq α] [OfNat α 0] [OfNat α 1] [OfNat α 2] (tmin : α) (tmax : α) (sqrt : α → α) (sin : α → α) (cos : α → α) (atan2 : α → α → α) (m : M44 α) : (Bool × (V3 α) × (V3 α) × (V3 α) × (V3 α)) :=
  let t18 := (SHRT.ear44Flag tmin tmax sqrt ⟨m.x00, m.x01, m.x02, m.x03, m.x10, m.x11, m.x12, m.x13, m.x20, m.x21, m.x22, m.x23, m.x30, m.x31, m.x32, m.x33⟩)
  let t19 := (SHRT.ear44Mat tmin tmax sqrt ⟨m.x00, m.x01, m.x02, m.x03, m.x10, m.x11, m.x12, m.x13, m.x20, m.x21, m.x22, m.x23, m.x30, m.x31, m.x32, m.x33⟩)
  let t36 := (SHRT.ear44Scl tmin tmax sqrt ⟨m.x00, m.x01, m.x02, m.x03, m.x10, m.x11, m.x12, m.x13, m.x20, m.x21, m.x22, m.x23, m.x30, m.x31, m.x32, m.x33⟩)
  let t40 := (SHRT.ear44Shr tmin tmax sqrt ⟨m.x00, m.x01, m.x02, m.x03, m.x10, m.x11, m.x12, m.x13, m.x20, m.x21, m.x22, m.x23, m.x30, m.x31, m.x32, m.x33⟩)
  let t44 := (M44.extractEulerXYZ tmin tmax sqrt sin cos atan2 ⟨(t19).x00, (t19).x01, (t19).x02, (t19).x03, (t19).x10, (t19).x11, (t19).x12, (t19).x13, (t19).x20, (t19).x21, (t19).x22, (t19).x23, (t19).x30, (t19).x31, (t19).x32, (t19).x33⟩)
  let t108 := (M44.reorderFromXYZ_ZXYr sqrt sin cos atan2 ⟨(t44).x, (t44).y, (t44).z⟩)
  if t18 = (0 : α) then
    (false, ⟨(0 : α), (0 : α), (0 : α)⟩, ⟨(0 : α), (0 : α), (0 : α)⟩, ⟨(0 : α), (0 : α), (0 : α)⟩, ⟨(0 : α), (0 : α), (0 : α)⟩)
  else
    (true, ⟨(t36).x, (t36).y, (t36).z⟩, ⟨(t40).x, (t40).y, (t40).z⟩, ⟨(t108).x, (t108).z, (t108).y⟩, ⟨m.x30, m.x31, m.x32⟩)

/-- extracted from the C++ template at T = Sym; 2 path(s) -/
def M44.extractSHRTEuler_ZXYr {α : Type} [Add α] [Sub α] [Mul α] [Div α] [Neg α] [LT α] [LE α] [DecidableLT α] [DecidableLE α] [DecidableEq α] [OfNat α 0] [OfNat α 1] [OfNat α 2] (tmin : α) (tmax : α) (sqrt : α → α) (sin : α → α) (cos : α → α) (atan2 : α → α → α) (m : M44 α) : (Bool × (V3 α) × (V3 α) × (V3 α) × (V3 α) × Int) :=
  let t18 := (SHRT.ear44Flag tmin tmax sqrt ⟨m.x00, m.x01, m.x02, m.x03, m.x10, m.x11, m.x12, m.x13, m.x20, m.x21, m.x22, m.x23, m.x30, m.x31, m.x32, m.x33⟩)
  let t19 := (SHRT.ear44Mat tmin tmax sqrt ⟨m.x00, m.x01, m.x02, m.x03, m.x10, m.x11, m.x12, m.x13, m.x20, m.x21, m.x22, m.x23, m.x30, m.x31, m.x32, m.x33⟩)
  let t36 := (SHRT.ear44Scl tmin tmax sqrt ⟨m.x00, m.x01, m.x02, m.x03, m.x10, m.x11, m.x12, m.x13, m.x20, m.x21, m.x22, m.x23, m.x30, m.x31, m.x32, m.x33⟩)
  let t40 := (SHRT.ear44Shr tmin tmax sqrt ⟨m.x00, m.x01, m.x02, m.x03, m.x10, m.x11, m.x12, m.x13, m.x20, m.x21, m.x22, m.x23, m.x30, m.x31, m.x32, m.x33⟩)
  let t44 := (M44.extractEulerXYZ tmin tmax sqrt sin cos atan2 ⟨(t19).x00, (t19).x01, (t19).x02, (t19).x03, (t19).x10, (t19).x11, (t19).x12, (t19).x13, (t19).x20, (t19).x21, (t19).x22, (t19).x23, (t19).x30, (t19).x31, (t19).x32, (t19).x33⟩)
  let t108 := (M44.reorderFromXYZ_ZXYr sqrt sin cos atan2 ⟨(t44).x, (t44).y, (t44).z⟩)
  if t18 = (0 : α) then
    (false, ⟨(0 : α), (0 : α), (0 : α)⟩, ⟨(0 : α), (0 : α), (0 : α)⟩, ⟨(0 : α), (0 : α), (0 : α)⟩, ⟨(0 : α), (0 : α), (0 : α)⟩, (0 : Int))
  else
    (true, ⟨(t36).x, (t36).y, (t36).z⟩, ⟨(t40).x, (t40).y, (t40).z⟩, ⟨(t108).x, (t108).y, (t108).z⟩, ⟨m.x30, m.x31, m.x32⟩, (0 : Int))

/-- extracted from the C++ template at T = Sym; 2 path(s) -/
def M44.extractSHRTOrd_ZYXr {α : Type} [Add α] [Sub α] [Mul α] [Div α] [Neg α] [LT α] [LE α] [DecidableLT α] [DecidableLE α] [DecidableEq α] [OfNat α 0] [OfNat α 1] [OfNat α 2] (tmin : α) (tmax : α) (sqrt : α → α) (sin : α → α) (cos : α → α) (atan2 : α → α → α) (m : M44 α) : (Bool × (V3 α) × (V3 α) × (V3 α) × (V3 α)) :=
  let t18 := (SHRT.ear44Flag tmin tmax sqrt ⟨m.x00, m.x01, m.x02, m.x03, m.x10, m.x11, m.x12, m.x13, m.x20, m.x21, m.x22, m.x23, m.x30, m.x31, m.x32, m.x33⟩)
  let t19 := (SHRT.ear44Mat tmin tmax sqrt ⟨m.x00, m.x01, m.x02, m.x03, m.x10, m.x11, m.x12, m.x13, m.x20, m.x21, m.x22, m.x23, m.x30, m.x31, m.x32, m.x33⟩)
  let t36 := (SHRT.ear44Scl tmin tmax sqrt ⟨m.x00, m.x01, m.x02, m.x03, m.x10, m.x11, m.x12, m.x13, m.x20, m.x21, m.x22, m.x23, m.x30, m.x31, m.x32, m.x33⟩)
  let t40 := (SHRT.ear44Shr tmin tmax sqrt ⟨m.x00, m.x01, m.x02, m.x03, m.x10, m.x11, m.x12, m.x13, m.x20, m.x21, m.x22, m.x23, m.x30, m.x31, m.x32, m.x33⟩)
  let t44 := (M44.extractEulerXYZ tmin tmax sqrt sin cos atan2 ⟨(t19).x00, (t19).x01, (t19).x02, (t19).x03, (t19).x10, (t19).x11, (t19).x12, (t19).x13, (t19).x20, (t19).x21, (t19).x22, (t19).x23, (t19).x30, (t19).x31, (t19).x32, (t19).x33⟩)
  let t112 := (M44.reorderFromXYZ_ZYXr sqrt sin cos atan2 ⟨(t44).x, (t44).y, (t44).z⟩)
  if t18 = (0 : α) then
    (false, ⟨(0 : α), (0 : α), (0 : α)⟩, ⟨(0 : α), (0 : α), (0 : α)⟩, ⟨(0 : α), (0 : α), (0 : α)⟩, ⟨(0 : α), (0 : α), (0 : α)⟩)
  else
    (true, ⟨(t36).x, (t36).y, (t36).z⟩, ⟨(t40).x, (t40).y, (t40).z⟩, ⟨(t112).x, (t112).y, (t112).z⟩, ⟨m.x30, m.x31, m.x32⟩)

/-- extracted from the C++ template at T = Sym; 2 path(s) -/
def M44.extractSHRTEuler_ZYXr {α : Type} [Add α] [Sub α] [Mul α] [Div α] [Neg α] [LT α] [LE α] [DecidableLT α] [DecidableLE α] [DecidableEq α] [OfNat α 0] [OfNat α 1] [OfNat α 2] (tmin : α) (tmax : α) (sqrt : α → α) (sin : α → α) (cos : α → α) (atan2 : α → α → α) (m : M44 α) : (Bool × (V3 α) × (V3 α) × (V3 α) × (V3 α) × Int) :=
  let t18 := (SHRT.ear44Flag tmin tmax sqrt ⟨m.x00, m.x01, m.x02, m.x03, m.x10, m.x11, m.x12, m.x13, m.x20, m.x21, m.x22, m.x23, m.x30, m.x31, m.x32, m.x33⟩)
  let t19 := (SHRT.ear44Mat tmin tmax sqrt ⟨m.x00, m.x01, m.x02, m.x03, m.x10, m.x11, m.x12, m.x13, m.x20, m.x21, m.x22, m.x23, m.x30, m.x31, m.x32, m.x33⟩)
  let t36 := (SHRT.ear44Scl tmin tmax sqrt ⟨m.x00, m.x01, m.x02, m.x03, m.x10, m.x11, m.x12, m.x13, m.x20, m.x21, m.x22, m.x23, m.x30, m.x31, m.x32, m.x33⟩)
  let t40 := (SHRT.ear44Shr tmin tmax sqrt ⟨m.x00, m.x01, m.x02, m.x03, m.x10, m.x11, m.x12, m.x13, m.x20, m.x21, m.x22, m.x23, m.x30, m.x31, m.x32, m.x33⟩)
  let t44 := (M44.extractEulerXYZ tmin tmax sqrt sin cos atan2 ⟨(t19).x00, (t19).x01, (t19).x02, (t19).x03, (t19).x10, (t19).x11, (t19).x12, (t19).x13, (t19).x20, (t19).x21, (t19).x22, (t19).x23, (t19).x30, (t19).x31, (t19).x32, (t19).x33⟩)
  let t112 := (M44.reorderFromXYZ_ZYXr sqrt sin cos atan2 ⟨(t44).x, (t44).y, (t44).z⟩)
  if t18 = (0 : α) then
    (false, ⟨(0 : α), (0 : α), (0 : α)⟩, ⟨(0 : α), (0 : α), (0 : α)⟩, ⟨(0 : α), (0 : α), (0 : α)⟩, ⟨(0 : α), (0 : α), (0 : α)⟩, (256 : Int))
  else
    (true, ⟨(t36).x, (t36).y, (t36).z⟩, ⟨(t40).x, (t40).y, (t40).z⟩, ⟨(t112).x, (t112).y, (t112).z⟩, ⟨m.x30, m.x31, m.x32⟩, (256 : Int))

/-- extracted from the C++ template at T = Sym; 2 path(s) -/
def M44.extractSHRTOrd_XZXr {α : Type} [Add α] [Sub α] [Mul α] [Div α] [Neg α] [LT α] [LE α] [DecidableLT α] [DecidableLE α] [DecidableEq α] [OfNat α 0] [OfNat α 1] [OfNat α 2] (tmin : α) (tmax : α) (sqrt : α → α) (sin : α → α) (cos : α → α) (atan2 : α → α → α) (m : M44 α) : (Bool × (V3 α) × (V3 α) × (V3 α) × (V3 α)) :=
  let t18 := (SHRT.ear44Flag tmin tmax sqrt ⟨m.x00, m.x01, m.x02, m.x03, m.x10, m.x11, m.x12, m.x13, m.x20, m.x21, m.x22, m.x23, m.x30, m.x31, m.x32, m.x33⟩)
  let t19 := (SHRT.ear44Mat tmin tmax sqrt ⟨m.x00, m.x01, m.x02, m.x03, m.x10, m.x11, m.x12, m.x13, m.x20, m.x21, m.x22, m.x23, m.x30, m.x31, m.x32, m.x33⟩)
  let t36 := (SHRT.ear44Scl tmin tmax sqrt ⟨m.x00, m.x01, m.x02, m.x03, m.x10, m.x11, m.x12, m.x13, m.x20, m.x21, m.x22, m.x23, m.x30, m.x31, m.x32, m.x33⟩)
  let t40 := (SHRT.ear44Shr tmin tmax sqrt ⟨m.x00, m.x01, m.x02, m.x03, m.x10, m.x11, m.x12, m.x13, m.x20, m.x21, m.x22, m.x23, m.x30, m.x31, m.x32, m.x33⟩)
  let t44 := (M44.extractEulerXYZ tmin tmax sqrt sin cos atan2 ⟨(t19).x00, (t19).x01, (t19).x02, (t19).x03, (t19).x10, (t19).x11, (t19).x12, (t19).x13, (t19).x20, (t19).x21, (t19).x22, (t19).x23, (t19).x30, (t19).x31, (t19).x32, (t19).x33⟩)
  let t116 := (M44.reorderFromXYZ_XZXr sqrt sin cos atan2 ⟨(t44).x, (t44).y, (t44).z⟩)
  if t18 = (0 : α) then
    (false, ⟨(0 : α), (0 : α), (0 : α)⟩, ⟨(0 : α), (0 : α), (0 : α)⟩, ⟨(0 : α), (0 : α), (0 : α)⟩, ⟨(0 : α), (0 : α), (0 : α)⟩)
  else
    (true, ⟨(t36).x, (t36).y, (t36).z⟩, ⟨(t40).x, (t40).y, (t40).z⟩, ⟨(t116).y, (t116).z, (t116).x⟩, ⟨m.x30, m.x31, m.x32⟩)

/-- extracted from the C++ template at T = Sym; 2 path(s) -/
def M44.extractSHRTEuler_XZXr {α : Type} [Add α] [Sub α] [Mul α] [Div α] [Neg α] [LT α] [LE α] [DecidableLT α] [DecidableLE α] [DecidableEq α] [OfNat α 0] [OfNat α 1] [OfNat α 2] (tmin : α) (tmax : α) (sqrt : α → α) (sin : α → α) (cos : α → α) (atan2 : α → α → α) (m : M44 α) : (Bool × (V3 α) × (V3 α) × (V3 α) × (V3 α) × Int) :=
  let t18 := (SHRT.ear44Flag tmin tmax sqrt ⟨m.x00, m.x01, m.x02, m.x03, m.x10, m.x11, m.x12, m.x13, m.x20, m.x21, m.x22, m.x23, m.x30, m.x31, m.x32, m.x33⟩)
  let t19 := (SHRT.ear44Mat tmin tmax sqrt ⟨m.x00, m.x01, m.x02, m.x03, m.x10, m.x11, m.x12, m.x13, m.x20, m.x21, m.x22, m.x23, m.x30, m.x31, m.x32, m.x33⟩)
  let t36 := (SHRT.ear44Scl tmin tmax sqrt ⟨m.x00, m.x01, m.x02, m.x03, m.x10, m.x11, m.x12, m.x13, m.x20, m.x21, m.x22, m.x23, m.x30, m.x31, m.x32, m.x33⟩)
  let t40 := (SHRT.ear44Shr tmin tmax sqrt ⟨m.x00, m.x01, m.x02, m.x03, m.x10, m.x11, m.x12, m.x13, m.x20, m.x21, m.x22, m.x23, m.x30, m.x31, m.x32, m.x33⟩)
  let t44 := (M44.extractEulerXYZ tmin tmax sqrt sin cos atan2 ⟨(t19).x00, (t19).x01, (t19).x02, (t19).x03, (t19).x10, (t19).x11, (t19).x12, (t19).x13, (t19).x20, (t19).x21, (t19).x22, (t19).x23, (t19).x30, (t19).x31, (t19).x32, (t19).x33⟩)
  let t116 := (M44.reorderFromXYZ_XZXr sqrt sin cos atan2 ⟨(t44).x, (t44).y, (t44).z⟩)
  if t18 = (0 : α) then
    (false, ⟨(0 : α), (0 : α), (0 : α)⟩, ⟨(0 : α), (0 : α), (0 : α)⟩, ⟨(0 : α), (0 : α), (0 : α)⟩, ⟨(0 : α), (0 : α), (0 : α)⟩, (8464 : Int))
  else
    (true, ⟨(t36).x, (t36).y, (t36).z⟩, ⟨(t40).x, (t40).y, (t40).z⟩, ⟨(t116).x, (t116).y, (t116).z⟩, ⟨m.x30, m.x31, m.x32⟩, (8464 : Int))

/-- extracted from the C++ template at T = Sym; 2 path(s) -/
def M44.extractSHRTOrd_XYXr {α : Type} [Add α] [Sub α] [Mul α] [Div α] [Neg α] [LT α] [LE α] [DecidableLT α] [DecidableLE α] [DecidableEq α] [OfNat α 0] [OfNat α 1] [OfNat α 2] (tmin : α) (tmax : α) (sqrt : α → α) (sin : α → α) (cos : α → α) (atan2 : α → α → α) (m : M44 α) : (Bool × (V3 α) × (V3 α) × (V3 α) × (V3 α)) :=
  let t18 := (SHRT.ear44Flag tmin tmax sqrt ⟨m.x00, m.x01, m.x02, m.x03, m.x10, m.x11, m.x12, m.x13, m.x20, m.x21, m.x22, m.x23, m.x30, m.x31, m.x32, m.x33⟩)
  let t19 := (SHRT.ear44Mat tmin tmax sqrt ⟨m.x00, m.x01, m.x02, m.x03, m.x10, m.x11, m.x12, m.x13, m.x20, m.x21, m.x22, m.x23, m.x30, m.x31, m.x32, m.x33⟩)
  let t36 := (SHRT.ear44Scl tmin tmax sqrt ⟨m.x00, m.x01, m.x02, m.x03, m.x10, m.x11, m.x12, m.x13, m.x20, m.x21, m.x22, m.x23, m.x30, m.x31, m.x32, m.x33⟩)
  let t40 := (SHRT.ear44Shr tmin tmax sqrt ⟨m.x00, m.x01, m.x02, m.x03, m.x10, m.x11, m.x12, m.x13, m.x20, m.x21, m.x22, m.x23, m.x30, m.x31, m.x32, m.x33⟩)
  let t44 := (M44.extractEulerXYZ tmin tmax sqrt sin cos atan2 ⟨(t19).x00, (t19).x01, (t19).x02, (t19).x03, (t19).x10, (t19).x11, (t19).x12, (t19).x13, (t19).x20, (t19).x21, (t19).x22, (t19).x23, (t19).x30, (t19).x31, (t19).x32, (t19).x33⟩)
  let t120 := (M44.reorderFromXYZ_XYXr sqrt sin cos atan2 ⟨(t44).x, (t44).y, (t44).z⟩)
  if t18 = (0 : α) then
    (false, ⟨(0 : α), (0 : α), (0 : α)⟩, ⟨(0 : α), (0 : α), (0 : α)⟩, ⟨(0 : α), (0 : α), (0 : α)⟩, ⟨(0 : α), (0 : α), (0 : α)⟩)
  else
    (true, ⟨(t36).x, (t36).y, (t36).z⟩, ⟨(t40).x, (t40).y, (t40).z⟩, ⟨(t120).z, (t120).y, (t120).x⟩, ⟨m.x30, m.x31, m.x32⟩)

/-- extracted from the C++ template at T = Sym; 2 path(s) -/
def M44.extractSHRTEuler_XYXr {α : Type} [Add α] [Sub α] [Mul α] [Div α] [Neg α] [LT α] [LE α] [DecidableLT α] [DecidableLE α] [DecidableEq α] [OfNat α 0] [OfNat α 1] [OfNat α 2] (tmin : α) (tmax : α) (sqrt : α → α) (sin : α → α) (cos : α → α) (atan2 : α → α → α) (m : M44 α) : (Bool × (V3 α) × (V3 α) × (V3 α) × (V3 α) × Int) :=
  let t18 := (SHRT.ear44Flag tmin tmax sqrt ⟨m.x00, m.x01, m.x02, m.x03, m.x10, m.x11, m.x12, m.x13, m.x20, m.x21, m.x22, m.x23, m.x30, m.x31, m.x32, m.x33⟩)
  let t19 := (SHRT.ear44Mat tmin tmax sqrt ⟨m.x00, m.x01, m.x02, m.x03, m.x10, m.x11, m.x12, m.x13, m.x20, m.x21, m.x22, m.x23, m.x30, m.x31, m.x32, m.x33⟩)
  let t36 := (SHRT.ear44Scl tmin tmax sqrt ⟨m.x00, m.x01, m.x02, m.x03, m.x10, m.x11, m.x12, m.x13, m.x20, m.x21, m.x22, m.x23, m.x30, m.x31, m.x32, m.x33⟩)
  let t40 := (SHRT.ear44Shr tmin tmax sqrt ⟨m.x00, m.x01, m.x02, m.x03, m.x10, m.x11, m.x12, m.x13, m.x20, m.x21, m.x22, m.x23, m.x30, m.x31, m.x32, m.x33⟩)
  let t44 := (M44.extractEulerXYZ tmin tmax sqrt sin cos atan2 ⟨(t19).x00, (t19).x01, (t19).x02, (t19).x03, (t19).x10, (t19).x11, (t19).x12, (t19).x13, (t19).x20, (t19).x21, (t19).x22, (t19).x23, (t19).x30, (t19).x31, (t19).x32, (t19).x33⟩)
  let t120 := (M44.reorderFromXYZ_XYXr sqrt sin cos atan2 ⟨(t44).x, (t44).y, (t44).z⟩)
  if t18 = (0 : α) then
    (false, ⟨(0 : α), (0 : α), (0 : α)⟩, ⟨(0 : α), (0 : α), (0 : α)⟩, ⟨(0 : α), (0 : α), (0 : α)⟩, ⟨(0 : α), (0 : α), (0 : α)⟩, (8208 : Int))
  else
    (true, ⟨(t36).x, (t36).y, (t36).z⟩, ⟨(t40).x, (t40).y, (t40).z⟩, ⟨(t120).x, (t120).y, (t120).z⟩, ⟨m.x30, m.x31, m.x32⟩, (8208 : Int))

/-- extracted from the C++ template at T = Sym; 2 path(s) -/
def M44.extractSHRTOrd_YXYr {α : Type} [Add α] [Sub α] [Mul α] [Div α] [Neg α] [LT α] [LE α] [DecidableLT α] [DecidableLE α] [DecidableEq α] [OfNat α 0] [OfNat α 1] [OfNat α 2] (tmin : α) (tmax : α) (sqrt : α → α) (sin : α → α) (cos : α → α) (atan2 : α → α → α) (m : M44 α) : (Bool × (V3 α) × (V3 α) × (V3 α) × (V3 α)) :=
  let t18 := (SHRT.ear44Flag tmin tmax sqrt ⟨m.x00, m.x01, m.x02, m.x03, m.x10, m.x11, m.x12, m.x13, m.x20, m.x21, m.x22, m.x23, m.x30, m.x31, m.x32, m.x33⟩)
  let t19 := (SHRT.ear44Mat tmin tmax sqrt ⟨m.x00, m.x01, m.x02, m.x03, m.x10, m.x11, m.x12, m.x13, m.x20, m.x21, m.x22, m.x23, m.x30, m.x31, m.x32, m.x33⟩)
  let t36 := (SHRT.ear44Scl tmin tmax sqrt ⟨m.x00, m.x01, m.x02, m.x03, m.x10, m.x11, m.x12, m.x13, m.x20, m.x21, m.x22, m.x23, m.x30, m.x31, m.x32, m.x33⟩)
  let t40 := (SHRT.ear44Shr tmin tmax sqrt ⟨m.x00, m.x01, m.x02, m.x03, m.x10, m.x11, m.x12, m.x13, m.x20, m.x21, m.x22, m.x23, m.x30, m.x31, m.x32, m.x33⟩)
  let t44 := (M44.extractEulerXYZ tmin tmax sqrt sin cos atan2 ⟨(t19).x00, (t19).x01, (t19).x02, (t19).x03, (t19).x10, (t19).x11, (t19).x12, (t19).x13, (t19).x20, (t19).x21, (t19).x22, (t19).x23, (t19).x30, (t19).x31, (t19).x32, (t19).x33⟩)
  let t124 := (M44.reorderFromXYZ_YXYr sqrt sin cos atan2 ⟨(t44).x, (t44).y, (t44).z⟩)
  if t18 = (0 : α) then
    (false, ⟨(0 : α), (0 : α), (0 : α)⟩, ⟨(0 : α), (0 : α), (0 : α)⟩, ⟨(0 : α), (0 : α), (0 : α)⟩, ⟨(0 : α), (0 : α), (0 : α)⟩)
  else
    (true, ⟨(t36).x, (t36).y, (t36).z⟩, ⟨(t40).x, (t40).y, (t40).z⟩, ⟨(t124).z, (t124).x, (t124).y⟩, ⟨m.x30, m.x31, m.x32⟩)

/-- extracted from the C++ template at T = Sym; 2 path(s) -/
def M44.extractSHRTEuler_YXYr {α : Type} [Add α] [Sub α] [Mul α] [Div α] [Neg α] [LT α] [LE α] [DecidableLT α] [DecidableLE α] [DecidableEq α] [OfNat α 0] [OfNat α 1] [OfNat α 2] (tmin : α) (tmax : α) (sqrt : α → α) (sin : α → α) (cos : α → α) (atan2 : α → α → α) (m : M44 α) : (Bool × (V3 α) × (V3 α) × (V3 α) × (V3 α) × Int) :=
  let t18 := (SHRT.ear44Flag tmin tmax sqrt ⟨m.x00, m.x01, m.x02, m.x03, m.x10, m.x11, m.x12, m.x13, m.x20, m.x21, m.x22, m.x23, m.x30, m.x31, m.x32, m.x33⟩)
  let t19 := (SHRT.ear44Mat tmin tmax sqrt ⟨m.x00, m.x01, m.x02, m.x03, m.x10, m.x11, m.x12, m.x13, m.x20, m.x21, m.x22, m.x23, m.x30, m.x31, m.x32, m.x33⟩)
  let t36 := (SHRT.ear44Scl tmin tmax sqrt ⟨m.x00, m.x01, m.x02, m.x03, m.x10, m.x11, m.x12, m.x13, m.x20, m.x21, m.x22, m.x23, m.x30, m.x31, m.x32, m.x33⟩)
  let t40 := (SHRT.ear44Shr tmin tmax sqrt ⟨m.x00, m.x01, m.x02, m.x03, m.x10, m.x11, m.x12, m.x13, m.x20, m.x21, m.x22, m.x23, m.x30, m.x31, m.x32, m.x33⟩)
  let t44 := (M44.extractEulerXYZ tmin tmax sqrt sin cos atan2 ⟨(t19).x00, (t19).x01, (t19).x02, (t19).x03, (t19).x10, (t19).x11, (t19).x12, (t19).x13, (t19).x20, (t19).x21, (t19).x22, (t19).x23, (t19).x30, (t19).x31, (t19).x32, (t19).x33⟩)
  let t124 := (M44.reorderFromXYZ_YXYr sqrt sin cos atan2 ⟨(t44).x, (t44).y, (t44).z⟩)
  if t18 = (0 : α) then
    (false, ⟨(0 : α), (0 : α), (0 : α)⟩, ⟨(0 : α), (0 : α), (0 : α)⟩, ⟨(0 : α), (0 : α), (0 : α)⟩, ⟨(0 : α), (0 : α), (0 : α)⟩, (4368 : Int))
  else
    (true, ⟨(t36).x, (t36).y, (t36).z⟩, ⟨(t40).x, (t40).y, (t40).z⟩, ⟨(t124).x, (t124).y, (t124).z⟩, ⟨m.x30, m.x31, m.x32⟩, (4368 : Int))

/-- extracted from the C++ template at T = Sym; 2 path(s) -/
def M44.extractSHRTOrd_YZYr {α : Type} [Add α] [Sub α] [Mul α] [Div α] [Neg α] [LT α] [LE α] [DecidableLT α] [DecidableLE α] [DecidableEq α] [OfNat α 0] [OfNat α 1] [OfNat α 2] (tmin : α) (tmax : α) (sqrt : α → α) (sin : α → α) (cos : α → α) (atan2 : α → α → α) (m : M44 α) : (Bool × (V3 α) × (V3 α) × (V3 α) × (V3 α)) :=
  let t18 := (SHRT.ear44Flag tmin tmax sqrt ⟨m.x00, m.x01, m.x02, m.x03, m.x10, m.x11, m.x12, m.x13, m.x20, m.x21, m.x22, m.x23, m.x30, m.x31, m.x32, m.x33⟩)
  let t19 := (SHRT.ear44Mat tmin tmax sqrt ⟨m.x00, m.x01, m.x02, m.x03, m.x10, m.x11, m.x12, m.x13, m.x20, m.x21, m.x22, m.x23, m.x30, m.x31, m.x32, m.x33⟩)
  let t36 := (SHRT.ear44Scl tmin tmax sqrt ⟨m.x00, m.x01, m.x02, m.x03, m.x10, m.x11, m.x12, m.x13, m.x20, m.x21, m.x22, m.x23, m.x30, m.x31, m.x32, m.x33⟩)
  let t40 := (SHRT.ear44Shr tmin tmax sqrt ⟨m.x00, m.x01, m.x02, m.x03, m.x10, m.x11, m.x12, m.x13, m.x20, m.x21, m.x22, m.x23, m.x30, m.x31, m.x32, m.x33⟩)
  let t44 := (M44.extractEulerXYZ tmin tmax sqrt sin cos atan2 ⟨(t19).x00, (t19).x01, (t19).x02, (t19).x03, (t19).x10, (t19).x11, (t19).x12, (t19).x13, (t19).x20, (t19).x21, (t19).x22, (t19).x23, (t19).x30, (t19).x31, (t19).x32, (t19).x33⟩)
  let t128 := (M44.reorderFromXYZ_YZYr sqrt sin cos atan2 ⟨(t44).x, (t44).y, (t44).z⟩)
  if t18 = (0 : α) then
    (false, ⟨(0 : α), (0 : α), (0 : α)⟩, ⟨(0 : α), (0 : α), (0 : α)⟩, ⟨(0 : α), (0 : α), (0 : α)⟩, ⟨(0 : α), (0 : α), (0 : α)⟩)
  else
    (true, ⟨(t36).x, (t36).y, (t36).z⟩, ⟨(t40).x, (t40).y, (t40).z⟩, ⟨(t128).y, (t128).x, (t128).z⟩, ⟨m.x30, m.x31, m.x32⟩)

/-- extracted from the C++ template at T = Sym; 2 path(s) -/
def M44.extractSHRTEuler_YZYr {α : Type} [Add α] [Sub α] [Mul α] [Div α] [Neg α] [LT α] [LE α] [DecidableLT α] [DecidableLE α] [DecidableEq α] [OfNat α 0] [OfNat α 1] [OfNat α 2] (tmin : α) (tmax : α) (sqrt : α → α) (sin : α → α) (cos : α → α) (atan2 : α → α → α) (m : M44 α) : (Bool × (V3 α) × (V3 α) × (V3 α) × (V3 α) × Int) :=
  let t18 := (SHRT.ear44Flag tmin tmax sqrt ⟨m.x00, m.x01, m.x02, m.x03, m.x10, m.x11, m.x12, m.x13, m.x20, m.x21, m.x22, m.x23, m.x30, m.x31, m.x32, m.x33⟩)
  let t19 := (SHRT.ear44Mat tmin tmax sqrt ⟨m.x00, m.x01, m.x02, m.x03, m.x10, m.x11, m.x12, m.x13, m.x20, m.x21, m.x22, m.x23, m.x30, m.x31, m.x32, m.x33⟩)
  let t36 := (SHRT.ear44Scl tmin tmax sqrt ⟨m.x00, m.x01, m.x02, m.x03, m.x10, m.x11, m.x12, m.x13, m.x20, m.x21, m.x22, m.x23, m.x30, m.x31, m.x32, m.x33⟩)
  let t40 := (SHRT.ear44Shr tmin tmax sqrt ⟨m.x00, m.x01, m.x02, m.x03, m.x10, m.x11, m.x12, m.x13, m.x20, m.x21, m.x22, m.x23, m.x30, m.x31, m.x32, m.x33⟩)
  let t44 := (M44.extractEulerXYZ tmin tmax sqrt sin cos atan2 ⟨(t19).x00, (t19).x01, (t19).x02, (t19).x03, (t19).x10, (t19).x11, (t19).x12, (t19).x13, (t19).x20, (t19).x21, (t19).x22, (t19).x23, (t19).x30, (t19).x31, (t19).x32, (t19).x33⟩)
  let t128 := (M44.reorderFromXYZ_YZYr sqrt sin cos atan2 ⟨(t44).x, (t44).y, (t44).z⟩)
  if t18 = (0 : α) then
    (false, ⟨(0 : α), (0 : α), (0 : α)⟩, ⟨(0 : α), (0 : α), (0 : α)⟩, ⟨(0 : α), (0 : α), (0 : α)⟩, ⟨(0 : α), (0 : α), (0 : α)⟩, (4112 : Int))
  else
    (true, ⟨(t36).x, (t36).y, (t36).z⟩, ⟨(t40).x, (t40).y, (t40).z⟩, ⟨(t128).x, (t128).y, (t128).z⟩, ⟨m.x30, m.x31, m.x32⟩, (4112 : Int))

/-- extracted from the C++ template at T = Sym; 2 path(s) -/
def M44.extractSHRTOrd_ZYZr {α : Type} [Add α] [Sub α] [Mul α] [Div α] [Neg α] [LT α] [LE α] [DecidableLT α] [DecidableLE α] [DecidableEq α] [OfNat α 0] [OfNat α 1] [OfNat α 2] (tmin : α) (tmax : α) (sqrt : α → α) (sin : α → α) (cos : α → α) (atan2 : α → α → α) (m : M44 α) : (Bool × (V3 α) × (V3 α) × (V3 α) × (V3 α)) :=
  let t18 := (SHRT.ear44Flag tmin tmax sqrt ⟨m.x00, m.x01, m.x02, m.x03, m.x10, m.x11, m.x12, m.x13, m.x20, m.x21, m.x22, m.x23, m.x30, m.x31, m.x32, m.x33⟩)
  let t19 := (SHRT.ear44Mat tmin tmax sqrt ⟨m.x00, m.x01, m.x02, m.x03, m.x10, m.x11, m.x12, m.x13, m.x20, m.x21, m.x22, m.x23, m.x30, m.x31, m.x32, m.x33⟩)
  let t36 := (SHRT.ear44Scl tmin tmax sqrt ⟨m.x00, m.x01, m.x02, m.x03, m.x10, m.x11, m.x12, m.x13, m.x20, m.x21, m.x22, m.x23, m.x30, m.x31, m.x32, m.x33⟩)
  let t40 := (SHRT.ear44Shr tmin tmax sqrt ⟨m.x00, m.x01, m.x02, m.x03, m.x10, m.x11, m.x12, m.x13, m.x20, m.x21, m.x22, m.x23, m.x30, m.x31, m.x32, m.x33⟩)
  let t44 := (M44.extractEulerXYZ tmin tmax sqrt sin cos atan2 ⟨(t19).x00, (t19).x01, (t19).x02, (t19).x03, (t19).x10, (t19).x11, (t19).x12, (t19).x13, (t19).x20, (t19).x21, (t19).x22, (t19).x23, (t19).x30, (t19).x31, (t19).x32, (t19).x33⟩)
  let t132 := (M44.reorderFromXYZ_ZYZr sqrt sin cos atan2 ⟨(t44).x, (t44).y, (t44).z⟩)
  if t18 = (0 : α) then
    (false, ⟨(0 : α), (0 : α), (0 : α)⟩, ⟨(0 : α), (0 : α), (0 : α)⟩, ⟨(0 : α), (0 : α), (0 : α)⟩, ⟨(0 : α), (0 : α), (0 : α)⟩)
  else
    (true, ⟨(t36).x, (t36).y, (t36).z⟩, ⟨(t40).x, (t40).y, (t40).z⟩, ⟨(t132).x, (t132).y, (t132).z⟩, ⟨m.x30, m.x31, m.x32⟩)

/-- extracted from the C++ template at T = Sym; 2 path(s) -/
def M44.extractSHRTEuler_ZYZr {α : Type} [Add α] [Sub α] [Mul α] [Div α] [Neg α] [LT α] [LE α] [DecidableLT α] [DecidableLE α] [DecidableEq α] [OfNat α 0] [OfNat α 1] [OfNat α 2] (tmin : α) (tmax : α) (sqrt : α → α) (sin : α → α) (cos : α → α) (atan2 : α → α → α) (m : M44 α) : (Bool × (V3 α) × (V3 α) × (V3 α) × (V3 α) × Int) :=
  let t18 := (SHRT.ear44Flag tmin tmax sqrt ⟨m.x00, m.x01, m.x02, m.x03, m.x10, m.x11, m.x12, m.x13, m.x20, m.x21, m.x22, m.x23, m.x30, m.x31, m.x32, m.x33⟩)
  let t19 := (SHRT.ear44Mat tmin tmax sqrt ⟨m.x00, m.x01, m.x02, m.x03, m.x10, m.x11, m.x12, m.x13, m.x20, m.x21, m.x22, m.x23, m.x30, m.x31, m.x32, m.x33⟩)
  let t36 := (SHRT.ear44Scl tmin tmax sqrt ⟨m.x00, m.x01, m.x02, m.x03, m.x10, m.x11, m.x12, m.x13, m.x20, m.x21, m.x22, m.x23, m.x30, m.x31, m.x32, m.x33⟩)
  let t40 := (SHRT.ear44Shr tmin tmax sqrt ⟨m.x00, m.x01, m.x02, m.x03, m.x10, m.x11, m.x12, m.x13, m.x20, m.x21, m.x22, m.x23, m.x30, m.x31, m.x32, m.x33⟩)
  let t44 := (M44.extractEulerXYZ tmin tmax sqrt sin cos atan2 ⟨(t19).x00, (t19).x01, (t19).x02, (t19).x03, (t19).x10, (t19).x11, (t19).x12, (t19).x13, (t19).x20, (t19).x21, (t19).x22, (t19).x23, (t19).x30, (t19).x31, (t19).x32, (t19).x33⟩)
  let t132 := (M44.reorderFromXYZ_ZYZr sqrt sin cos atan2 ⟨(t44).x, (t44).y, (t44).z⟩)
  if t18 = (0 : α) then
    (false, ⟨(0 : α), (0 : α), (0 : α)⟩, ⟨(0 : α), (0 : α), (0 : α)⟩, ⟨(0 : α), (0 : α), (0 : α)⟩, ⟨(0 : α), (0 : α), (0 : α)⟩, (272 : Int))
  else
    (true, ⟨(t36).x, (t36).y, (t36).z⟩, ⟨(t40).x, (t40).y, (t40).z⟩, ⟨(t132).x, (t132).y, (t132).z⟩, ⟨m.x30, m.x31, m.x32⟩, (272 : Int))

/-- extracted from the C++ template at T = Sym; 2 path(s) -/
def M44.extractSHRTOrd_ZXZr {α : Type} [Add α] [Sub α] [Mul α] [Div α] [Neg α] [LT α] [LE α] [DecidableLT α] [DecidableLE α] [DecidableEq α] [OfNat α 0] [OfNat α 1] [OfNat α 2] (tmin : α) (tmax : α) (sqrt : α → α) (sin : α → α) (cos : α → α) (atan2 : α → α → α) (m : M44 α) : (Bool × (V3 α) × (V3 α) × (V3 α) × (V3 α)) :=
  let t18 := (SHRT.ear44Flag tmin tmax sqrt ⟨m.x00, m.x01, m.x02, m.x03, m.x10, m.x11, m.x12, m.x13, m.x20, m.x21, m.x22, m.x23, m.x30, m.x31, m.x32, m.x33⟩)
  let t19 := (SHRT.ear44Mat tmin tmax sqrt ⟨m.x00, m.x01, m.x02, m.x03, m.x10, m.x11, m.x12, m.x13, m.x20, m.x21, m.x22, m.x23, m.x30, m.x31, m.x32, m.x33⟩)
  let t36 := (SHRT.ear44Scl tmin tmax sqrt ⟨m.x00, m.x01, m.x02, m.x03, m.x10, m.x11, m.x12, m.x13, m.x20, m.x21, m.x22, m.x23, m.x30, m.x31, m.x32, m.x33⟩)
  let t40 := (SHRT.ear44Shr tmin tmax sqrt ⟨m.x00, m.x01, m.x02, m.x03, m.x10, m.x11, m.x12, m.x13, m.x20, m.x21, m.x22, m.x23, m.x30, m.x31, m.x32, m.x33⟩)
  let t44 := (M44.extractEulerXYZ tmin tmax sqrt sin cos atan2 ⟨(t19).x00, (t19).x01, (t19).x02, (t19).x03, (t19).x10, (t19).x11, (t19).x12, (t19).x13, (t19).x20, (t19).x21, (t19).x22, (t19).x23, (t19).x30, (t19).x31, (t19).x32, (t19).x33⟩)
  let t136 := (M44.reorderFromXYZ_ZXZr sqrt sin cos atan2 ⟨(t44).x, (t44).y, (t44).z⟩)
  if t18 = (0 : α) then
    (false, ⟨(0 : α), (0 : α), (0 : α)⟩, ⟨(0 : α), (0 : α), (0 : α)⟩, ⟨(0 : α), (0 : α), (0 : α)⟩, ⟨(0 : α), (0 : α), (0 : α)⟩)
  else
    (true, ⟨(t36).x, (t36).y, (t36).z⟩, ⟨(t40).x, (t40).y, (t40).z⟩, ⟨(t136).x, (t136).z, (t136).y⟩, ⟨m.x30, m.x31, m.x32⟩)

/-- extracted from the C++ template at T = Sym; 2 path(s) -/
def M44.extractSHRTEuler_ZXZr {α : Type} [Add α] [Sub α] [Mul α] [Div α] [Neg α] [LT α] [LE α] [DecidableLT α] [DecidableLE α] [DecidableEq α] [OfNat α 0] [OfNat α 1] [OfNat α 2] (tmin : α) (tmax : α) (sqrt : α → α) (sin : α → α) (cos : α → α) (atan2 : α → α → α) (m : M44 α) : (Bool × (V3 α) × (V3 α) × (V3 α) × (V3 α) × Int) :=
  let t18 := (SHRT.ear44Flag tmin tmax sqrt ⟨m.x00, m.x01, m.x02, m.x03, m.x10, m.x11, m.x12, m.x13, m.x20, m.x21, m.x22, m.x23, m.x30, m.x31, m.x32, m.x33⟩)
  let t19 := (SHRT.ear44Mat tmin tmax sqrt ⟨m.x00, m.x01, m.x02, m.x03, m.x10, m.x11, m.x12, m.x13, m.x20, m.x21, m.x22, m.x23, m.x30, m.x31, m.x32, m.x33⟩)
  let t36 := (SHRT.ear44Scl tmin tmax sqrt ⟨m.x00, m.x01, m.x02, m.x03, m.x10, m.x11, m.x12, m.x13, m.x20, m.x21, m.x22, m.x23, m.x30, m.x31, m.x32, m.x33⟩)
  let t40 := (SHRT.ear44Shr tmin tmax sqrt ⟨m.x00, m.x01, m.x02, m.x03, m.x10, m.x11, m.x12, m.x13, m.x20, m.x21, m.x22, m.x23, m.x30, m.x31, m.x32, m.x33⟩)
  let t44 := (M44.extractEulerXYZ tmin tmax sqrt sin cos atan2 ⟨(t19).x00, (t19).x01, (t19).x02, (t19).x03, (t19).x10, (t19).x11, (t19).x12, (t19).x13, (t19).x20, (t19).x21, (t19).x22, (t19).x23, (t19).x30, (t19).x31, (t19).x32, (t19).x33⟩)
  let t136 := (M44.reorderFromXYZ_ZXZr sqrt sin cos atan2 ⟨(t44).x, (t44).y, (t44).z⟩)
  if t18 = (0 : α) then
    (false, ⟨(0 : α), (0 : α), (0 : α)⟩, ⟨(0 : α), (0 : α), (0 : α)⟩, ⟨(0 : α), (0 : α), (0 : α)⟩, ⟨(0 : α), (0 : α), (0 : α)⟩, (16 : Int))
  else
    (true, ⟨(t36).x, (t36).y, (t36).z⟩, ⟨(t40).x, (t40).y, (t40).z⟩, ⟨(t136).x, (t136).y, (t136).z⟩, ⟨m.x30, m.x31, m.x32⟩, (16 : Int))

/-- extracted from the C++ template at T = Sym; 2 path(s) -/
def M44.extractSHRTOrdExc_ZYX {α : Type} [Add α] [Sub α] [Mul α] [Div α] [Neg α] [LT α] [LE α] [DecidableLT α] [DecidableLE α] [DecidableEq α] [OfNat α 0] [OfNat α 1] [OfNat α 2] (tmin : α) (tmax : α) (sqrt : α → α) (sin : α → α) (cos : α → α) (atan2 : α → α → α) (m : M44 α) : Except Exc (Bool × (V3 α) × (V3 α) × (V3 α) × (V3 α)) :=
  let t18 := (SHRT.ear44Flag tmin tmax sqrt ⟨m.x00, m.x01, m.x02, m.x03, m.x10, m.x11, m.x12, m.x13, m.x20, m.x21, m.x22, m.x23, m.x30, m.x31, m.x32, m.x33⟩)
  let t19 := (SHRT.ear44Mat tmin tmax sqrt ⟨m.x00, m.x01, m.x02, m.x03, m.x10, m.x11, m.x12, m.x13, m.x20, m.x21, m.x22, m.x23, m.x30, m.x31, m.x32, m.x33⟩)
  let t36 := (SHRT.ear44Scl tmin tmax sqrt ⟨m.x00, m.x01, m.x02, m.x03, m.x10, m.x11, m.x12, m.x13, m.x20, m.x21, m.x22, m.x23, m.x30, m.x31, m.x32, m.x33⟩)
  let t40 := (SHRT.ear44Shr tmin tmax sqrt ⟨m.x00, m.x01, m.x02, m.x03, m.x10, m.x11, m.x12, m.x13, m.x20, m.x21, m.x22, m.x23, m.x30, m.x31, m.x32, m.x33⟩)
  let t44 := (M44.extractEulerXYZ tmin tmax sqrt sin cos atan2 ⟨(t19).x00, (t19).x01, (t19).x02, (t19).x03, (t19).x10, (t19).x11, (t19).x12, (t19).x13, (t19).x20, (t19).x21, (t19).x22, (t19).x23, (t19).x30, (t19).x31, (t19).x32, (t19).x33⟩)
  let t64 := (M44.reorderFromXYZ_ZYX sqrt sin cos atan2 ⟨(t44).x, (t44).y, (t44).z⟩)
  if t18 = (0 : α) then
    .error Exc.domainError
  else
    .ok ((true, ⟨(t36).x, (t36).y, (t36).z⟩, ⟨(t40).x, (t40).y, (t40).z⟩, ⟨(t64).z, (t64).y, (t64).x⟩, ⟨m.x30, m.x31, m.x32⟩))

/-- extracted from the C++ template at T = Sym; 2 path(s) -/
def M44.extractSHRTEulerExc_ZYX {α : Type} [Add α] [Sub α] [Mul α] [Div α] [Neg α] [LT α] [LE α] [DecidableLT α] [DecidableLE α] [DecidableEq α] [OfNat α 0] [OfNat α 1] [OfNat α 2] (tmin : α) (tmax : α) (sqrt : α → α) (sin : α → α) (cos : α → α) (atan2 : α → α → α) (m : M44 α) : Except Exc (Bool × (V3 α) × (V3 α) × (V3 α) × (V3 α) × Int) :=
  let t18 := (SHRT.ear44Flag tmin tmax sqrt ⟨m.x00, m.x01, m.x02, m.x03, m.x10, m.x11, m.x12, m.x13, m.x20, m.x21, m.x22, m.x23, m.x30, m.x31, m.x32, m.x33⟩)
  let t19 := (SHRT.ear44Mat tmin tmax sqrt ⟨m.x00, m.x01, m.x02, m.x03, m.x10, m.x11, m.x12, m.x13, m.x20, m.x21, m.x22, m.x23, m.x30, m.x31, m.x32, m.x33⟩)
  let t36 := (SHRT.ear44Scl tmin tmax sqrt ⟨m.x00, m.x01, m.x02, m.x03, m.x10, m.x11, m.x12, m.x13, m.x20, m.x21, m.x22, m.x23, m.x30, m.x31, m.x32, m.x33⟩)
  let t40 := (SHRT.ear44Shr tmin tmax sqrt ⟨m.x00, m.x01, m.x02, m.x03, m.x10, m.x11, m.x12, m.x13, m.x20, m.x21, m.x22, m.x23, m.x30, m.x31, m.x32, m.x33⟩)
  let t44 := (M44.extractEulerXYZ tmin tmax sqrt sin cos atan2 ⟨(t19).x00, (t19).x01, (t19).x02, (t19).x03, (t19).x10, (t19).x11, (t19).x12, (t19).x13, (t19).x20, (t19).x21, (t19).x22, (t19).x23, (t19).x30, (t19).x31, (t19).x32, (t19).x33⟩)
  let t64 := (M44.reorderFromXYZ_ZYX sqrt sin cos atan2 ⟨(t44).x, (t44).y, (t44).z⟩)
  if t18 = (0 : α) then
    .error Exc.domainError
  else
    .ok ((true, ⟨(t36).x, (t36).y, (t36).z⟩, ⟨(t40).x, (t40).y, (t40).z⟩, ⟨(t64).x, (t64).y, (t64).z⟩, ⟨m.x30, m.x31, m.x32⟩, (8193 : Int)))

/-- extracted from the C++ template at T = Sym; 2 path(s) -/
def M44.extractSHRT6 {α : Type} [Add α] [Sub α] [Mul α] [Div α] [Neg α] [LT α] [LE α] [DecidableLT α] [DecidableLE α] [DecidableEq α] [OfNat α 0] [OfNat α 1] [OfNat α 2] (tmin : α) (tmax : α) (sqrt : α → α) (sin : α → α) (cos : α → α) (atan2 : α → α → α) (m : M44 α) : (Bool × (V3 α) × (V3 α) × (V3 α) × (V3 α)) :=
  let t18 := (SHRT.ear44Flag tmin tmax sqrt ⟨m.x00, m.x01, m.x02, m.x03, m.x10, m.x11, m.x12, m.x13, m.x20, m.x21, m.x22, m.x23, m.x30, m.x31, m.x32, m.x33⟩)
  let t19 := (SHRT.ear44Mat tmin tmax sqrt ⟨m.x00, m.x01, m.x02, m.x03, m.x10, m.x11, m.x12, m.x13, m.x20, m.x21, m.x22, m.x23, m.x30, m.x31, m.x32, m.x33⟩)
  let t36 := (SHRT.ear44Scl tmin tmax sqrt ⟨m.x00, m.x01, m.x02, m.x03, m.x10, m.x11, m.x12, m.x13, m.x20, m.x21, m.x22, m.x23, m.x30, m.x31, m.x32, m.x33⟩)
  let t40 := (SHRT.ear44Shr tmin tmax sqrt ⟨m.x00, m.x01, m.x02, m.x03, m.x10, m.x11, m.x12, m.x13, m.x20, m.x21, m.x22, m.x23, m.x30, m.x31, m.x32, m.x33⟩)
  let t44 := (M44.extractEulerXYZ tmin tmax sqrt sin cos atan2 ⟨(t19).x00, (t19).x01, (t19).x02, (t19).x03, (t19).x10, (t19).x11, (t19).x12, (t19).x13, (t19).x20, (t19).x21, (t19).x22, (t19).x23, (t19).x30, (t19).x31, (t19).x32, (t19).x33⟩)
  if t18 = (0 : α) then
    (false, ⟨(0 : α), (0 : α), (0 : α)⟩, ⟨(0 : α), (0 : α), (0 : α)⟩, ⟨(0 : α), (0 : α), (0 : α)⟩, ⟨(0 : α), (0 : α), (0 : α)⟩)
  else
    (true, ⟨(t36).x, (t36).y, (t36).z⟩, ⟨(t40).x, (t40).y, (t40).z⟩, ⟨(t44).x, (t44).y, (t44).z⟩, ⟨m.x30, m.x31, m.x32⟩)

/-- extracted from the C++ template at T = Sym; 3 path(s) -/
def M44.computeRSMatrixS_1_1 {α : Type} [Add α] [Sub α] [Mul α] [Div α] [Neg α] [LT α] [LE α] [DecidableLT α] [DecidableLE α] [DecidableEq α] [OfNat α 0] [OfNat α 1] [OfNat α 2] (tmin : α) (tmax : α) (sqrt : α → α) (sin : α → α) (cos : α → α) (atan2 : α → α → α) (A : M44 α) (B : M44 α) : Except Exc (M44 α) :=
  let t172 := (SHRT.ear44Flag tmin tmax sqrt ⟨A.x00, A.x01, A.x02, A.x03, A.x10, A.x11, A.x12, A.x13, A.x20, A.x21, A.x22, A.x23, A.x30, A.x31, A.x32, A.x33⟩)
  let t173 := (SHRT.ear44Mat tmin tmax sqrt ⟨A.x00, A.x01, A.x02, A.x03, A.x10, A.x11, A.x12, A.x13, A.x20, A.x21, A.x22, A.x23, A.x30, A.x31, A.x32, A.x33⟩)
  let t190 := (SHRT.ear44Scl tmin tmax sqrt ⟨A.x00, A.x01, A.x02, A.x03, A.x10, A.x11, A.x12, A.x13, A.x20, A.x21, A.x22, A.x23, A.x30, A.x31, A.x32, A.x33⟩)
  let t198 := (M44.extractEulerXYZ tmin tmax sqrt sin cos atan2 ⟨(t173).x00, (t173).x01, (t173).x02, (t173).x03, (t173).x10, (t173).x11, (t173).x12, (t173).x13, (t173).x20, (t173).x21, (t173).x22, (t173).x23, (t173).x30, (t173).x31, (t173).x32, (t173).x33⟩)
  let t202 := (SHRT.ear44Flag tmin tmax sqrt ⟨B.x00, B.x01, B.x02, B.x03, B.x10, B.x11, B.x12, B.x13, B.x20, B.x21, B.x22, B.x23, B.x30, B.x31, B.x32, B.x33⟩)
  let t232 := (A.x32 * (0 : α))
  let t233 := (A.x31 * (0 : α))
  let t239 := (A.x30 * (0 : α))
  let t244 := (t239 + t233)
  let t249 := (cos (t198).z)
  let t250 := (cos (t198).y)
  let t251 := (cos (t198).x)
  let t252 := (sin (t198).z)
  let t253 := (sin (t198).y)
  let t254 := (sin (t198).x)
  let t255 := (t249 * t250)
  let t256 := (t252 * t250)
  let t257 := (-t253)
  let t258 := (t249 * t253)
  let t260 := (-t252)
  let t262 := ((t260 * t251) + (t258 * t254))
  let t263 := (t252 * t253)
  let t266 := ((t249 * t251) + (t263 * t254))
  let t267 := (t250 * t254)
  let t269 := (-t254)
  let t271 := ((t260 * t269) + (t258 * t251))
  let t274 := ((t249 * t269) + (t263 * t251))
  let t275 := (t250 * t251)
  let t276 := ((0 : α) * t257)
  let t277 := ((0 : α) * t256)
  let t282 := ((0 : α) * t255)
  let t286 := (t282 + t277)
  let t289 := ((0 : α) * t267)
  let t290 := ((0 : α) * t266)
  let t295 := ((0 : α) * t262)
  let t299 := (t295 + t290)
  let t302 := ((0 : α) * t275)
  let t303 := ((0 : α) * t274)
  let t308 := ((0 : α) * t271)
  let t312 := (t308 + t303)
  if t172 = (0 : α) then
    .error Exc.domainError
  else
    if t202 = (0 : α) then
      .error Exc.domainError
    else
      .ok (⟨(((((1 : α) * t255) + t277) + t276) * (t190).x), (((t282 + ((1 : α) * t256)) + t276) * (t190).x), ((t286 + ((1 : α) * t257)) * (t190).x), ((t286 + t276) * (t190).x), (((((1 : α) * t262) + t290) + t289) * (t190).y), (((t295 + ((1 : α) * t266)) + t289) * (t190).y), ((t299 + ((1 : α) * t267)) * (t190).y), ((t299 + t289) * (t190).y), (((((1 : α) * t271) + t303) + t302) * (t190).z), (((t308 + ((1 : α) * t274)) + t302) * (t190).z), ((t312 + ((1 : α) * t275)) * (t190).z), ((t312 + t302) * (t190).z), ((0 : α) + (((A.x30 * (1 : α)) + t233) + t232)), ((0 : α) + ((t239 + (A.x31 * (1 : α))) + t232)), ((0 : α) + (t244 + (A.x32 * (1 : α)))), ((1 : α) + (t244 + t232))⟩)

/-- extracted from the C++ template at T = Sym; 3 path(s) -/
def M44.computeRSMatrixS_1_0 {α : Type} [Add α] [Sub α] [Mul α] [Div α] [Neg α] [LT α] [LE α] [DecidableLT α] [DecidableLE α] [DecidableEq α] [OfNat α 0] [OfNat α 1] [OfNat α 2] (tmin : α) (tmax : α) (sqrt : α → α) (sin : α → α) (cos : α → α) (atan2 : α → α → α) (A : M44 α) (B : M44 α) : Except Exc (M44 α) :=
  let t172 := (SHRT.ear44Flag tmin tmax sqrt ⟨A.x00, A.x01, A.x02, A.x03, A.x10, A.x11, A.x12, A.x13, A.x20, A.x21, A.x22, A.x23, A.x30, A.x31, A.x32, A.x33⟩)
  let t173 := (SHRT.ear44Mat tmin tmax sqrt ⟨A.x00, A.x01, A.x02, A.x03, A.x10, A.x11, A.x12, A.x13, A.x20, A.x21, A.x22, A.x23, A.x30, A.x31, A.x32, A.x33⟩)
  let t198 := (M44.extractEulerXYZ tmin tmax sqrt sin cos atan2 ⟨(t173).x00, (t173).x01, (t173).x02, (t173).x03, (t173).x10, (t173).x11, (t173).x12, (t173).x13, (t173).x20, (t173).x21, (t173).x22, (t173).x23, (t173).x30, (t173).x31, (t173).x32, (t173).x33⟩)
  let t202 := (SHRT.ear44Flag tmin tmax sqrt ⟨B.x00, B.x01, B.x02, B.x03, B.x10, B.x11, B.x12, B.x13, B.x20, B.x21, B.x22, B.x23, B.x30, B.x31, B.x32, B.x33⟩)
  let t220 := (SHRT.ear44Scl tmin tmax sqrt ⟨B.x00, B.x01, B.x02, B.x03, B.x10, B.x11, B.x12, B.x13, B.x20, B.x21, B.x22, B.x23, B.x30, B.x31, B.x32, B.x33⟩)
  let t232 := (A.x32 * (0 : α))
  let t233 := (A.x31 * (0 : α))
  let t239 := (A.x30 * (0 : α))
  let t244 := (t239 + t233)
  let t249 := (cos (t198).z)
  let t250 := (cos (t198).y)
  let t251 := (cos (t198).x)
  let t252 := (sin (t198).z)
  let t253 := (sin (t198).y)
  let t254 := (sin (t198).x)
  let t255 := (t249 * t250)
  let t256 := (t252 * t250)
  let t257 := (-t253)
  let t258 := (t249 * t253)
  let t260 := (-t252)
  let t262 := ((t260 * t251) + (t258 * t254))
  let t263 := (t252 * t253)
  let t266 := ((t249 * t251) + (t263 * t254))
  let t267 := (t250 * t254)
  let t269 := (-t254)
  let t271 := ((t260 * t269) + (t258 * t251))
  let t274 := ((t249 * t269) + (t263 * t251))
  let t275 := (t250 * t251)
  let t276 := ((0 : α) * t257)
  let t277 := ((0 : α) * t256)
  let t282 := ((0 : α) * t255)
  let t286 := (t282 + t277)
  let t289 := ((0 : α) * t267)
  let t290 := ((0 : α) * t266)
  let t295 := ((0 : α) * t262)
  let t299 := (t295 + t290)
  let t302 := ((0 : α) * t275)
  let t303 := ((0 : α) * t274)
  let t308 := ((0 : α) * t271)
  let t312 := (t308 + t303)
  if t172 = (0 : α) then
    .error Exc.domainError
  else
    if t202 = (0 : α) then
      .error Exc.domainError
    else
      .ok (⟨(((((1 : α) * t255) + t277) + t276) * (t220).x), (((t282 + ((1 : α) * t256)) + t276) * (t220).x), ((t286 + ((1 : α) * t257)) * (t220).x), ((t286 + t276) * (t220).x), (((((1 : α) * t262) + t290) + t289) * (t220).y), (((t295 + ((1 : α) * t266)) + t289) * (t220).y), ((t299 + ((1 : α) * t267)) * (t220).y), ((t299 + t289) * (t220).y), (((((1 : α) * t271) + t303) + t302) * (t220).z), (((t308 + ((1 : α) * t274)) + t302) * (t220).z), ((t312 + ((1 : α) * t275)) * (t220).z), ((t312 + t302) * (t220).z), ((0 : α) + (((A.x30 * (1 : α)) + t233) + t232)), ((0 : α) + ((t239 + (A.x31 * (1 : α))) + t232)), ((0 : α) + (t244 + (A.x32 * (1 : α)))), ((1 : α) + (t244 + t232))⟩)

/-- extracted from the C++ template at T = Sym; 3 path(s) -/
def M44.computeRSMatrixS_0_1 {α : Type} [Add α] [Sub α] [Mul α] [Div α] [Neg α] [LT α] [LE α] [DecidableLT α] [DecidableLE α] [DecidableEq α] [OfNat α 0] [OfNat α 1] [OfNat α 2] (tmin : α) (tmax : α) (sqrt : α → α) (sin : α → α) (cos : α → α) (atan2 : α → α → α) (A : M44 α) (B : M44 α) : Except Exc (M44 α) :=
  let t172 := (SHRT.ear44Flag tmin tmax sqrt ⟨A.x00, A.x01, A.x02, A.x03, A.x10, A.x11, A.x12, A.x13, A.x20, A.x21, A.x22, A.x23, A.x30, A.x31, A.x32, A.x33⟩)
  let t190 := (SHRT.ear44Scl tmin tmax sqrt ⟨A.x00, A.x01, A.x02, A.x03, A.x10, A.x11, A.x12, A.x13, A.x20, A.x21, A.x22, A.x23, A.x30, A.x31, A.x32, A.x33⟩)
  let t202 := (SHRT.ear44Flag tmin tmax sqrt ⟨B.x00, B.x01, B.x02, B.x03, B.x10, B.x11, B.x12, B.x13, B.x20, B.x21, B.x22, B.x23, B.x30, B.x31, B.x32, B.x33⟩)
  let t203 := (SHRT.ear44Mat tmin tmax sqrt ⟨B.x00, B.x01, B.x02, B.x03, B.x10, B.x11, B.x12, B.x13, B.x20, B.x21, B.x22, B.x23, B.x30, B.x31, B.x32, B.x33⟩)
  let t228 := (M44.extractEulerXYZ tmin tmax sqrt sin cos atan2 ⟨(t203).x00, (t203).x01, (t203).x02, (t203).x03, (t203).x10, (t203).x11, (t203).x12, (t203).x13, (t203).x20, (t203).x21, (t203).x22, (t203).x23, (t203).x30, (t203).x31, (t203).x32, (t203).x33⟩)
  let t232 := (A.x32 * (0 : α))
  let t233 := (A.x31 * (0 : α))
  let t239 := (A.x30 * (0 : α))
  let t244 := (t239 + t233)
  let t339 := (cos (t228).z)
  let t340 := (cos (t228).y)
  let t341 := (cos (t228).x)
  let t342 := (sin (t228).z)
  let t343 := (sin (t228).y)
  let t344 := (sin (t228).x)
  let t345 := (t339 * t340)
  let t346 := (t342 * t340)
  let t347 := (-t343)
  let t348 := (t339 * t343)
  let t350 := (-t342)
  let t352 := ((t350 * t341) + (t348 * t344))
  let t353 := (t342 * t343)
  let t356 := ((t339 * t341) + (t353 * t344))
  let t357 := (t340 * t344)
  let t359 := (-t344)
  let t361 := ((t350 * t359) + (t348 * t341))
  let t364 := ((t339 * t359) + (t353 * t341))
  let t365 := (t340 * t341)
  let t366 := ((0 : α) * t347)
  let t367 := ((0 : α) * t346)
  let t372 := ((0 : α) * t345)
  let t376 := (t372 + t367)
  let t379 := ((0 : α) * t357)
  let t380 := ((0 : α) * t356)
  let t385 := ((0 : α) * t352)
  let t389 := (t385 + t380)
  let t392 := ((0 : α) * t365)
  let t393 := ((0 : α) * t364)
  let t398 := ((0 : α) * t361)
  let t402 := (t398 + t393)
  if t172 = (0 : α) then
    .error Exc.domainError
  else
    if t202 = (0 : α) then
      .error Exc.domainError
    else
      .ok (⟨(((((1 : α) * t345) + t367) + t366) * (t190).x), (((t372 + ((1 : α) * t346)) + t366) * (t190).x), ((t376 + ((1 : α) * t347)) * (t190).x), ((t376 + t366) * (t190).x), (((((1 : α) * t352) + t380) + t379) * (t190).y), (((t385 + ((1 : α) * t356)) + t379) * (t190).y), ((t389 + ((1 : α) * t357)) * (t190).y), ((t389 + t379) * (t190).y), (((((1 : α) * t361) + t393) + t392) * (t190).z), (((t398 + ((1 : α) * t364)) + t392) * (t190).z), ((t402 + ((1 : α) * t365)) * (t190).z), ((t402 + t392) * (t190).z), ((0 : α) + (((A.x30 * (1 : α)) + t233) + t232)), ((0 : α) + ((t239 + (A.x31 * (1 : α))) + t232)), ((0 : α) + (t244 + (A.x32 * (1 : α)))), ((1 : α) + (t244 + t232))⟩)

/-- extracted from the C++ template at T = Sym; 3 path(s) -/
def M44.computeRSMatrixS_0_0 {α : Type} [Add α] [Sub α] [Mul α] [Div α] [Neg α] [LT α] [LE α] [DecidableLT α] [DecidableLE α] [DecidableEq α] [OfNat α 0] [OfNat α 1] [OfNat α 2] (tmin : α) (tmax : α) (sqrt : α → α) (sin : α → α) (cos : α → α) (atan2 : α → α → α) (A : M44 α) (B : M44 α) : Except Exc (M44 α) :=
  let t172 := (SHRT.ear44Flag tmin tmax sqrt ⟨A.x00, A.x01, A.x02, A.x03, A.x10, A.x11, A.x12, A.x13, A.x20, A.x21, A.x22, A.x23, A.x30, A.x31, A.x32, A.x33⟩)
  let t202 := (SHRT.ear44Flag tmin tmax sqrt ⟨B.x00, B.x01, B.x02, B.x03, B.x10, B.x11, B.x12, B.x13, B.x20, B.x21, B.x22, B.x23, B.x30, B.x31, B.x32, B.x33⟩)
  let t203 := (SHRT.ear44Mat tmin tmax sqrt ⟨B.x00, B.x01, B.x02, B.x03, B.x10, B.x11, B.x12, B.x13, B.x20, B.x21, B.x22, B.x23, B.x30, B.x31, B.x32, B.x33⟩)
  let t220 := (SHRT.ear44Scl tmin tmax sqrt ⟨B.x00, B.x01, B.x02, B.x03, B.x10, B.x11, B.x12, B.x13, B.x20, B.x21, B.x22, B.x23, B.x30, B.x31, B.x32, B.x33⟩)
  let t228 := (M44.extractEulerXYZ tmin tmax sqrt sin cos atan2 ⟨(t203).x00, (t203).x01, (t203).x02, (t203).x03, (t203).x10, (t203).x11, (t203).x12, (t203).x13, (t203).x20, (t203).x21, (t203).x22, (t203).x23, (t203).x30, (t203).x31, (t203).x32, (t203).x33⟩)
  let t232 := (A.x32 * (0 : α))
  let t233 := (A.x31 * (0 : α))
  let t239 := (A.x30 * (0 : α))
  let t244 := (t239 + t233)
  let t339 := (cos (t228).z)
  let t340 := (cos (t228).y)
  let t341 := (cos (t228).x)
  let t342 := (sin (t228).z)
  let t343 := (sin (t228).y)
  let t344 := (sin (t228).x)
  let t345 := (t339 * t340)
  let t346 := (t342 * t340)
  let t347 := (-t343)
  let t348 := (t339 * t343)
  let t350 := (-t342)
  let t352 := ((t350 * t341) + (t348 * t344))
  let t353 := (t342 * t343)
  let t356 := ((t339 * t341) + (t353 * t344))
  let t357 := (t340 * t344)
  let t359 := (-t344)
  let t361 := ((t350 * t359) + (t348 * t341))
  let t364 := ((t339 * t359) + (t353 * t341))
  let t365 := (t340 * t341)
  let t366 := ((0 : α) * t347)
  let t367 := ((0 : α) * t346)
  let t372 := ((0 : α) * t345)
  let t376 := (t372 + t367)
  let t379 := ((0 : α) * t357)
  let t380 := ((0 : α) * t356)
  let t385 := ((0 : α) * t352)
  let t389 := (t385 + t380)
  let t392 := ((0 : α) * t365)
  let t393 := ((0 : α) * t364)
  let t398 := ((0 : α) * t361)
  let t402 := (t398 + t393)
  if t172 = (0 : α) then
    .error Exc.domainError
  else
    if t202 = (0 : α) then
      .error Exc.domainError
    else
      .ok (⟨(((((1 : α) * t345) + t367) + t366) * (t220).x), (((t372 + ((1 : α) * t346)) + t366) * (t220).x), ((t376 + ((1 : α) * t347)) * (t220).x), ((t376 + t366) * (t220).x), (((((1 : α) * t352) + t380) + t379) * (t220).y), (((t385 + ((1 : α) * t356)) + t379) * (t220).y), ((t389 + ((1 : α) * t357)) * (t220).y), ((t389 + t379) * (t220).y), (((((1 : α) * t361) + t393) + t392) * (t220).z), (((t398 + ((1 : α) * t364)) + t392) * (t220).z), ((t402 + ((1 : α) * t365)) * (t220).z), ((t402 + t392) * (t220).z), ((0 : α) + (((A.x30 * (1 : α)) + t233) + t232)), ((0 : α) + ((t239 + (A.x31 * (1 : α))) + t232)), ((0 : α) + (t244 + (A.x32 * (1 : α)))), ((1 : α) + (t244 + t232))⟩)

end ImathVerif.Gen
