-- GENERATED from /repo/src/Imath by harness/sym (T = Sym path extraction); do not edit.
import ImathVerif.Basic.Types
import ImathVerif.Gen.Leaf
set_option linter.unusedVariables false
namespace ImathVerif.Gen
open ImathVerif

/-- extracted from the C++ template at T = Sym; 9 path(s) -/
def C10.extractQuat {α : Type} [Add α] [Sub α] [Mul α] [Div α] [LT α] [DecidableLT α] [DecidableEq α] [OfNat α 0] [OfNat α 1] [OfNat α 2] (sqrt : α → α) (mat : M44 α) : (Quat α) :=
  let t2009 := (mat.x00 + mat.x11)
  let t2010 := (t2009 + mat.x22)
  let t2012 := (sqrt (t2010 + (1 : α)))
  let t2015 := (((1 : α) / (2 : α)) / t2012)
  let t2016 := (mat.x12 - mat.x21)
  let t2018 := (mat.x20 - mat.x02)
  let t2020 := (mat.x01 - mat.x10)
  let t2024 := (sqrt ((mat.x22 - t2009) + (1 : α)))
  let t2025 := (t2024 * ((1 : α) / (2 : α)))
  let t2026 := (t2020 * t2024)
  let t2027 := (mat.x20 + mat.x02)
  let t2028 := (t2027 * t2024)
  let t2029 := (mat.x21 + mat.x12)
  let t2030 := (t2029 * t2024)
  let t2031 := (((1 : α) / (2 : α)) / t2024)
  let t2032 := (t2020 * t2031)
  let t2033 := (t2027 * t2031)
  let t2034 := (t2029 * t2031)
  let t2038 := (sqrt ((mat.x11 - (mat.x22 + mat.x00)) + (1 : α)))
  let t2039 := (t2038 * ((1 : α) / (2 : α)))
  let t2041 := (mat.x12 + mat.x21)
  let t2043 := (mat.x10 + mat.x01)
  let t2045 := (((1 : α) / (2 : α)) / t2038)
  let t2052 := (sqrt ((mat.x00 - (mat.x11 + mat.x22)) + (1 : α)))
  let t2053 := (t2052 * ((1 : α) / (2 : α)))
  let t2055 := (mat.x01 + mat.x10)
  let t2057 := (mat.x02 + mat.x20)
  let t2059 := (((1 : α) / (2 : α)) / t2052)
  if (0 : α) < t2010 then
    ⟨(t2012 / (2 : α)), ⟨(t2016 * t2015), (t2018 * t2015), (t2020 * t2015)⟩⟩
  else
    if mat.x00 < mat.x11 then
      if mat.x11 < mat.x22 then
        if t2024 = (0 : α) then
          ⟨t2026, ⟨t2028, t2030, t2025⟩⟩
        else
          ⟨t2032, ⟨t2033, t2034, t2025⟩⟩
      else
        if t2038 = (0 : α) then
          ⟨(t2018 * t2038), ⟨(t2043 * t2038), t2039, (t2041 * t2038)⟩⟩
        else
          ⟨(t2018 * t2045), ⟨(t2043 * t2045), t2039, (t2041 * t2045)⟩⟩
    else
      if mat.x00 < mat.x22 then
        if t2024 = (0 : α) then
          ⟨t2026, ⟨t2028, t2030, t2025⟩⟩
        else
          ⟨t2032, ⟨t2033, t2034, t2025⟩⟩
      else
        if t2052 = (0 : α) then
          ⟨(t2016 * t2052), ⟨t2053, (t2055 * t2052), (t2057 * t2052)⟩⟩
        else
          ⟨(t2016 * t2059), ⟨t2053, (t2055 * t2059), (t2057 * t2059)⟩⟩

/-- extracted from the C++ template at T = Sym; 2 path(s) -/
def C10.M44.setAxisAngle {α : Type} [Add α] [Sub α] [Mul α] [Div α] [Neg α] [LT α] [LE α] [DecidableLT α] [DecidableLE α] [DecidableEq α] [OfNat α 0] [OfNat α 1] [OfNat α 2] (tmin : α) (tmax : α) (sqrt : α → α) (sin : α → α) (cos : α → α) (m : M44 α) (axis : V3 α) (angle : α) : (M44 α) :=
  let t544 := (V3.length tmin tmax sqrt ⟨axis.x, axis.y, axis.z⟩)
  let t546 := (axis.z / t544)
  let t547 := (axis.y / t544)
  let t548 := (axis.x / t544)
  let t2064 := (sin angle)
  let t2065 := (cos angle)
  let t2066 := ((1 : α) - t2065)
  let t2068 := (((0 : α) * (0 : α)) * t2066)
  let t2069 := (t2068 + t2065)
  let t2070 := ((0 : α) * t2064)
  let t2071 := (t2068 + t2070)
  let t2072 := (t2068 - t2070)
  let t2076 := (t546 * t2064)
  let t2078 := ((t548 * t547) * t2066)
  let t2080 := (t547 * t2064)
  let t2082 := ((t548 * t546) * t2066)
  let t2088 := (t548 * t2064)
  let t2090 := ((t547 * t546) * t2066)
  if t544 = (0 : α) then
    ⟨t2069, t2071, t2072, (0 : α), t2072, t2069, t2071, (0 : α), t2071, t2072, t2069, (0 : α), (0 : α), (0 : α), (0 : α), (1 : α)⟩
  else
    ⟨(((t548 * t548) * t2066) + t2065), (t2078 + t2076), (t2082 - t2080), (0 : α), (t2078 - t2076), (((t547 * t547) * t2066) + t2065), (t2090 + t2088), (0 : α), (t2082 + t2080), (t2090 - t2088), (((t546 * t546) * t2066) + t2065), (0 : α), (0 : α), (0 : α), (0 : α), (1 : α)⟩

end ImathVerif.Gen
