-- GENERATED from /repo/src/Imath by harness/sym (T = Sym path extraction); do not edit.
import ImathVerif.Basic.Types
import ImathVerif.Gen.Leaf
set_option linter.unusedVariables false
namespace ImathVerif.Gen
open ImathVerif

/-- extracted from the C++ template at T = Sym; 9 path(s) -/
def C10.extractQuat {α : Type} [Add α] [Sub α] [Mul α] [Div α] [LT α] [DecidableLT α] [DecidableEq α] [OfNat α 0] [OfNat α 1] [OfNat α 2] (sqrt : α → α) (mat : M44 α) : (Quat α) :=
  let t2352 := (mat.x00 + mat.x11)
  let t2353 := (t2352 + mat.x22)
  let t2355 := (sqrt (t2353 + (1 : α)))
  let t2358 := (((1 : α) / (2 : α)) / t2355)
  let t2359 := (mat.x12 - mat.x21)
  let t2361 := (mat.x20 - mat.x02)
  let t2363 := (mat.x01 - mat.x10)
  let t2367 := (sqrt ((mat.x22 - t2352) + (1 : α)))
  let t2368 := (t2367 * ((1 : α) / (2 : α)))
  let t2369 := (t2363 * t2367)
  let t2370 := (mat.x20 + mat.x02)
  let t2371 := (t2370 * t2367)
  let t2372 := (mat.x21 + mat.x12)
  let t2373 := (t2372 * t2367)
  let t2374 := (((1 : α) / (2 : α)) / t2367)
  let t2375 := (t2363 * t2374)
  let t2376 := (t2370 * t2374)
  let t2377 := (t2372 * t2374)
  let t2381 := (sqrt ((mat.x11 - (mat.x22 + mat.x00)) + (1 : α)))
  let t2382 := (t2381 * ((1 : α) / (2 : α)))
  let t2384 := (mat.x12 + mat.x21)
  let t2386 := (mat.x10 + mat.x01)
  let t2388 := (((1 : α) / (2 : α)) / t2381)
  let t2395 := (sqrt ((mat.x00 - (mat.x11 + mat.x22)) + (1 : α)))
  let t2396 := (t2395 * ((1 : α) / (2 : α)))
  let t2398 := (mat.x01 + mat.x10)
  let t2400 := (mat.x02 + mat.x20)
  let t2402 := (((1 : α) / (2 : α)) / t2395)
  if (0 : α) < t2353 then
    ⟨(t2355 / (2 : α)), ⟨(t2359 * t2358), (t2361 * t2358), (t2363 * t2358)⟩⟩
  else
    if mat.x00 < mat.x11 then
      if mat.x11 < mat.x22 then
        if t2367 = (0 : α) then
          ⟨t2369, ⟨t2371, t2373, t2368⟩⟩
        else
          ⟨t2375, ⟨t2376, t2377, t2368⟩⟩
      else
        if t2381 = (0 : α) then
          ⟨(t2361 * t2381), ⟨(t2386 * t2381), t2382, (t2384 * t2381)⟩⟩
        else
          ⟨(t2361 * t2388), ⟨(t2386 * t2388), t2382, (t2384 * t2388)⟩⟩
    else
      if mat.x00 < mat.x22 then
        if t2367 = (0 : α) then
          ⟨t2369, ⟨t2371, t2373, t2368⟩⟩
        else
          ⟨t2375, ⟨t2376, t2377, t2368⟩⟩
      else
        if t2395 = (0 : α) then
          ⟨(t2359 * t2395), ⟨t2396, (t2398 * t2395), (t2400 * t2395)⟩⟩
        else
          ⟨(t2359 * t2402), ⟨t2396, (t2398 * t2402), (t2400 * t2402)⟩⟩

/-- extracted from the C++ template at T = Sym; 2 path(s) -/
def C10.M44.setAxisAngle {α : Type} [Add α] [Sub α] [Mul α] [Div α] [Neg α] [LT α] [LE α] [DecidableLT α] [DecidableLE α] [DecidableEq α] [OfNat α 0] [OfNat α 1] [OfNat α 2] (tmin : α) (tmax : α) (sqrt : α → α) (sin : α → α) (cos : α → α) (m : M44 α) (axis : V3 α) (angle : α) : (M44 α) :=
  let t894 := (V3.length tmin tmax sqrt ⟨axis.x, axis.y, axis.z⟩)
  let t895 := (axis.z / t894)
  let t896 := (axis.y / t894)
  let t897 := (axis.x / t894)
  let t2407 := (sin angle)
  let t2408 := (cos angle)
  let t2409 := ((1 : α) - t2408)
  let t2411 := (((0 : α) * (0 : α)) * t2409)
  let t2412 := (t2411 + t2408)
  let t2413 := ((0 : α) * t2407)
  let t2414 := (t2411 + t2413)
  let t2415 := (t2411 - t2413)
  let t2419 := (t895 * t2407)
  let t2421 := ((t897 * t896) * t2409)
  let t2423 := (t896 * t2407)
  let t2425 := ((t897 * t895) * t2409)
  let t2431 := (t897 * t2407)
  let t2433 := ((t896 * t895) * t2409)
  if t894 = (0 : α) then
    ⟨t2412, t2414, t2415, (0 : α), t2415, t2412, t2414, (0 : α), t2414, t2415, t2412, (0 : α), (0 : α), (0 : α), (0 : α), (1 : α)⟩
  else
    ⟨(((t897 * t897) * t2409) + t2408), (t2421 + t2419), (t2425 - t2423), (0 : α), (t2421 - t2419), (((t896 * t896) * t2409) + t2408), (t2433 + t2431), (0 : α), (t2425 + t2423), (t2433 - t2431), (((t895 * t895) * t2409) + t2408), (0 : α), (0 : α), (0 : α), (0 : α), (1 : α)⟩

end ImathVerif.Gen
